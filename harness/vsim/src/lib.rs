//! E1 as a library: the virtual-transport simulator (used by the vsim binary and by netsim's C11 check), and the C08 sweep (which netsim's C08 runs before its own listener-level segmentations).
pub mod alloc;
pub mod c01;
pub mod c02;
pub mod c08;
pub mod sim;
pub mod util;
