//! E1 as a library: the virtual-transport simulator and the sweeps of every check it decides. netsim hosts them
//! (it runs a sweep first and adds whole connections through the real Listener and the assembled application to
//! the same report); the vsim binary runs a sweep on its own.
pub mod alloc;
pub mod c01;
pub mod c02;
pub mod c03;
pub mod c04;
pub mod c05;
pub mod c06;
pub mod c07;
pub mod c08;
pub mod c10;
pub mod sim;
pub mod util;
