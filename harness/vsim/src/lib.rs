//! E1 as a library: the virtual-transport simulator (used by the vsim binary and by netsim's C11 check).
pub mod alloc;
pub mod sim;
pub mod util;
