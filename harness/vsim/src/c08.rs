//! C08: connection behaviour is independent of segmentation and completion timing.
//!
//! Differential, deviation-bounded exploration: each scenario is run once unsegmented with
//! prompt transport answers (baseline) and then with every single deviation (and, in the
//! thorough tier, the stated pairs) from the alphabet: a segment boundary at any byte offset of
//! the client's stream followed by a pause, a partial / delayed acceptance of any clientbound
//! frame, one-byte segmentation, and another pattern of unbiased select draws.
use crate::sim::*;
use crate::util::*;
use common::refs::codec::Pkt;
use common::{Cli, Report, Violation, par_for};
use serde::{Deserialize, Serialize};
use serde_json::{Value, json};
use std::collections::HashSet;
use std::sync::Mutex;
use std::sync::atomic::{AtomicU64, Ordering};

const PERIOD: Ms = 16_000;
const SECRET: &[u8] = b"c08-cookie-secret";
const CK_NAME: &str = "Cookie_Holder";
const CK_UUID: u128 = 0x0987_9557_e479_45a9_b434_a56377674627;

#[derive(Clone, Debug, Serialize, Deserialize, PartialEq)]
pub enum Dev {
    /// segment boundary before byte `offset` of the client's stream; the rest arrives after the pause
    SplitYield { offset: usize },
    SplitMs { offset: usize, ms: u64 },
    SplitUntil { offset: usize, t: u64 },
    /// clientbound frame `frame`: accept `first` bytes, then the given wait, then the rest
    Write { frame: usize, first: usize, wait: String, t: u64 },
    /// deliver the client's bytes one at a time
    OneByteReads,
    /// accept clientbound bytes one at a time
    OneByteWrites,
    /// another seed for the unbiased select draws
    Seed { seed: u64 },
    /// latency override of one adapter (0 discovery, 1 filter, 2 strategy)
    Latency { adapter: usize, ms: u64 },
    /// script step `step` is sent in the same burst as the step before it instead of waiting for the
    /// server's reaction (the same byte stream, arriving coalesced)
    Coalesce { step: usize },
}

#[derive(Clone, Debug, Serialize, Deserialize, PartialEq)]
pub struct Spec {
    scenario: String,
    devs: Vec<Dev>,
}

pub fn scenario_names() -> Vec<&'static str> {
    vec!["status", "login-transfer", "pipelined-login-transfer", "eager-login-transfer", "cookie-transfer", "eager-cookie-transfer", "login-no-target", "big-frames-slow-discovery", "slow-discovery", "slow-filter", "slow-strategy", "silent-client-slow-routing",
        // the same exchanges under frame limits at and beyond the place where a length prefix may have three bytes
        // a chatty client (40 plugin messages before Client Information) and a refusal after slow routing
        "many-plugin-messages", "slow-discovery-no-target",
        "status@2097151", "eager-login-transfer@2097151", "eager-cookie-transfer@16384", "pipelined-login-transfer@2147483647",
        // byte streams a well-behaved client would not produce but may: length prefixes written with more bytes than
        // needed (`81 00` for 1), and an empty frame (a lone `00`) between two frames. Whatever the router makes of
        // them - serve, refuse - it makes of them under every segmentation.
        "odd-status-padded-2", "odd-status-padded-3", "odd-status-padded-5", "odd-login-padded-2", "odd-login-padded-3-lockstep",
        "odd-status-empty-frame", "odd-status-empty-frame-before-ping", "odd-login-empty-frame-in-configuration"]
}

fn scenario(name: &str) -> Case {
    let mut case = Case::default();
    case.cfg.auth_secret = Some(SECRET.to_vec());
    case.horizon_ms = 300_000;
    let name = match name.split_once('@') {
        Some((n, max)) => {
            case.cfg.max_packet_length = max.parse().unwrap_or_else(|_| common::machinery("scenario limit"));
            n
        }
        None => name,
    };
    match name {
        "status" => {
            case.adapters.status = StatusPlan::Full;
            case.script = vec![
                st(When::Idle, Act::Handshake { proto: 769, host: "mc.example.org".into(), port: 25565, next: 1 }),
                st(When::Idle, Act::StatusRequest),
                st(When::Idle, Act::Ping(0x0102030405060708)),
            ];
        }
        n if n.starts_with("odd-status-padded-") => {
            case.adapters.status = StatusPlan::Full;
            case.transport.sb_len_pad = n.rsplit('-').next().and_then(|k| k.parse().ok()).unwrap_or(2);
            case.script = vec![
                st(When::Idle, Act::Handshake { proto: 769, host: "mc.example.org".into(), port: 25565, next: 1 }),
                st(When::With, Act::StatusRequest),
                st(When::With, Act::Ping(0x1112131415161718)),
            ];
        }
        "odd-login-padded-2" => {
            case.transport.sb_len_pad = 2;
            case.script = Login { eager: true, ..Default::default() }.steps();
        }
        "odd-login-padded-3-lockstep" => {
            case.transport.sb_len_pad = 3;
            case.script = Login::default().steps();
        }
        "odd-status-empty-frame" | "odd-status-empty-frame-before-ping" => {
            case.adapters.status = StatusPlan::Full;
            let mut steps = vec![st(When::Idle, Act::Handshake { proto: 769, host: "mc.example.org".into(), port: 25565, next: 1 }), st(When::With, Act::StatusRequest), st(When::With, Act::Ping(0x2122232425262728))];
            steps.insert(if name.ends_with("before-ping") { 2 } else { 1 }, st(When::With, Act::Raw(vec![0])));
            case.script = steps;
        }
        "odd-login-empty-frame-in-configuration" => {
            let mut steps = Login { eager: true, ..Default::default() }.steps();
            let at = steps.len() - 1;
            steps.insert(at, st(When::With, Act::Raw(vec![0])));
            case.script = steps;
        }
        "login-transfer" => case.script = Login::default().steps(),
        // handshake + login start in one burst, login acknowledged + client information in one burst
        "pipelined-login-transfer" => case.script = Login { pipelined: true, ..Default::default() }.steps(),
        // everything that does not need an answer from the server in one burst: handshake + login start +
        // cookie answers, then Encryption Response + Login Acknowledged + Client Information
        "eager-login-transfer" => case.script = Login { eager: true, ..Default::default() }.steps(),
        "cookie-transfer" | "eager-cookie-transfer" => {
            let cookie = valid_cookie(SECRET, 5, &case.cfg.client_addr.to_string(), CK_NAME, CK_UUID, &[]);
            case.script = Login { intent: 3, auth_cookie: Some(Some(cookie)), eager: name.starts_with("eager"), ..Default::default() }.steps();
        }
        "login-no-target" => {
            case.script = Login { locale: "de_de".into(), ..Default::default() }.steps();
            case.adapters.strat = StratPlan::None;
        }
        "big-frames-slow-discovery" => {
            let mut steps = Login { locale: "l".repeat(140), ..Default::default() }.steps();
            // a 200-byte plugin message before Client Information (frames whose length prefix is two bytes)
            let ci = steps.pop().unwrap();
            steps.push(st(When::Idle, Act::Frame { id: 2, body: common::refs::codec::W::new().string("minecraft:brand").raw(&[0x42; 200]).done() }));
            steps.push(ci);
            case.script = steps;
            case.adapters.disc_ms = 20_000;
        }
        "many-plugin-messages" => {
            let mut steps = Login::default().steps();
            let ci = steps.pop().unwrap();
            for k in 0..40u8 {
                steps.push(st(When::Idle, Act::Frame { id: 2, body: common::refs::codec::W::new().string("minecraft:register").raw(&[b'a' + k % 26; 42]).done() }));
            }
            steps.push(ci);
            case.script = steps;
        }
        "slow-discovery-no-target" => {
            case.script = Login { locale: "de_de".into(), ..Default::default() }.steps();
            case.adapters.disc_ms = 20_000;
            case.adapters.strat = StratPlan::None;
        }
        "slow-discovery" | "slow-filter" | "slow-strategy" => {
            case.script = Login::default().steps();
            match name {
                "slow-discovery" => case.adapters.disc_ms = 20_000,
                "slow-filter" => case.adapters.filter_ms = 20_000,
                _ => case.adapters.strat_ms = 20_000,
            }
        }
        // a client that never answers a Keep Alive while two routing stages are slow: Keep Alive at 16 s, the
        // timeout Disconnect at 32 s - also when the transport takes the Keep Alive frame only in part at the
        // tick and the rest after discovery has answered
        "silent-client-slow-routing" => {
            case.script = Login::default().steps();
            case.echo = Echo::Never;
            case.adapters.disc_ms = 17_000;
            case.adapters.filter_ms = 40_000;
        }
        other => common::machinery(&format!("unknown scenario {other}")),
    }
    case
}

/// for the scenario whose client is silent by design: how many Keep Alives were sent and when the Disconnect came
fn keep_alive_view(obs: &Obs) -> (usize, Option<Ms>) {
    (obs.packets.iter().filter(|(_, p)| matches!(p, Pkt::KeepAlive { .. })).count(), obs.packets.iter().find(|(_, p)| matches!(p, Pkt::ConfDisconnect { .. })).map(|(t, _)| *t))
}

fn apply(case: &mut Case, devs: &[Dev]) {
    for d in devs {
        match d {
            Dev::SplitYield { offset } => case.transport.splits.push(Split { offset: *offset, pause: Pause::Yield }),
            Dev::SplitMs { offset, ms } => case.transport.splits.push(Split { offset: *offset, pause: Pause::Ms(*ms) }),
            Dev::SplitUntil { offset, t } => case.transport.splits.push(Split { offset: *offset, pause: Pause::Until(*t) }),
            Dev::Write { frame, first, wait, t } => {
                let mut prog = vec![];
                if *first > 0 {
                    prog.push(WStep::Accept(*first));
                }
                match wait.as_str() {
                    "yield" => prog.push(WStep::Yield),
                    "ms" => prog.push(WStep::Sleep(*t)),
                    "until" => prog.push(WStep::Until(*t)),
                    _ => {}
                }
                case.transport.writes.push(WriteDev { frame: *frame, prog });
            }
            Dev::OneByteReads => case.transport.read_chunk = Some(1),
            Dev::OneByteWrites => case.transport.write_chunk = Some(1),
            Dev::Seed { seed } => case.rng_seed = *seed,
            Dev::Coalesce { step } => {
                if let Some(st) = case.script.get_mut(*step) {
                    st.when = When::With;
                }
            }
            Dev::Latency { adapter, ms } => match adapter {
                0 => case.adapters.disc_ms = *ms,
                1 => case.adapters.filter_ms = *ms,
                _ => case.adapters.strat_ms = *ms,
            },
        }
    }
}

/// the observable trace: decoded clientbound packets other than keep-alives (volatile cookie
/// fields removed), adapter calls with their arguments, result
fn observable(obs: &Obs) -> (Vec<Value>, Vec<Call>, String) {
    let pk = obs
        .packets
        .iter()
        .filter(|(_, p)| !matches!(p, Pkt::KeepAlive { .. }))
        .map(|(_, p)| match p {
            Pkt::StoreCookie { key, payload } if key == "passage:authentication" => {
                let (ok, body) = open_cookie(payload, SECRET);
                let mut b = body.unwrap_or(Value::Null);
                if let Some(o) = b.as_object_mut() {
                    o.remove("timestamp");
                }
                json!({"StoreCookie(auth)": {"tag_ok": ok, "body": b}})
            }
            Pkt::StoreCookie { key, payload } if key == "passage:session" => {
                let mut b: Value = serde_json::from_slice(payload).unwrap_or(Value::Null);
                if let Some(o) = b.as_object_mut() {
                    o.remove("id");
                }
                json!({"StoreCookie(session)": b})
            }
            Pkt::EncryptionRequest { server_id, should_authenticate, .. } => json!({"EncryptionRequest": {"server_id": server_id, "should_authenticate": should_authenticate}}),
            other => other.to_json(),
        })
        .collect();
    (pk, obs.calls.iter().map(|c| c.untimed()).collect(), obs.result.kind())
}

struct Base {
    case: Case,
    obs: Obs,
    /// timer events of the baseline timeline: keep-alive ticks and adapter completions
    ticks: Vec<Ms>,
    completions: Vec<Ms>,
    /// (start offset, length) of every clientbound frame and its kind
    cb_frames: Vec<(usize, &'static str)>,
}

fn baseline(name: &str, extra: &[Dev]) -> Base {
    let mut case = scenario(name);
    apply(&mut case, extra);
    let obs = crate::sim::run(&case);
    let end = obs.end_ms;
    let ticks: Vec<Ms> = (1..).map(|k| k * PERIOD).take_while(|t| *t <= end + PERIOD).collect();
    let mut completions = vec![];
    for c in &obs.calls {
        let lat = match c {
            Call::Discover { .. } => case.adapters.disc_ms,
            Call::Filter { .. } => case.adapters.filter_ms,
            Call::Select { .. } => case.adapters.strat_ms,
            Call::Auth { .. } => case.adapters.auth_ms,
            Call::Status { .. } => case.adapters.status_ms,
        };
        if lat > 0 {
            completions.push(c.t() + lat);
        }
    }
    // clientbound frames in order (each packet is one write_all)
    let cb_frames = obs.packets.iter().enumerate().map(|(i, (_, p))| (i, p.kind())).collect();
    Base { case, obs, ticks, completions, cb_frames }
}

/// Did the injected pause make the *client* break the keep-alive rules? (decided from the
/// client's own logs, not from what the server did)
fn client_non_compliant(obs: &Obs) -> bool {
    for (t, p) in &obs.packets {
        if let Pkt::KeepAlive { id } = p {
            let arrival = obs.echo_arrivals.iter().find(|(_, i)| i == id).map(|(a, _)| *a);
            match arrival {
                Some(a) if a < t + PERIOD => {}
                // an echo that arrives at or after the next tick (or never, while the connection went on)
                Some(_) => return true,
                None => {
                    if obs.end_ms >= t + PERIOD {
                        return true;
                    }
                }
            }
        }
    }
    false
}

fn varint_len(total: usize) -> usize {
    // total = p + value where p = encoded length of value
    for p in 1..=3usize {
        if total > p {
            let v = total - p;
            let need = if v < 128 { 1 } else if v < 16384 { 2 } else { 3 };
            if need == p {
                return p;
            }
        }
    }
    1
}

/// Classifies a failing schedule from the schedule alone (never from the outcome).
fn classify(base: &Base, devs: &[Dev]) -> String {
    let frames = &base.obs.sb_frames;
    let routing_start = base.obs.calls.iter().find(|c| c.kind() == "discover").map(|c| c.t());
    let mut keys: Vec<String> = vec![];
    for d in devs {
        let (offset, end_of_pause): (usize, Option<Ms>) = match d {
            Dev::SplitYield { offset } => (*offset, None),
            Dev::SplitMs { offset, ms } => (*offset, Some(*ms)),
            Dev::SplitUntil { offset, t } => (*offset, Some(*t)),
            Dev::Write { frame, wait, t, first } => {
                let kind = base.cb_frames.get(*frame).map(|f| f.1).unwrap_or("?");
                let crosses = wait != "yield" && wait != "none" && base.completions.iter().any(|c| *c <= *t || wait == "ms");
                if kind == "KeepAlive" && crosses && *first > 0 {
                    keys.push("outbound-frame-vs-adapter-completion".into());
                } else if kind == "KeepAlive" && crosses {
                    keys.push("outbound-keep-alive-delayed-past-completion".into());
                } else {
                    keys.push(format!("write-deviation:{kind}"));
                }
                continue;
            }
            Dev::OneByteReads => {
                keys.push("one-byte-reads".into());
                continue;
            }
            Dev::OneByteWrites => {
                keys.push("one-byte-writes".into());
                continue;
            }
            Dev::Seed { .. } => {
                keys.push("select-draw-pattern".into());
                continue;
            }
            Dev::Latency { .. } => {
                keys.push("adapter-latency".into());
                continue;
            }
            Dev::Coalesce { step } => {
                let what = base.case.script.get(*step).map(|s| format!("{:?}", s.act)).unwrap_or_default();
                let what: String = what.chars().take_while(|c| c.is_ascii_alphanumeric()).collect();
                keys.push(format!("coalesced-arrival:{what}"));
                continue;
            }
        };
        let Some((start, len, emitted, _)) = frames.iter().find(|(s, l, _, _)| offset >= *s && offset < s + l).copied() else {
            keys.push("split-outside-stream".into());
            continue;
        };
        let pos = offset - start;
        let p = varint_len(len);
        let end = match (d, end_of_pause) {
            (Dev::SplitMs { .. }, Some(ms)) => emitted + ms,
            (_, Some(t)) => t.max(emitted),
            _ => emitted,
        };
        let crosses_tick = base.ticks.iter().any(|g| *g > emitted && *g <= end);
        let crosses_completion = base.completions.iter().any(|c| *c > emitted && *c <= end) || matches!(d, Dev::SplitYield { .. }) && base.completions.contains(&emitted);
        let in_routing = routing_start.is_some_and(|r| emitted >= r);
        if pos > 0 && pos < p && crosses_tick {
            keys.push("length-prefix-vs-tick".into());
        } else if pos > 0 && in_routing && crosses_completion {
            keys.push("inbound-frame-vs-adapter-completion".into());
        } else {
            let region = if pos == 0 { "frame-boundary" } else if pos < p { "inside-length-prefix" } else { "inside-frame" };
            let what = if crosses_tick { "across-tick" } else if crosses_completion { "across-completion" } else { "short-pause" };
            keys.push(format!("read-split:{region}:{what}"));
        }
    }
    keys.sort();
    keys.dedup();
    keys.join("+")
}

struct Counters {
    runs: AtomicU64,
    unjudged: AtomicU64,
    split_across_timer: AtomicU64,
    partial_writes: AtomicU64,
}

fn run_spec(base: &Base, spec: &Spec) -> (Obs, Option<(String, String)>, bool) {
    let mut case = base.case.clone();
    apply(&mut case, &spec.devs);
    let obs = crate::sim::run(&case);
    if let RunResult::Panic(p) = &obs.result {
        return (obs.clone(), Some((format!("panic:{}", classify(base, &spec.devs)), p.clone())), false);
    }
    let silent = spec.scenario.starts_with("silent");
    if !silent && client_non_compliant(&obs) {
        return (obs, None, true);
    }
    let (bp, bc, br) = observable(&base.obs);
    let (op, oc, or) = observable(&obs);
    let mut diff: Option<String> = None;
    if obs.garbled.is_some() || obs.partial_tail > 0 || obs.has("Unknown") {
        diff = Some(format!("a clientbound frame arrived torn or interleaved: {:?}, {} dangling bytes; decoded {:?}", obs.garbled, obs.partial_tail, obs.kinds()));
    } else if op != bp {
        let i = op.iter().zip(bp.iter()).position(|(a, b)| a != b).unwrap_or(op.len().min(bp.len()));
        diff = Some(format!("clientbound packet #{i} differs: baseline {} / here {}; baseline kinds {:?}, here {:?}", bp.get(i).unwrap_or(&Value::Null), op.get(i).unwrap_or(&Value::Null), base.obs.kinds(), obs.kinds()));
    } else if oc != bc {
        diff = Some(format!("service calls differ: baseline {:?} / here {:?}", bc.iter().map(|c| c.kind()).collect::<Vec<_>>(), oc.iter().map(|c| c.kind()).collect::<Vec<_>>()));
    } else if or != br {
        diff = Some(format!("outcome differs: baseline {br} / here {or} ({:?})", obs.result));
    } else if silent && keep_alive_view(&obs) != keep_alive_view(&base.obs) {
        diff = Some(format!("a client that never echoes: baseline (Keep Alives sent, Disconnect at) = {:?}, here {:?}; timed packets here {:?}", keep_alive_view(&base.obs), keep_alive_view(&obs), obs.packets.iter().map(|(t, p)| (*t, p.kind())).collect::<Vec<_>>()));
    } else if !matches!(obs.result, RunResult::Horizon) && !(spec.scenario.starts_with("odd-") && base.obs.result.is_err()) {
        // (a stream the router refuses in the undisturbed run as well is not consumed to its end)
        // every byte of the client's stream that arrived before the connection ended must have been
        // consumed (what arrives at or after the end may be left over)
        let must: usize = obs.sb_frames.iter().filter(|f| f.3 < obs.end_ms).map(|f| f.1).sum();
        if obs.consumed < must {
            diff = Some(format!("{} bytes of the client's stream that arrived before the connection ended were never consumed", must - obs.consumed));
        }
    }
    match diff {
        None => (obs, None, false),
        Some(t) => (obs, Some((classify(base, &spec.devs), t)), false),
    }
}

fn single_devs(base: &Base, thorough: bool) -> Vec<Dev> {
    let mut v = vec![Dev::OneByteReads, Dev::OneByteWrites];
    // every step that does not need the server's previous answer, sent together with the step before it
    for (k, s) in base.case.script.iter().enumerate().skip(1) {
        if matches!(s.when, When::Idle) && !matches!(s.act, Act::EncResponse(_)) {
            v.push(Dev::Coalesce { step: k });
        }
    }
    let n = base.obs.emitted;
    let mut events: Vec<Ms> = base.ticks.iter().copied().chain(base.completions.iter().copied()).collect();
    events.sort();
    events.dedup();
    for k in 0..n {
        v.push(Dev::SplitYield { offset: k });
        v.push(Dev::SplitMs { offset: k, ms: 1 });
        let emitted = base.obs.sb_frames.iter().find(|(s, l, _, _)| k >= *s && k < s + l).map(|f| f.2).unwrap_or(0);
        // until exactly / just after each of the next two timer events
        for e in events.iter().filter(|e| **e >= emitted).take(if thorough { 3 } else { 2 }) {
            v.push(Dev::SplitUntil { offset: k, t: *e });
            v.push(Dev::SplitUntil { offset: k, t: *e + 1 });
            if thorough && *e > 0 {
                v.push(Dev::SplitUntil { offset: k, t: *e - 1 });
            }
        }
    }
    // write acceptance of every clientbound frame
    let mut lens: Vec<usize> = vec![];
    {
        // frame lengths from the write log: consecutive writes at increasing offsets, frame boundaries from decoded packets
        let mut off = 0;
        for (_, p) in &base.obs.packets {
            let _ = p;
            // length = next frame start - this start; recover by decoding the varint at `off`
            let (l, used) = common::refs::codec::get_varint(&decrypt_view(&base.obs)[off..]).unwrap_or((0, 1));
            lens.push(l as usize + used);
            off += l as usize + used;
        }
    }
    for (f, len) in lens.iter().enumerate() {
        for first in [1usize, len / 2, len.saturating_sub(1)] {
            if first == 0 || first >= *len {
                continue;
            }
            v.push(Dev::Write { frame: f, first, wait: "none".into(), t: 0 });
            v.push(Dev::Write { frame: f, first, wait: "yield".into(), t: 0 });
            v.push(Dev::Write { frame: f, first, wait: "ms".into(), t: 1 });
            for e in events.iter().take(if thorough { 4 } else { 3 }) {
                v.push(Dev::Write { frame: f, first, wait: "until".into(), t: *e });
                v.push(Dev::Write { frame: f, first, wait: "until".into(), t: *e + 1 });
            }
        }
        v.push(Dev::Write { frame: f, first: 0, wait: "yield".into(), t: 0 });
        for e in events.iter().take(3) {
            v.push(Dev::Write { frame: f, first: 0, wait: "until".into(), t: *e + 1 });
        }
    }
    v
}

/// plaintext view of the clientbound wire (the harness knows the secret)
fn decrypt_view(obs: &Obs) -> Vec<u8> {
    match obs.enc_switch_at {
        None => obs.raw_wire.clone(),
        Some(at) => {
            let mut out = obs.raw_wire[..at].to_vec();
            let mut c = common::refs::cfb8::Cfb8::new(&Case::default().secret);
            out.extend(c.decrypt(&obs.raw_wire[at..]));
            out
        }
    }
}

pub fn run(cli: Cli) -> ! {
    let rep = Report::new("C08", cli.tier, "model_checking");
    if let Some(pair) = cli.replay.as_ref().and_then(|c| c.get("pair")).cloned() {
        // a pair of scenarios as two interleaved connections: re-run by the pairs class of the sweep below
        println!("pair {pair}: re-running the interleaved pairs (cheap)");
    } else if cli.replay.as_ref().is_some_and(|c| c.get("earlier").is_some()) {
        println!("a history of two connections: the histories are re-run (cheap) by the sweep below");
    } else if let Some(case) = cli.replay.clone() {
        let spec: Spec = serde_json::from_value(case["spec"].clone()).unwrap_or_else(|e| common::machinery(&format!("bad replay: {e}")));
        if spec.devs.is_empty() {
            // a burst scenario compared with the lock-step scenario of its family
            let head = if spec.scenario.contains("cookie") { "cookie-transfer" } else { "login-transfer" };
            let (first, b) = (baseline(head, &[]), baseline(&spec.scenario, &[]));
            println!("lock-step ({head}): {:?} -> {:?}", first.obs.kinds(), first.obs.result);
            println!("bursts ({}): {:?} -> {:?}, consumed {} of {}", spec.scenario, b.obs.kinds(), b.obs.result, b.obs.consumed, b.obs.emitted);
            if observable(&b.obs) != observable(&first.obs) || b.obs.garbled.is_some() || b.obs.consumed != b.obs.emitted {
                rep.violation(Violation { key: "coalesced-arrival-changes-behaviour".into(), text: "the same bytes arriving in bursts change what the connection does".into(), replay: case.clone(), weight: 0 });
            }
            rep.set("states", json!(2));
            rep.set("transitions", json!(2));
            rep.set("traces_validated_against_impl", json!(2));
            rep.finish();
        }
        let pre: Vec<Dev> = spec.devs.iter().filter(|d| matches!(d, Dev::Latency { .. })).cloned().collect();
        let base = baseline(&spec.scenario, &pre);
        let (a, va, ua) = run_spec(&base, &spec);
        let (b, vb, _) = run_spec(&base, &spec);
        if a.kinds() != b.kinds() || va.as_ref().map(|v| &v.0) != vb.as_ref().map(|v| &v.0) {
            common::machinery("two replays of the same schedule differ");
        }
        println!("scenario {} deviations {:?}", spec.scenario, spec.devs);
        println!("schedule class: {}", classify(&base, &spec.devs));
        println!("baseline: {:?} -> {}", base.obs.packets.iter().map(|(t, p)| (*t, p.kind())).collect::<Vec<_>>(), base.obs.result.kind());
        println!("here    : {:?} -> {:?}", a.packets.iter().map(|(t, p)| (*t, p.kind())).collect::<Vec<_>>(), a.result);
        println!("client frames (offset, len, emitted, arrived): {:?}", a.sb_frames);
        if ua {
            println!("not judged: the injected pause made the client itself miss a keep-alive deadline");
        }
        if let Some((k, t)) = va {
            rep.violation(Violation { key: k, text: t, replay: case.clone(), weight: 0 });
        }
        rep.set("states", json!(1));
        rep.set("transitions", json!(1));
        rep.set("traces_validated_against_impl", json!(1));
        rep.finish();
    }
    core(&rep, cli.tier.thorough());
    rep.finish()
}

/// The sweep over the virtual transport (everything but the replay of one schedule). netsim's C08 runs it and
/// adds the segmentations that only exist in front of a real listener (PROXY protocol header and first packets
/// in one TCP segment).
pub fn core(rep: &Report, thorough: bool) {
    let cn = Counters { runs: AtomicU64::new(0), unjudged: AtomicU64::new(0), split_across_timer: AtomicU64::new(0), partial_writes: AtomicU64::new(0) };
    let distinct: Mutex<HashSet<String>> = Mutex::new(HashSet::new());
    let seeds = seeds_for_patterns(6);
    if seeds.len() != 64 {
        common::machinery("could not find seeds for all 64 select-draw patterns");
    }
    // Two connections in one process, one after the other: the first ends badly with a clientbound frame stuck in
    // the transport; the fresh connection that follows must be served exactly as if it were the first ever
    // (sequential, before the parallel sweep, so that nothing else can be the source of what it sees).
    {
        let hist = crate::sim::after_an_aborted_connection(Some(b"earlier-secret".to_vec()));
        for (label, first, second, alone, after) in &hist {
            let _ = (first, second);
            if let Some(d) = crate::sim::differs_from_alone(alone, after) {
                rep.violation(Violation { key: "connection-depends-on-an-earlier-connection".into(), text: format!("{label}: {d}"), replay: json!({"earlier": label}), weight: 7 });
            }
        }
        rep.set("histories_after_an_aborted_connection", json!(hist.len()));
    }
    let mut specs_total = 0u64;
    // the same byte stream sent lock-step, partly pipelined and in the largest possible bursts: one behaviour
    for family in [vec!["login-transfer", "pipelined-login-transfer", "eager-login-transfer"], vec!["cookie-transfer", "eager-cookie-transfer"]] {
        let first = baseline(family[0], &[]);
        for other in &family[1..] {
            let b = baseline(other, &[]);
            cn.runs.fetch_add(1, Ordering::Relaxed);
            if observable(&b.obs) != observable(&first.obs) || b.obs.garbled.is_some() || b.obs.consumed != b.obs.emitted {
                rep.violation(Violation {
                    key: "coalesced-arrival-changes-behaviour".into(),
                    text: format!("scenario {other} (the bytes of {} arriving in bursts): {:?} -> {:?}, consumed {} of {}; lock-step: {:?} -> {:?}", family[0], b.obs.kinds(), b.obs.result, b.obs.consumed, b.obs.emitted, first.obs.kinds(), first.obs.result),
                    replay: json!({"spec": Spec { scenario: other.to_string(), devs: vec![] }}),
                    weight: 1,
                });
            }
        }
    }
    for name in scenario_names() {
        let base = baseline(name, &[]);
        // the baseline must be a complete, undisturbed run
        let refused_oddity = name.starts_with("odd-") && base.obs.result.is_err() && base.obs.garbled.is_none() && !matches!(base.obs.result, RunResult::Panic(_));
        if !refused_oddity && (base.obs.garbled.is_some() || base.obs.consumed != base.obs.emitted || matches!(base.obs.result, RunResult::Panic(_))) {
            if name.starts_with("eager") || name.starts_with("pipelined") {
                // already reported by the family comparison above; its deviations cannot be judged against it
                continue;
            }
            common::machinery(&format!("baseline of scenario {name} is not clean: {:?}", base.obs.result));
        }
        let b2 = crate::sim::run(&base.case);
        if observable(&b2) != observable(&base.obs) {
            common::machinery("two baseline runs differ");
        }
        let mut singles = single_devs(&base, thorough);
        if name.starts_with("silent") {
            // only deviations that leave the arrival times of the client's bytes alone (those shift the timeline
            // legitimately): a clientbound frame accepted in part at its instant and completed later
            // (and only on the Keep Alive frame, completed before the next tick: a frame stuck in the transport
            // delays whatever has to be written behind it, which is the transport's doing)
            singles.retain(|d| match d {
                Dev::Write { frame, first, wait, t } => *first > 0 && base.cb_frames.get(*frame).map(|f| f.1) == Some("KeepAlive") && (wait != "until" || *t < 2 * PERIOD),
                Dev::OneByteWrites => true,
                _ => false,
            });
        }
        let mut specs: Vec<Spec> = singles.iter().map(|d| Spec { scenario: name.into(), devs: vec![d.clone()] }).collect();
        // select-draw patterns: alone and combined with one-byte reads
        for s in &seeds {
            specs.push(Spec { scenario: name.into(), devs: vec![Dev::Seed { seed: *s }] });
            if name.starts_with("silent") {
                // (one-byte reads delay the client's bytes; here: every draw pattern with a Keep Alive taken in part)
                for d in singles.iter().filter(|d| matches!(d, Dev::Write { .. })).take(12) {
                    specs.push(Spec { scenario: name.into(), devs: vec![Dev::Seed { seed: *s }, d.clone()] });
                }
            } else {
                specs.push(Spec { scenario: name.into(), devs: vec![Dev::Seed { seed: *s }, Dev::OneByteReads] });
            }
        }
        // one-byte segmentation combined with every single pause
        for d in singles.iter().filter(|d| matches!(d, Dev::SplitUntil { .. } | Dev::SplitMs { .. })) {
            if thorough || matches!(d, Dev::SplitUntil { offset, .. } if offset % 3 == 0) {
                specs.push(Spec { scenario: name.into(), devs: vec![Dev::OneByteReads, d.clone()] });
            }
        }
        if thorough {
            // bound 2: pairs of read splits in the post-login region
            let post = base.obs.sb_frames.iter().filter(|f| f.2 > 0 || base.obs.enc_switch_at.is_some()).map(|f| f.0).min().unwrap_or(0);
            let enc_from = base.obs.sb_frames.iter().rev().take_while(|_| true).map(|f| f.0).filter(|o| *o >= post).min().unwrap_or(0);
            let region: Vec<Dev> = singles.iter().filter(|d| matches!(d, Dev::SplitUntil { offset, .. } | Dev::SplitMs { offset, .. } if *offset >= enc_from && *offset + 80 >= base.obs.emitted)).cloned().collect();
            for (i, a) in region.iter().enumerate() {
                for b in &region[i + 1..] {
                    specs.push(Spec { scenario: name.into(), devs: vec![a.clone(), b.clone()] });
                }
            }
            // bound 2: write deviation on a keep-alive frame x select-draw pattern
            for d in singles.iter().filter(|d| matches!(d, Dev::Write { frame, .. } if base.cb_frames.get(*frame).map(|f| f.1) == Some("KeepAlive"))) {
                for s in seeds.iter().take(8) {
                    specs.push(Spec { scenario: name.into(), devs: vec![d.clone(), Dev::Seed { seed: *s }] });
                }
            }
        }
        specs_total += specs.len() as u64;
        par_for(specs.len(), |i| {
            let spec = &specs[i];
            let (obs, viol, unjudged) = run_spec(&base, spec);
            cn.runs.fetch_add(1, Ordering::Relaxed);
            if unjudged {
                cn.unjudged.fetch_add(1, Ordering::Relaxed);
            }
            if obs.writes.len() > obs.packets.len() {
                cn.partial_writes.fetch_add(1, Ordering::Relaxed);
            }
            if spec.devs.iter().any(|d| matches!(d, Dev::SplitUntil { t, .. } if *t >= PERIOD)) {
                cn.split_across_timer.fetch_add(1, Ordering::Relaxed);
            }
            distinct.lock().unwrap().insert(format!("{name}|{:?}|{}", obs.packets.iter().map(|(t, p)| (*t, p.kind())).collect::<Vec<_>>(), obs.result.kind()));
            if let Some((k, t)) = viol {
                rep.violation(Violation { key: k, text: format!("scenario {name}, deviations {:?}: {t}", spec.devs), replay: json!({"spec": spec}), weight: spec.devs.len() as u64 * 1_000_000 + i as u64 });
            }
        });
        // slow-adapter scenarios: the adapter completion placed on, just before and just after the
        // arrival of each byte of the keep-alive echo (bound 2: latency x read split)
        if name.starts_with("slow-") {
            let which = match name {
                "slow-discovery" => 0,
                "slow-filter" => 1,
                _ => 2,
            };
            let lats: Vec<u64> = if thorough { vec![15_999, 16_000, 16_001, 16_005, 17_000, 31_999, 32_000, 32_001] } else { vec![16_000, 16_001, 17_000] };
            for lat in lats {
                let pre = vec![Dev::Latency { adapter: which, ms: lat }];
                let b = baseline(name, &pre);
                let echo_frames: Vec<(usize, usize, Ms, Ms)> = b.obs.sb_frames.iter().filter(|f| f.2 >= PERIOD).copied().collect();
                let mut sp = vec![];
                for (start, len, _, _) in &echo_frames {
                    for k in *start..start + len {
                        for t in [lat.saturating_sub(1), lat, lat + 1] {
                            let mut devs = pre.clone();
                            devs.push(Dev::SplitUntil { offset: k, t });
                            sp.push(Spec { scenario: name.into(), devs });
                        }
                    }
                }
                specs_total += sp.len() as u64;
                par_for(sp.len(), |i| {
                    let (obs, viol, unjudged) = run_spec(&b, &sp[i]);
                    cn.runs.fetch_add(1, Ordering::Relaxed);
                    if unjudged {
                        cn.unjudged.fetch_add(1, Ordering::Relaxed);
                    }
                    distinct.lock().unwrap().insert(format!("{name}|{:?}|{}", obs.packets.iter().map(|(t, p)| (*t, p.kind())).collect::<Vec<_>>(), obs.result.kind()));
                    if let Some((k, t)) = viol {
                        rep.violation(Violation { key: k, text: format!("scenario {name}, deviations {:?}: {t}", sp[i].devs), replay: json!({"spec": sp[i]}), weight: 2_000_000 + i as u64 });
                    }
                });
            }
        }
    }
    // Two connections polled in turn by one thread, each yielding before every byte of its client's stream
    // (and after the first byte of every clientbound frame): what each of them does must be what it does alone.
    let pair_runs = AtomicU64::new(0);
    {
        let names = scenario_names();
        let interleaved = |name: &str, second: bool| -> Case {
            let b = baseline(name, &[]);
            let mut c = b.case.clone();
            for off in 0..b.obs.emitted {
                c.transport.splits.push(Split { offset: off, pause: Pause::Yield });
            }
            for f in 0..b.obs.packets.len() {
                c.transport.writes.push(WriteDev { frame: f, prog: vec![WStep::Accept(1), WStep::Yield] });
            }
            if second {
                // the second connection of a pair comes from another address
                c.cfg.client_addr = "203.0.113.77:50123".parse().unwrap();
            }
            c
        };
        let mut pairs: Vec<(usize, usize)> = vec![];
        for a in 0..names.len() {
            for b in 0..names.len() {
                if thorough || a == b || (a + b) % 3 == 0 || names[a].starts_with("slow") != names[b].starts_with("slow") {
                    pairs.push((a, b));
                }
            }
        }
        par_for(pairs.len(), |i| {
            let (a, b) = pairs[i];
            // cookie scenarios bind the cookie to the client address: keep the first address there
            let (ca, cb) = (interleaved(names[a], false), interleaved(names[b], names[b] != "cookie-transfer"));
            let alone = [crate::sim::run(&ca), crate::sim::run(&cb)];
            let both = crate::sim::run_many(&[ca.clone(), cb.clone()]);
            pair_runs.fetch_add(1, Ordering::Relaxed);
            cn.runs.fetch_add(3, Ordering::Relaxed);
            for k in 0..2 {
                if client_non_compliant(&alone[k]) || client_non_compliant(&both[k]) {
                    continue;
                }
                let (x, y) = (observable(&alone[k]), observable(&both[k]));
                let torn = both[k].garbled.is_some() || both[k].partial_tail > 0 || both[k].consumed != alone[k].consumed;
                if x != y || torn {
                    rep.violation(Violation {
                        key: "connection-depends-on-another-connection".into(),
                        text: format!("scenarios {} and {} interleaved on one thread: connection #{k} alone gives {:?} -> {}, next to the other one {:?} -> {:?} (garbled {:?}, consumed {} / {})", names[a], names[b], alone[k].kinds(), alone[k].result.kind(), both[k].kinds(), both[k].result, both[k].garbled, both[k].consumed, alone[k].consumed),
                        replay: json!({"pair": [names[a], names[b]]}),
                        weight: 3_000_000 + i as u64,
                    });
                }
            }
        });
    }
    rep.set("interleaved_pairs_of_connections", json!(pair_runs.load(Ordering::Relaxed)));
    let runs = cn.runs.load(Ordering::Relaxed);
    let d = distinct.lock().unwrap().len() as u64;
    rep.require("runs with a frame split across a timer event", cn.split_across_timer.load(Ordering::Relaxed), 100);
    rep.require("runs with a partially accepted clientbound frame", cn.partial_writes.load(Ordering::Relaxed), 100);
    rep.require("distinct timed traces", d, 20);
    rep.set("states", json!(runs));
    rep.set("transitions", json!(runs));
    rep.set("traces_validated_against_impl", json!(runs));
    rep.set("evaluations", json!(runs));
    rep.set("distinct_nontrivial", json!(d));
    rep.set("scenarios", json!(scenario_names().len()));
    rep.set("schedules", json!(specs_total));
    rep.set("not_judged_client_missed_deadline", json!(cn.unjudged.load(Ordering::Relaxed)));
    rep.set("deviation_bound_completed", json!(if thorough { "1 for all classes; 2 for (read split x read split) after login, (latency x read split inside keep-alive echoes), (keep-alive write deviation x select-draw pattern), (one-byte reads x any pause)" } else { "1 for all classes; 2 for (latency x read split inside keep-alive echoes), (one-byte reads x every third pause), (one-byte reads x select-draw pattern)" }));
    rep.set("exhaustive", json!(true));
    rep.set("rule", json!("per scenario: a segment boundary before every byte of the client's stream x {yield, 1 ms, until exactly / just after each of the next timer events of the baseline timeline}; every clientbound frame accepted as {1, half, all-but-one} bytes then {nothing, yield, 1 ms, until exactly / just after each timer event}, or delayed as a whole; one-byte reads, one-byte writes; all 64 patterns of the first 6 unbiased-select draws; pairs of scenarios as two connections polled in turn on one thread, each yielding before every byte and inside every frame, compared with each connection alone. Runs in which the injected pause makes the client itself miss a keep-alive deadline are counted and not judged."));
    rep.sample(json!({"spec": Spec { scenario: "login-transfer".into(), devs: vec![Dev::SplitUntil { offset: 75, t: 16_000 }] }, "meaning": "the bytes from offset 75 on (inside the Encryption Response length prefix) arrive at the first keep-alive tick"}));
    rep.sample(json!({"spec": Spec { scenario: "slow-discovery".into(), devs: vec![Dev::Write { frame: 3, first: 1, wait: "until".into(), t: 20_001 }] }, "meaning": "the first Keep Alive frame is accepted one byte, the rest only after discovery completed"}));
    rep.sample(json!({"spec": Spec { scenario: "status".into(), devs: vec![Dev::OneByteReads] }}));
    rep.assume("pauses are the stated classes relative to the baseline timeline, not arbitrary real-valued delays");
    rep.assume("keep-alive packets and volatile cookie fields (timestamp, session id) are excluded from the differential comparison");
}
