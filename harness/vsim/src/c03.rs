//! C03: the player is transferred to exactly the target the strategy chose.
use crate::sim::*;
use common::refs::codec::Pkt;
use common::{Cli, Report, Violation, par_for};
use serde::{Deserialize, Serialize};
use serde_json::{Value, json};
use std::collections::HashSet;
use std::net::IpAddr;
use std::sync::Mutex;
use std::sync::atomic::{AtomicU64, Ordering};

#[derive(Clone, Debug, Serialize, Deserialize, PartialEq)]
pub struct Spec {
    disc: String,
    filter: String,
    strat: String,
    locale: String,
    table: String,
    /// latency (ms) of discovery, filter, strategy
    lat: [u64; 3],
    /// the transport accepts only the first `n` bytes of the first Keep Alive and blocks until `t` ms
    #[serde(default)]
    ka_stall: Option<(usize, u64)>,
    /// Transfer intent with a valid authentication cookie that names this target as the one the player
    /// was sent to before (the cookie vouches for the identity; routing is still the strategy's decision)
    #[serde(default)]
    cookie_target: Option<String>,
}

const C03_SECRET: &[u8] = b"c03-cookie-secret";

fn t(id: &str, addr: &str) -> TargetSpec {
    TargetSpec::new(id, addr)
}

fn disc_list(name: &str) -> Option<Vec<TargetSpec>> {
    Some(match name {
        "empty" => vec![],
        "v4" => vec![t("a", "10.1.2.3:25565").with_meta("players", "3")],
        "v6" => vec![t("b", "[2001:db8::1]:65535")],
        "v4+v6" => vec![t("a", "10.1.2.3:25565"), t("b", "[2001:db8::1]:65535").with_meta("k", "v").with_meta("state", "Ready")],
        "dup" => vec![t("a", "10.1.2.3:25565"), t("a", "10.1.2.3:25565")],
        "three" => vec![t("p0", "255.255.255.255:0"), t("p1", "[::ffff:1.2.3.4]:1"), t("", "192.0.2.200:25566").with_meta("", "")],
        "same-addr-other-id" => vec![t("x", "10.9.9.9:25565"), t("y", "10.9.9.9:25566"), t("z", "10.9.9.10:25565")],
        // one identifier, three addresses (what a DNS name with several records looks like to the router)
        "same-id-other-addr" => vec![t("svc", "10.8.8.1:25565"), t("svc", "10.8.8.2:25565").with_meta("n", "2"), t("svc", "[2001:db8::8]:25565")],
        "err" => return None,
        // a large fleet: 3 000 servers (whatever a router does in blocks or with a ceiling shows past the first 1 024)
        "fleet" => (0..3_000).map(|i| t(&format!("gs-{i}"), &format!("10.{}.{}.{}:{}", 100 + i / 62_500, (i / 250) % 250, i % 250 + 1, 25_000 + i % 1_000)).with_meta("n", &i.to_string())).collect(),
        other => common::machinery(&format!("disc {other}")),
    })
}

fn foreign() -> TargetSpec {
    t("foreign", "203.0.113.99:4242").with_meta("injected", "yes")
}

fn filter_plan(name: &str) -> FilterPlan {
    match name {
        "identity" => FilterPlan::Identity,
        "keep-1" => FilterPlan::Keep(vec![1]),
        "keep-0-2" => FilterPlan::Keep(vec![0, 2]),
        "reverse" => FilterPlan::Reverse,
        "empty" => FilterPlan::Empty,
        "foreign" => FilterPlan::Foreign(foreign()),
        "err" => FilterPlan::Err,
        other => common::machinery(&format!("filter {other}")),
    }
}

fn strat_plan(name: &str) -> StratPlan {
    match name {
        "pick-0" => StratPlan::Pick(0),
        "pick-1" => StratPlan::Pick(1),
        "pick-2" => StratPlan::Pick(2),
        "pick-1023" => StratPlan::Pick(1_023),
        "pick-1024" => StratPlan::Pick(1_024),
        "pick-2999" => StratPlan::Pick(2_999),
        "none" => StratPlan::None,
        "foreign" => StratPlan::Foreign(foreign()),
        "err" => StratPlan::Err,
        other => common::machinery(&format!("strat {other}")),
    }
}

fn apply_filter(p: &FilterPlan, input: &[TargetSpec]) -> Option<Vec<TargetSpec>> {
    Some(match p {
        FilterPlan::Identity => input.to_vec(),
        FilterPlan::Keep(ix) => ix.iter().filter_map(|i| input.get(*i).cloned()).collect(),
        FilterPlan::Reverse => input.iter().rev().cloned().collect(),
        FilterPlan::Empty => vec![],
        FilterPlan::Foreign(f) => vec![f.clone()],
        FilterPlan::Err => return None,
    })
}

fn apply_strat(p: &StratPlan, input: &[TargetSpec]) -> Option<Option<TargetSpec>> {
    Some(match p {
        StratPlan::Pick(i) => input.get(*i).cloned(),
        StratPlan::None => None,
        StratPlan::Foreign(f) => Some(f.clone()),
        StratPlan::Err => return None,
    })
}

/// (default locale, tables)
fn table(name: &str) -> (String, Vec<(String, Vec<(String, String)>)>) {
    let tb = |loc: &str| {
        (
            loc.to_string(),
            vec![
                ("disconnect_timeout".to_string(), format!("{{\"text\":\"timeout-{loc}\"}}")),
                ("disconnect_no_target".to_string(), format!("{{\"text\":\"no-target-{loc}\",\"color\":\"red\"}}")),
            ],
        )
    };
    match name {
        "en+de+de_at" => ("en_US".into(), vec![tb("en"), tb("de"), tb("de_at")]),
        "de_de-only" => ("en_US".into(), vec![tb("de_de")]),
        "none" => ("en_US".into(), vec![]),
        "default-absent" => ("xx_YY".into(), vec![tb("en"), tb("de")]),
        "default-de" => ("de".into(), vec![tb("en"), tb("de"), tb("fr")]),
        "exact-default" => ("en_US".into(), vec![tb("en_US"), tb("en"), tb("fr_FR")]),
        "full-names" => ("en_us".into(), vec![tb("en_us"), tb("de_de"), tb("fr")]),
        "mixed" => ("pt_br".into(), vec![tb("pt_br"), tb("pt"), tb("en")]),
        "plain-text" => ("en".into(), vec![("en".into(), vec![("disconnect_no_target".into(), "No server, sorry".into())]), ("de".into(), vec![("disconnect_no_target".into(), "Kein Server".into())])]),
        other => common::machinery(&format!("table {other}")),
    }
}

/// Independent implementation of the fallback chain: the locale, each prefix obtained by dropping
/// trailing `_part`s, then the default locale and its prefixes. None = no table in the chain.
fn expected_message(locale: &str, default_locale: &str, tables: &[(String, Vec<(String, String)>)], key: &str) -> Option<String> {
    let mut chain: Vec<String> = vec![];
    for l in [locale, default_locale] {
        let mut cur = l.to_string();
        loop {
            chain.push(cur.clone());
            match cur.rfind('_') {
                Some(i) => cur.truncate(i),
                None => break,
            }
        }
    }
    for c in chain {
        if let Some((_, msgs)) = tables.iter().find(|(l, _)| *l == c) {
            return msgs.iter().find(|(k, _)| k == key).map(|(_, v)| v.clone());
        }
    }
    None
}

/// the same chain for an implementation that compares locale names without regard to letter case (the statement
/// does not say; a client reports `de_de` where an operator may have written `de_DE`)
fn expected_message_ci(locale: &str, default_locale: &str, tables: &[(String, Vec<(String, String)>)], key: &str) -> Option<String> {
    let lowered: Vec<(String, Vec<(String, String)>)> = tables.iter().map(|(l, m)| (l.to_lowercase(), m.clone())).collect();
    expected_message(&locale.to_lowercase(), &default_locale.to_lowercase(), &lowered, key)
}

/// locales a client may legally report (any string of up to 16 characters) that are not shaped like `ll_cc`
pub const ODD_LOCALES: [&str; 34] = [
    "en_us (my pack v", "{}", "[", "en_us*", "a(b", "\\", ".*", "en_US)", "$", "^en", "en|de", "de_DE?", "\u{130}_TR", "\u{212a}_KK", "\u{1c5}_xx", "\u{df}_SS", "EN_US", "De_dE", "en-US", "en__us",
    "__", "en_", "_us", " en_us", "en_us ", "%s", "%n", "{0}", "../en", "en\u{0}us", "\u{202e}de", "nds_de", "fil_ph", "ksh",
];

fn text_view(msg: &str) -> Value {
    if msg.starts_with('{') {
        fn nbt(v: &Value) -> Value {
            match v {
                Value::Bool(b) => json!(*b as i8),
                Value::Array(a) => Value::Array(a.iter().map(nbt).collect()),
                Value::Object(o) => Value::Object(o.iter().map(|(k, v)| (k.clone(), nbt(v))).collect()),
                o => o.clone(),
            }
        }
        nbt(&serde_json::from_str(msg).expect("json message"))
    } else {
        json!(msg)
    }
}

fn build(s: &Spec) -> Case {
    let mut case = Case::default();
    case.script = Login { locale: s.locale.clone(), ..Default::default() }.steps();
    if let Some(tid) = &s.cookie_target {
        case.cfg.auth_secret = Some(C03_SECRET.to_vec());
        let body = crate::util::auth_cookie_body(crate::util::wall_secs() - 5, &case.cfg.client_addr.to_string(), NAME1, UUID1, Some(tid), &[]);
        let cookie = crate::util::sign(&body, C03_SECRET);
        case.script = Login { intent: 3, locale: s.locale.clone(), auth_cookie: Some(Some(cookie)), ..Default::default() }.steps();
    }
    case.adapters.disc = match disc_list(&s.disc) {
        Some(l) => DiscPlan::Targets(l),
        None => DiscPlan::Err,
    };
    case.adapters.filter = filter_plan(&s.filter);
    case.adapters.strat = strat_plan(&s.strat);
    let (d, tbl) = table(&s.table);
    case.adapters.loc_default = d;
    case.adapters.loc_messages = tbl;
    case.adapters.disc_ms = s.lat[0];
    case.adapters.filter_ms = s.lat[1];
    case.adapters.strat_ms = s.lat[2];
    if let Some((n, until)) = s.ka_stall {
        // clientbound frames: 0 session cookie request, 1 encryption request, 2 login success, 3 first keep-alive
        case.transport.writes.push(WriteDev { frame: 3, prog: vec![WStep::Accept(n), WStep::Until(until)] });
    }
    case.horizon_ms = 120_000;
    case
}

fn judge(s: &Spec, obs: &Obs) -> Vec<(String, String)> {
    let mut v = vec![];
    let mut bad = |k: String, t: String| v.push((k, t));
    if let RunResult::Panic(p) = &obs.result {
        bad("panic".into(), p.clone());
        return v;
    }
    if obs.garbled.is_some() || obs.has("Unknown") || obs.partial_tail > 0 {
        bad("undecodable-clientbound".into(), format!("{:?} {:?}", obs.garbled, obs.kinds()));
    }
    let discovered = disc_list(&s.disc);
    let filter_in = obs.calls.iter().find_map(|c| if let Call::Filter { targets, .. } = c { Some(targets.clone()) } else { None });
    let select_in = obs.calls.iter().find_map(|c| if let Call::Select { targets, .. } = c { Some(targets.clone()) } else { None });
    let transfers: Vec<&Pkt> = obs.packets.iter().map(|(_, p)| p).filter(|p| matches!(p, Pkt::Transfer { .. })).collect();
    let disconnects: Vec<&Pkt> = obs.packets.iter().map(|(_, p)| p).filter(|p| matches!(p, Pkt::ConfDisconnect { .. })).collect();
    let count = |k: &str| obs.calls.iter().filter(|c| c.kind() == k).count();
    if count("discover") == 0 {
        bad("discovery-not-consulted".into(), "no discovery call".into());
    }
    let Some(discovered) = discovered else {
        if !transfers.is_empty() || filter_in.is_some() || select_in.is_some() {
            bad("continued-after-discovery-error".into(), format!("calls {:?} packets {:?}", obs.calls.iter().map(|c| c.kind()).collect::<Vec<_>>(), obs.kinds()));
        }
        if !obs.result.is_err() {
            bad("discovery-error-not-reported".into(), format!("{:?}", obs.result));
        }
        return v;
    };
    if filter_in.as_ref() != Some(&discovered) {
        bad("filter-input-differs-from-discovery".into(), format!("discovery returned {:?}, the filters were offered {:?}", discovered, filter_in));
        return v;
    }
    let Some(filtered) = apply_filter(&filter_plan(&s.filter), &discovered) else {
        if !transfers.is_empty() || select_in.is_some() {
            bad("continued-after-filter-error".into(), format!("packets {:?}", obs.kinds()));
        }
        if !obs.result.is_err() {
            bad("filter-error-not-reported".into(), format!("{:?}", obs.result));
        }
        return v;
    };
    if select_in.as_ref() != Some(&filtered) {
        bad("strategy-input-differs-from-filter-output".into(), format!("the filters returned {:?}, the strategy was offered {:?}", filtered, select_in));
        return v;
    }
    let Some(chosen) = apply_strat(&strat_plan(&s.strat), &filtered) else {
        if !transfers.is_empty() {
            bad("transfer-after-strategy-error".into(), format!("packets {:?}", obs.kinds()));
        }
        if !obs.result.is_err() {
            bad("strategy-error-not-reported".into(), format!("{:?}", obs.result));
        }
        return v;
    };
    match chosen {
        Some(target) => {
            if transfers.len() != 1 {
                bad("transfer-count".into(), format!("{} Transfer packets, packets {:?}, result {:?}", transfers.len(), obs.kinds(), obs.result));
                return v;
            }
            if !matches!(obs.packets.last(), Some((_, Pkt::Transfer { .. }))) {
                bad("transfer-not-last".into(), format!("packets {:?}", obs.kinds()));
            }
            if let Pkt::Transfer { host, port } = transfers[0] {
                let ip: Option<IpAddr> = host.parse().ok();
                let fam = if target.addr.is_ipv4() { "ipv4" } else { "ipv6" };
                if ip != Some(target.addr.ip()) {
                    bad(format!("transfer-host:{fam}"), format!("Transfer to host {host:?} but the chosen target is {}", target.addr));
                }
                if *port != target.addr.port() as i32 {
                    bad(format!("transfer-port:{}", target.addr.port()), format!("Transfer to port {port} but the chosen target is {}", target.addr));
                }
            }
            if !disconnects.is_empty() {
                bad("disconnect-and-transfer".into(), format!("packets {:?}", obs.kinds()));
            }
            if obs.result != RunResult::Ok {
                bad("transfer-but-error".into(), format!("{:?}", obs.result));
            }
        }
        None => {
            if !transfers.is_empty() {
                bad("transfer-without-chosen-target".into(), format!("packets {:?}", obs.kinds()));
            }
            if disconnects.len() != 1 {
                bad("no-target-disconnect-count".into(), format!("{} Disconnect packets; packets {:?}", disconnects.len(), obs.kinds()));
                return v;
            }
            if !matches!(obs.packets.last(), Some((_, Pkt::ConfDisconnect { .. }))) {
                bad("disconnect-not-last".into(), format!("packets {:?}", obs.kinds()));
            }
            let (d, tbl) = table(&s.table);
            if let Some(msg) = expected_message(&s.locale, &d, &tbl, "disconnect_no_target") {
                if let Pkt::ConfDisconnect { reason } = disconnects[0] {
                    let ci = expected_message_ci(&s.locale, &d, &tbl, "disconnect_no_target");
                    if *reason != text_view(&msg) && ci.as_deref().map(text_view).as_ref() != Some(reason) {
                        // classify: did the server answer in the default locale's message?
                        let default_msg = expected_message(&d, &d, &tbl, "disconnect_no_target");
                        let class = if default_msg.as_deref().map(text_view).as_ref() == Some(reason) { "default-locale-used" } else { "other-text" };
                        bad(format!("no-target-text:{class}"), format!("client locale {:?}, tables {:?} (default {d}): Disconnect text {reason} but the configured message is {msg}", s.locale, s.table));
                    }
                }
            }
            // (the connection ends; which value the handler returns for a refused player is its own business)
            if matches!(&obs.result, RunResult::Horizon | RunResult::Panic(_)) {
                bad("no-target-result".into(), format!("{:?}", obs.result));
            }
        }
    }
    v
}

fn specs(thorough: bool) -> Vec<Spec> {
    let mut v = vec![];
    let discs = ["empty", "v4", "v6", "v4+v6", "dup", "three", "same-addr-other-id", "same-id-other-addr", "err"];
    let filters = ["identity", "keep-1", "keep-0-2", "reverse", "empty", "foreign", "err"];
    let strats = ["pick-0", "pick-1", "pick-2", "none", "foreign", "err"];
    let lats: Vec<[u64; 3]> = if thorough {
        // every triple over {0, 1 ms, just before / on / just after the 16 s tick, 17 s, 33 s}
        let l = [0u64, 1, 15_999, 16_000, 16_001, 17_000, 33_000];
        let mut v = vec![[12_000, 0, 0], [5_000, 5_000, 5_500]];
        for a in l {
            for b in l {
                for c in l {
                    v.push([a, b, c]);
                }
            }
        }
        v
    } else {
        vec![[0, 0, 0], [17_000, 0, 17_000], [12_000, 0, 3_000]]
    };
    for d in discs {
        for f in filters {
            for st in strats {
                for lat in &lats {
                    v.push(Spec { disc: d.into(), filter: f.into(), strat: st.into(), locale: "de_de".into(), table: "en+de+de_at".into(), lat: *lat, ka_stall: None, cookie_target: None });
                }
            }
        }
    }
    // a fleet of 3 000 servers, the strategy's choice among the first, around position 1 024 and the very last
    for f in ["identity", "reverse"] {
        for st in ["pick-0", "pick-1023", "pick-1024", "pick-2999", "none"] {
            v.push(Spec { disc: "fleet".into(), filter: f.into(), strat: st.into(), locale: "de_de".into(), table: "en+de+de_at".into(), lat: [0, 0, 0], ka_stall: None, cookie_target: None });
        }
    }
    // the Keep Alive of the 16 s tick is only partially accepted by the transport while a routing stage answers
    for (lat, stalls) in [([17_000u64, 0, 0], vec![(1usize, 20_000u64), (4, 20_000), (9, 18_000)]), ([0, 17_000, 0], vec![(3, 20_000)]), ([0, 0, 17_000], vec![(3, 20_000)]), ([17_000, 0, 17_000], vec![(2, 20_000)])] {
        for stall in stalls {
            for (d, f, st) in [("v4+v6", "identity", "pick-1"), ("v4", "identity", "none"), ("three", "reverse", "pick-2")] {
                // (no failing stage here: a connection that is aborted while a frame is stuck in the transport necessarily leaves it torn)
                v.push(Spec { disc: d.into(), filter: f.into(), strat: st.into(), locale: "de_de".into(), table: "en+de+de_at".into(), lat, ka_stall: Some(stall), cookie_target: None });
            }
        }
    }
    // a returning player: Transfer intent with a valid cookie that records where the player was sent last
    // time - one of the targets on offer now, or one that no longer exists
    for d in ["v4+v6", "three", "same-addr-other-id", "same-id-other-addr", "dup", "v4"] {
        let ids: Vec<String> = disc_list(d).unwrap_or_default().iter().map(|t| t.id.clone()).chain(["gone".to_string()]).collect();
        for tid in ids {
            for f in ["identity", "reverse", "keep-1", "empty"] {
                for st in ["pick-0", "pick-1", "pick-2", "none", "err"] {
                    v.push(Spec { disc: d.into(), filter: f.into(), strat: st.into(), locale: "de_de".into(), table: "en+de+de_at".into(), lat: [0, 0, 0], ka_stall: None, cookie_target: Some(tid.clone()) });
                }
            }
        }
    }
    let long = "l".repeat(64);
    let locales = ["en_us", "en_gb", "en", "de_de", "de_at", "de_AT", "de", "fr_FR", "fr_ca", "pt_pt", "pt", "xx_yy", "", "_", "de_", "a_b_c", "de_de_x", "DE_de", long.as_str()];
    let tables = ["en+de+de_at", "de_de-only", "none", "default-absent", "default-de", "exact-default", "full-names", "mixed", "plain-text"];
    for l in ODD_LOCALES {
        for tb in ["en+de+de_at", "exact-default", "plain-text"] {
            v.push(Spec { disc: "v4".into(), filter: "identity".into(), strat: "none".into(), locale: l.into(), table: tb.into(), lat: [0, 0, 0], ka_stall: None, cookie_target: None });
        }
    }
    for l in locales {
        for tb in tables {
            for (d, st) in [("v4", "none"), ("empty", "pick-0")] {
                v.push(Spec { disc: d.into(), filter: "identity".into(), strat: st.into(), locale: l.into(), table: tb.into(), lat: [0, 0, 0], ka_stall: None, cookie_target: None });
            }
        }
    }
    v
}

pub fn run(cli: Cli) -> ! {
    run_with(cli, &|_| {})
}

/// `extra` adds to the same report (netsim hosts this check and adds whole connections through the assembled router)
pub fn run_with(cli: Cli, extra: &dyn Fn(&Report)) -> ! {
    let rep = Report::new("C03", cli.tier, "model_checking");
    if let Some(case) = cli.replay.clone().filter(|c| c.get("lookups").is_none()) {
        let s: Spec = serde_json::from_value(case["spec"].clone()).unwrap_or_else(|e| common::machinery(&format!("bad replay: {e}")));
        let (a, b) = (crate::sim::run(&build(&s)), crate::sim::run(&build(&s)));
        if a.kinds() != b.kinds() || a.result != b.result {
            common::machinery("two replays of the same case differ");
        }
        println!("spec: {}", serde_json::to_string(&s).unwrap());
        println!("observed: {}", serde_json::to_string_pretty(&a.to_json()).unwrap());
        for (k, t) in judge(&s, &a) {
            rep.violation(Violation { key: k, text: t, replay: case.clone(), weight: 0 });
        }
        rep.set("states", json!(1));
        rep.set("transitions", json!(a.packets.len().max(1)));
        rep.set("traces_validated_against_impl", json!(1));
        rep.finish();
    }
    let all = specs(cli.tier.thorough());
    for s in [&all[0], &all[all.len() - 1]] {
        assert_deterministic(&build(s), "C03");
    }
    let distinct: Mutex<HashSet<String>> = Mutex::new(HashSet::new());
    let transfers = AtomicU64::new(0);
    let disconnects = AtomicU64::new(0);
    let transitions = AtomicU64::new(0);
    par_for(all.len(), |i| {
        let s = &all[i];
        let obs = crate::sim::run(&build(s));
        transitions.fetch_add(obs.packets.len() as u64 + obs.calls.len() as u64 + 1, Ordering::Relaxed);
        if obs.has("Transfer") {
            transfers.fetch_add(1, Ordering::Relaxed);
        }
        if obs.has("ConfDisconnect") {
            disconnects.fetch_add(1, Ordering::Relaxed);
        }
        distinct.lock().unwrap().insert(format!("{:?}|{}", obs.trace_no_keepalive(), obs.result.kind()));
        for (k, t) in judge(s, &obs) {
            rep.violation(Violation { key: k, text: format!("{t}; spec {}", serde_json::to_string(s).unwrap()), replay: json!({"spec": s}), weight: i as u64 });
        }
    });
    // One localisation adapter instance serves every connection of a process: sequences of two and three lookups
    // on the same real FixedLocalizationAdapter (different regions of one language, one after the other, in every
    // order) must each give the message the fallback chain prescribes for that locale alone.
    let lookups = AtomicU64::new(0);
    {
        use passage_adapters::localization::LocalizationAdapter;
        let long = "l".repeat(64);
        let locales = ["en_us", "en_gb", "en", "de_de", "de_at", "de_AT", "de_ch", "de", "fr_FR", "fr_ca", "pt_pt", "pt_br", "pt", "xx_yy", "", "de_", "de_de_x", long.as_str()];
        let tables = ["en+de+de_at", "de_de-only", "none", "default-absent", "default-de", "exact-default", "full-names", "mixed", "plain-text"];
        par_for(tables.len(), |ti| {
            let (d, tbl) = table(tables[ti]);
            let rt = tokio::runtime::Builder::new_current_thread().build().expect("rt");
            for a in &locales {
                for b in &locales {
                    for c in [None, Some("de_at"), Some("en_gb")] {
                        let messages: std::collections::HashMap<String, std::collections::HashMap<String, String>> = tbl.iter().map(|(l, m)| (l.clone(), m.iter().cloned().collect())).collect();
                        let adapter = passage_adapters::FixedLocalizationAdapter::new(d.clone(), messages);
                        let seq: Vec<&str> = [Some(*a), Some(*b), c].into_iter().flatten().collect();
                        for (k, loc) in seq.iter().enumerate() {
                            lookups.fetch_add(1, Ordering::Relaxed);
                            let got = rt.block_on(adapter.localize(Some(loc), "disconnect_no_target", &[]));
                            let want = expected_message(loc, &d, &tbl, "disconnect_no_target");
                            let ok = match (&got, &want) {
                                (Ok(g), Some(w)) => g == w,
                                // no table anywhere in the chain: what is answered then is not fixed by the statement
                                (_, None) => true,
                                (Err(_), Some(_)) => false,
                            };
                            if !ok {
                                rep.violation(Violation {
                                    key: "no-target-text:depends-on-earlier-lookups".into(),
                                    text: format!("tables {:?} (default {d}): lookup #{k} of the sequence {seq:?} on one adapter instance gave {got:?}, the configured message for {loc:?} is {want:?}", tables[ti]),
                                    replay: json!({"lookups": seq, "table": tables[ti]}),
                                    weight: 50 + k as u64,
                                });
                            }
                        }
                    }
                }
            }
        });
    }
    rep.set("lookup_sequences_on_one_localisation_adapter", json!(lookups.load(Ordering::Relaxed)));
    let d = distinct.lock().unwrap().len() as u64;
    rep.require("runs with a Transfer", transfers.load(Ordering::Relaxed), 50);
    rep.require("runs with a Disconnect", disconnects.load(Ordering::Relaxed), 50);
    rep.require("distinct observations", d, 20);
    rep.set("states", json!(all.len()));
    rep.set("transitions", json!(transitions.load(Ordering::Relaxed)));
    rep.set("traces_validated_against_impl", json!(all.len()));
    rep.set("evaluations", json!(all.len()));
    rep.set("distinct_nontrivial", json!(d));
    rep.set("exhaustive", json!(true));
    rep.set("rule", json!("full product discovery(8) x filter(7) x strategy(6) x adapter latencies, plus client locale(19) x localisation table(9) on both no-target paths, plus returning players (Transfer intent, valid cookie naming each target on offer or a vanished one as the previous destination) x 5 discoveries x 4 filters x 5 strategies, plus every sequence of two or three lookups over 18 locales on one instance of the real localisation adapter x 9 tables; distinct_nontrivial = distinct (clientbound trace without keep-alives, result)"));
    rep.sample(json!({"spec": all[0]}));
    rep.sample(json!({"spec": Spec { disc: "v4+v6".into(), filter: "reverse".into(), strat: "pick-0".into(), locale: "de_de".into(), table: "en+de+de_at".into(), lat: [0, 0, 0], ka_stall: None, cookie_target: None }, "expect": "Transfer to 2001:db8::1 port 65535"}));
    rep.sample(json!({"spec": Spec { disc: "v4".into(), filter: "identity".into(), strat: "none".into(), locale: "de_AT".into(), table: "en+de+de_at".into(), lat: [0, 0, 0], ka_stall: None, cookie_target: None }, "expect": "Disconnect with the 'de' message (de_AT -> de)"}));
    rep.assume("locale keys are compared as exact strings (the statement does not define case folding); when no table exists for the whole chain only 'exactly one Disconnect, no Transfer' is judged");
    rep.assume("Transfer host is compared as an IP address, not as text");
    // A returning player (Transfer intent, the cookies the router itself issued on the first visit) who now reports
    // another language and finds no target: the Disconnect is in the language reported on *this* connection.
    {
        let mut n = 0u64;
        for (first_locale, second_locale, want) in [("de_de", "en_us", "no-target-en"), ("en_us", "de_at", "no-target-de"), ("de_de", "fr_fr", "no-target-en"), ("de_de", "de_de", "no-target-de")] {
            n += 1;
            let secret = b"c03-returning".to_vec();
            let mut first = Case::default();
            first.cfg.auth_secret = Some(secret.clone());
            first.script = Login { locale: first_locale.into(), ..Default::default() }.steps();
            let o1 = crate::sim::run(&first);
            let stored = |k: &str| o1.packets.iter().find_map(|(_, p)| match p {
                Pkt::StoreCookie { key, payload } if key == k => Some(payload.clone()),
                _ => None,
            });
            let mut second = Case::default();
            second.cfg.auth_secret = Some(secret);
            second.script = Login { intent: 3, locale: second_locale.into(), auth_cookie: Some(stored("passage:authentication")), session: stored("passage:session"), ..Default::default() }.steps();
            second.adapters.strat = StratPlan::None;
            let o2 = crate::sim::run(&second);
            let text = o2.packets.iter().find_map(|(_, p)| if let Pkt::ConfDisconnect { reason } = p { Some(reason.clone()) } else { None });
            if text != Some(json!({"text": want})) || o2.has("Transfer") {
                rep.violation(Violation {
                    key: "no-target-text:returning-player".into(),
                    text: format!("a player who reported {first_locale} on a first visit returns with the router's cookies, reports {second_locale} and finds no target: Disconnect {text:?} (packets {:?}); the message for the locale reported now is {want}", o2.kinds()),
                    replay: json!({"lookups": "returning-player", "first": first_locale, "second": second_locale}),
                    weight: 50,
                });
            }
        }
        rep.set("returning_players_with_another_language", json!(n));
    }
    extra(&rep);
    rep.finish()
}
