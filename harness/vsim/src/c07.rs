//! C07: waiting players are kept alive; silent ones are timed out.
//!
//! Exhaustive over a timing alphabet under virtual time. The oracle is read off the
//! timestamped wire log and the client's own echo log; it encodes the bounds of the statement
//! (not the implementation's tick grid).
use crate::sim::*;
use common::refs::codec::Pkt;
use common::{Cli, Report, Violation, par_for};
use serde::{Deserialize, Serialize};
use serde_json::{Value, json};
use std::collections::HashSet;
use std::sync::Mutex;
use std::sync::atomic::{AtomicU64, Ordering};

const PERIOD: Ms = 16_000;

#[derive(Clone, Debug, Serialize, Deserialize, PartialEq)]
pub struct Spec {
    /// latency of discovery, filter, strategy (ms)
    lat: [u64; 3],
    /// Client Information is sent this long after Login Acknowledged was consumed
    ci_after: u64,
    /// prompt | delay-N | never | wrong-id | twice | prompt-first-N | delay-first-N-M
    echo: String,
    unsolicited_every: Option<u64>,
    /// latency of the authentication service (login duration)
    auth_ms: u64,
    locale: String,
    /// the first Keep Alive frame is accepted only this many bytes; the rest not before this time (ms)
    #[serde(default)]
    ka_write_stall: Option<(usize, u64)>,
    /// the timeout Disconnect frame is accepted only this many bytes; the rest not before this time (ms)
    #[serde(default)]
    dc_write_stall: Option<(usize, u64)>,
    /// the operator's `disconnect_timeout` message for the language en (None: the harness default, a JSON object)
    #[serde(default)]
    timeout_msg: Option<String>,
}

fn echo_of(s: &str) -> Echo {
    let nums: Vec<u64> = s.split('-').filter_map(|p| p.parse().ok()).collect();
    match s {
        "prompt" => Echo::Prompt,
        "never" => Echo::Never,
        "wrong-id" => Echo::WrongId,
        "twice" => Echo::Twice,
        e if e.starts_with("delay-first-") => Echo::DelayFirst(nums[0] as usize, nums[1]),
        e if e.starts_with("prompt-first-") => Echo::PromptFirst(nums[0] as usize),
        e if e.starts_with("delay-") => Echo::Delay(nums[0]),
        other => common::machinery(&format!("echo {other}")),
    }
}

fn build(s: &Spec) -> Case {
    let mut case = Case::default();
    case.script = Login { locale: s.locale.clone(), client_info_after: s.ci_after, ..Default::default() }.steps();
    case.adapters.disc_ms = s.lat[0];
    case.adapters.filter_ms = s.lat[1];
    case.adapters.strat_ms = s.lat[2];
    case.adapters.auth_ms = s.auth_ms;
    case.adapters.disc = DiscPlan::Targets(vec![TargetSpec::new("t7", "10.7.7.7:25577")]);
    case.echo = echo_of(&s.echo);
    case.unsolicited_every = s.unsolicited_every;
    if let Some((first, until)) = s.ka_write_stall {
        // clientbound frames: 0 session cookie request, 1 encryption request, 2 login success, 3 first keep-alive
        case.transport.writes.push(WriteDev { frame: 3, prog: vec![WStep::Accept(first), WStep::Until(until)] });
    }
    case.horizon_ms = 400_000.max(s.lat.iter().sum::<u64>() + s.ci_after + 100_000);
    if let Some(m) = &s.timeout_msg {
        for (lang, table) in case.adapters.loc_messages.iter_mut() {
            if lang == "en" {
                for (k, v) in table.iter_mut() {
                    if k == "disconnect_timeout" {
                        *v = m.clone();
                    }
                }
            }
        }
    }
    if let Some((first, until)) = s.dc_write_stall {
        // where the timeout Disconnect is in the sequence of clientbound frames is read off the undisturbed run
        let base = crate::sim::run(&case);
        if let Some(frame) = base.packets.iter().position(|(_, p)| matches!(p, Pkt::ConfDisconnect { .. })) {
            case.transport.writes.push(WriteDev { frame, prog: vec![WStep::Accept(first), WStep::Until(until)] });
        }
    }
    case
}

fn timeout_text(locale: &str) -> Value {
    // default tables of the harness: en / de, default locale en_US
    let lang = if locale.starts_with("de") { "de" } else { "en" };
    json!({"text": format!("timeout-{lang}")})
}

fn judge(s: &Spec, obs: &Obs) -> Vec<(String, String)> {
    let mut v = vec![];
    let mut bad = |k: &str, t: String| v.push((k.to_string(), t));
    if let RunResult::Panic(p) = &obs.result {
        bad("panic", p.clone());
        return v;
    }
    if obs.garbled.is_some() || obs.has("Unknown") || obs.partial_tail > 0 {
        bad("undecodable-clientbound", format!("{:?} {:?}", obs.garbled, obs.kinds()));
        return v;
    }
    // script steps: 0 handshake, 1 login start, 2 session cookie, 3 enc response, 4 login ack, 5 client info
    let (Some(t_ack), t_ci) = (obs.step_times.get(4).copied(), obs.step_times.get(5).copied()) else {
        bad("machinery:login-did-not-complete", format!("steps {:?} result {:?}", obs.step_times, obs.result));
        return v;
    };
    // a Keep Alive counts as sent when the transport took its first byte (a socket that stalls in the middle
    // of the frame is not the server's doing)
    let kas: Vec<(Ms, u64)> = obs.packets.iter().zip(obs.packet_started.iter()).filter_map(|((_, p), t0)| if let Pkt::KeepAlive { id } = p { Some((*t0, *id)) } else { None }).collect();
    // (like a Keep Alive, the Disconnect counts as sent when the transport took its first byte)
    let disconnect: Option<(Ms, Value)> = obs.packets.iter().zip(obs.packet_started.iter()).find_map(|((_, p), t0)| if let Pkt::ConfDisconnect { reason } = p { Some((*t0, reason.clone())) } else { None });
    let transfer: Option<(Ms, String, i32)> = obs.packets.iter().find_map(|(t, p)| if let Pkt::Transfer { host, port } = p { Some((*t, host.clone(), *port)) } else { None });
    let end = obs.end_ms;

    // K1: a Keep Alive at least every 16 s while in the configuration phase
    let mut marks: Vec<Ms> = vec![t_ack];
    marks.extend(kas.iter().map(|k| k.0));
    // (the phase is over for the server once the first byte of the Disconnect is out: how long a stalling socket
    // then takes to accept the rest is not the server's doing)
    marks.push(disconnect.as_ref().map(|d| d.0).unwrap_or(end));
    for w in marks.windows(2) {
        if w[1] > w[0] + PERIOD {
            bad("keep-alive-gap", format!("no Keep Alive between {} ms and {} ms (configuration phase entered at {t_ack} ms, ended at {end} ms); keep-alives at {:?}", w[0], w[1], kas.iter().map(|k| k.0).collect::<Vec<_>>()));
            break;
        }
    }
    // K2: never a second Keep Alive before the previous one was echoed
    for w in kas.windows(2) {
        let echoed = obs.echo_log.iter().any(|(t, id)| *id == w[0].1 && *t >= w[0].0 && *t <= w[1].0);
        if !echoed {
            bad("second-keep-alive-while-unechoed", format!("Keep Alive at {} ms was never echoed, yet another one was sent at {} ms", w[0].0, w[1].0));
            break;
        }
    }
    // a Keep Alive is only legal in the configuration phase
    if let Some(k) = kas.iter().find(|k| k.0 < t_ack) {
        bad("keep-alive-before-configuration", format!("Keep Alive at {} ms, Login Acknowledged at {t_ack} ms", k.0));
    }
    // the time routing completes if nothing interferes
    // (read off the service call log, so that it does not depend on when an implementation starts routing)
    let t_done = obs.calls.iter().find_map(|c| if let Call::Select { t, .. } = c { Some(*t + s.lat[2]) } else { None }).or_else(|| t_ci.map(|t| t + s.lat.iter().sum::<u64>()));

    match &disconnect {
        Some((x, reason)) => {
            // K3: only a client that left the last Keep Alive unechoed may be dropped
            match kas.iter().rev().find(|k| k.0 <= *x) {
                None => bad("timeout-disconnect-without-keep-alive", format!("Disconnect at {x} ms but no Keep Alive was ever sent")),
                Some((sent, id)) => {
                    let echoed_before = obs.echo_log.iter().any(|(t, i)| i == id && *t >= *sent && *t < *x);
                    let echoed_at = obs.echo_log.iter().any(|(t, i)| i == id && *t == *x);
                    if echoed_before {
                        bad("compliant-client-dropped", format!("Keep Alive of {sent} ms was echoed before {x} ms, yet the client was disconnected at {x} ms; echoes {:?}", obs.echo_log));
                    } else if !echoed_at && *x > sent + PERIOD {
                        bad("timeout-too-late", format!("Keep Alive of {sent} ms unechoed; Disconnect only at {x} ms"));
                    }
                }
            }
            // the Disconnect carries the timeout message (client locale once it is known)
            let known = t_ci.is_some_and(|t| t < *x);
            let at_same_instant = t_ci == Some(*x);
            let ok = match &s.timeout_msg {
                // (text that is not a JSON object is a plain string component; only en-speaking clients get these specs)
                Some(m) if !m.starts_with('{') => *reason == Value::String(m.clone()),
                Some(m) => serde_json::from_str::<Value>(m).ok().as_ref() == Some(reason),
                None if at_same_instant => *reason == timeout_text(&s.locale) || *reason == timeout_text("en"),
                // (an implementation may compare locale names without regard to letter case: the statement does not say)
                None if known => *reason == timeout_text(&s.locale) || *reason == timeout_text(&s.locale.to_lowercase()),
                None => *reason == timeout_text("en"),
            };
            if !ok {
                bad("timeout-disconnect-text", format!("Disconnect text {reason} for client locale {:?} (Client Information at {t_ci:?} ms, Disconnect at {x} ms)", s.locale));
            }
            if !matches!(obs.packets.last(), Some((_, Pkt::ConfDisconnect { .. }))) || obs.count("ConfDisconnect") != 1 {
                bad("packet-after-timeout-disconnect", format!("{:?}", obs.kinds()));
            }
            // (the connection ends; the name of the error it ends with is the handler's own business)
            if matches!(&obs.result, RunResult::Horizon | RunResult::Panic(_)) {
                bad("timeout-result", format!("{:?}", obs.result));
            }
            if transfer.is_some() {
                bad("transfer-and-timeout", format!("{:?}", obs.kinds()));
            }
        }
        None => {
            // K4: a client that leaves a Keep Alive unechoed until the next one is due must be dropped
            for (sent, id) in &kas {
                let echoed = obs.echo_log.iter().any(|(t, i)| i == id && *t >= *sent && *t <= sent + PERIOD);
                if !echoed && end > sent + PERIOD {
                    bad("silent-client-not-dropped", format!("Keep Alive of {sent} ms was not echoed by {} ms, the connection went on until {end} ms; echoes {:?}", sent + PERIOD, obs.echo_log));
                    break;
                }
            }
            // K5: not dropped => transferred to the scripted target as soon as routing completes
            match (&transfer, t_done) {
                (Some((t, host, port)), Some(done)) => {
                    if host != "10.7.7.7" || *port != 25577 {
                        bad("transfer-target", format!("{host}:{port}"));
                    }
                    if *t != done {
                        bad("transfer-not-at-routing-completion", format!("routing completes at {done} ms, Transfer sent at {t} ms"));
                    }
                    if obs.result != RunResult::Ok {
                        bad("transfer-result", format!("{:?}", obs.result));
                    }
                }
                (None, _) => bad("neither-transferred-nor-timed-out", format!("result {:?} at {end} ms; packets {:?}", obs.result, obs.kinds())),
                (Some(_), None) => bad("transfer-without-client-information", "Transfer although Client Information was never sent".into()),
            }
        }
    }
    v
}

fn specs(thorough: bool) -> Vec<Spec> {
    let lats: [u64; 7] = [0, 8_000, 15_999, 16_000, 16_001, 33_000, 50_000];
    let cis: [u64; 5] = [0, 10_000, 16_000, 20_000, 40_000];
    let mut echoes: Vec<&str> = vec!["prompt", "delay-1000", "delay-15000", "delay-15999", "delay-16000", "delay-16001", "delay-17000", "never", "wrong-id", "twice", "prompt-first-1", "prompt-first-2", "delay-first-1-15000"];
    if !thorough {
        echoes = vec!["prompt", "delay-1000", "delay-15000", "delay-15999", "delay-16001", "never", "wrong-id", "twice", "prompt-first-1", "prompt-first-2"];
    }
    let mut v = vec![];
    let mut triples: Vec<[u64; 3]> = vec![];
    for a in lats {
        for b in lats {
            for c in lats {
                let slow = [a, b, c].iter().filter(|x| **x > 0).count();
                if thorough || slow <= 2 {
                    triples.push([a, b, c]);
                }
            }
        }
    }
    for lat in &triples {
        for ci in cis {
            for e in &echoes {
                for auth in [0u64, 20_000] {
                    if !thorough && auth > 0 && lat.iter().sum::<u64>() > 33_000 {
                        continue;
                    }
                    for uns in if thorough { vec![None, Some(5_000u64)] } else { vec![None] } {
                        v.push(Spec { lat: *lat, ci_after: ci, echo: e.to_string(), unsolicited_every: uns, auth_ms: auth, locale: if ci % 20_000 == 0 { "de_de".into() } else { "en_us".into() }, ka_write_stall: None, dc_write_stall: None, timeout_msg: None });
                    }
                }
            }
        }
    }
    // the socket accepts only part of the first Keep Alive; the rest goes out after the first slow stage
    // completed (the write is cut short by the completing adapter call) while a second slow stage follows
    for (lat, until) in [([20_000u64, 20_000, 0], 20_001u64), ([17_000, 0, 40_000], 17_000), ([0, 18_000, 30_000], 18_001), ([16_001, 16_001, 16_001], 16_002)] {
        for e in ["never", "wrong-id", "prompt", "delay-1000", "delay-15000"] {
            for first in [1usize, 5, 9] {
                v.push(Spec { lat, ci_after: 0, echo: e.into(), unsolicited_every: None, auth_ms: 0, locale: "en_us".into(), ka_write_stall: Some((first, until)), dc_write_stall: None, timeout_msg: None });
            }
        }
    }
    // the socket accepts only part of the timeout Disconnect; meanwhile the routing stage that was running answers
    // (and further stages follow, or routing is complete): the verdict stands, nothing follows the Disconnect
    for (lat, until) in [([33_000u64, 20_000, 0], 34_000u64), ([33_000, 20_000, 0], 60_000), ([0, 33_000, 20_000], 34_000), ([0, 0, 33_000], 40_000), ([40_000, 0, 0], 41_000), ([20_000, 13_000, 40_000], 33_500)] {
        for e in ["never", "wrong-id"] {
            for first in [1usize, 5] {
                v.push(Spec { lat, ci_after: 0, echo: e.into(), unsolicited_every: None, auth_ms: 0, locale: "en_us".into(), ka_write_stall: None, dc_write_stall: Some((first, until)), timeout_msg: None });
            }
        }
    }
    // a player who waits for a very long time (routing takes a day and a half: 8 000 Keep Alives), echoing promptly
    // or with a delay, and one who stops echoing after the first 4 000
    for (lat, e) in [([130_000_000u64, 0, 0], "prompt"), ([0, 130_000_000, 0], "delay-15000"), ([130_000_000, 0, 0], "prompt-first-4000")] {
        v.push(Spec { lat, ci_after: 0, echo: e.into(), unsolicited_every: None, auth_ms: 0, locale: "en_us".into(), ka_write_stall: None, dc_write_stall: None, timeout_msg: None });
    }
    // what the operator may have written as the timeout message: plain text of any shape, or a JSON object
    for m in ["[Passage] timed out", "\"quoted\" text", "42", "true", "null", " leading blank", "[1, 2", "}{", "Zeit\u{fc}berschreitung \u{1f600}", "{\"text\":\"t\",\"extra\":[{\"text\":\"x\",\"color\":\"red\"}]}", ""] {
        for e in ["never", "wrong-id"] {
            v.push(Spec { lat: [50_000, 0, 0], ci_after: 0, echo: e.into(), unsolicited_every: None, auth_ms: 0, locale: "en_us".into(), ka_write_stall: None, dc_write_stall: None, timeout_msg: Some(m.to_string()) });
        }
    }
    // locales with multi-byte characters around every byte offset up to 24: the timeout Disconnect is built for
    // the locale the client reported, whatever it looks like
    for pad in 0..=20usize {
        for ch in ["\u{e9}", "\u{20ac}", "\u{1f600}", "\u{441}"] {
            let loc = format!("{}{}", "a".repeat(pad), ch.repeat(8));
            for e in ["never", "wrong-id", "prompt"] {
                if e == "prompt" && pad % 5 != 0 {
                    continue;
                }
                v.push(Spec { lat: [50_000, 0, 0], ci_after: 0, echo: e.into(), unsolicited_every: None, auth_ms: 0, locale: loc.clone(), ka_write_stall: None, dc_write_stall: None, timeout_msg: None });
            }
        }
    }
    // locales that are legal strings but not shaped like `ll_cc` (pattern characters, letter case, characters
    // whose lower-case form has another length, separators, blanks): the silent client still gets its Disconnect
    for loc in crate::c03::ODD_LOCALES {
        for e in ["never", "wrong-id"] {
            v.push(Spec { lat: [50_000, 0, 0], ci_after: 0, echo: e.into(), unsolicited_every: None, auth_ms: 0, locale: loc.into(), ka_write_stall: None, dc_write_stall: None, timeout_msg: None });
        }
    }
    for loc in ["sr_cyrl_rs_\u{441}\u{440}\u{43f}", "de_\u{e9}\u{e9}\u{e9}\u{e9}\u{e9}\u{e9}\u{e9}\u{e9}\u{e9}\u{e9}", "zh_Hant_TW_x_ab\u{e9}\u{e9}"] {
        v.push(Spec { lat: [0, 50_000, 0], ci_after: 10_000, echo: "never".into(), unsolicited_every: None, auth_ms: 0, locale: loc.into(), ka_write_stall: None, dc_write_stall: None, timeout_msg: None });
    }
    if !thorough {
        for e in ["prompt", "never", "delay-15000"] {
            v.push(Spec { lat: [33_000, 0, 0], ci_after: 10_000, echo: e.into(), unsolicited_every: Some(5_000), auth_ms: 0, locale: "en_us".into(), ka_write_stall: None, dc_write_stall: None, timeout_msg: None });
        }
    }
    v
}

pub fn run(cli: Cli) -> ! {
    run_with(cli, &|_| {})
}

/// `extra` adds to the same report (netsim hosts this check and adds whole connections through the assembled router)
pub fn run_with(cli: Cli, extra: &dyn Fn(&Report)) -> ! {
    let rep = Report::new("C07", cli.tier, "model_checking");
    if let Some(case) = cli.replay.clone() {
        let s: Spec = serde_json::from_value(case["spec"].clone()).unwrap_or_else(|e| common::machinery(&format!("bad replay: {e}")));
        let (a, b) = (crate::sim::run(&build(&s)), crate::sim::run(&build(&s)));
        let times = |o: &Obs| o.packets.iter().map(|(t, p)| (*t, p.kind())).collect::<Vec<_>>();
        if times(&a) != times(&b) || a.result != b.result {
            common::machinery("two replays of the same case differ");
        }
        println!("spec: {}", serde_json::to_string(&s).unwrap());
        println!("clientbound: {:?}", times(&a));
        println!("client keep-alives sent (time, id): {:?}", a.echo_log);
        println!("script step times: {:?}; result {:?} at {} ms", a.step_times, a.result, a.end_ms);
        for (k, t) in judge(&s, &a) {
            rep.violation(Violation { key: k, text: t, replay: case.clone(), weight: 0 });
        }
        rep.set("states", json!(1));
        rep.set("transitions", json!(a.packets.len().max(1)));
        rep.set("traces_validated_against_impl", json!(1));
        rep.finish();
    }
    let all = specs(cli.tier.thorough());
    for s in [&all[0], &all[all.len() / 2], &all[all.len() - 1]] {
        assert_deterministic(&build(s), "C07");
    }
    let distinct: Mutex<HashSet<String>> = Mutex::new(HashSet::new());
    let (dropped, transferred, kept_alive) = (AtomicU64::new(0), AtomicU64::new(0), AtomicU64::new(0));
    let transitions = AtomicU64::new(0);
    par_for(all.len(), |i| {
        let s = &all[i];
        let obs = crate::sim::run(&build(s));
        transitions.fetch_add(obs.packets.len() as u64 + 1, Ordering::Relaxed);
        if obs.has("ConfDisconnect") {
            dropped.fetch_add(1, Ordering::Relaxed);
        }
        if obs.has("Transfer") {
            transferred.fetch_add(1, Ordering::Relaxed);
        }
        if obs.count("KeepAlive") >= 2 {
            kept_alive.fetch_add(1, Ordering::Relaxed);
        }
        distinct.lock().unwrap().insert(format!("{:?}|{}", obs.packets.iter().map(|(t, p)| (*t, p.kind())).collect::<Vec<_>>(), obs.result.kind()));
        for (k, t) in judge(s, &obs) {
            rep.violation(Violation { key: k, text: format!("{t}; spec {}", serde_json::to_string(s).unwrap()), replay: json!({"spec": s}), weight: (s.lat.iter().sum::<u64>() + s.ci_after + s.auth_ms) / 1000 });
        }
    });
    let d = distinct.lock().unwrap().len() as u64;
    rep.require("runs ending in a timeout Disconnect", dropped.load(Ordering::Relaxed), 50);
    rep.require("runs ending in a Transfer", transferred.load(Ordering::Relaxed), 50);
    rep.require("runs with at least two Keep Alives", kept_alive.load(Ordering::Relaxed), 50);
    rep.require("distinct timed traces", d, 50);
    rep.set("states", json!(all.len()));
    rep.set("transitions", json!(transitions.load(Ordering::Relaxed)));
    rep.set("traces_validated_against_impl", json!(all.len()));
    rep.set("evaluations", json!(all.len()));
    rep.set("distinct_nontrivial", json!(d));
    rep.set("timed_out", json!(dropped.load(Ordering::Relaxed)));
    rep.set("transferred", json!(transferred.load(Ordering::Relaxed)));
    rep.set("exhaustive", json!(true));
    rep.set("rule", json!("product of adapter latencies {0,8,15.999,16,16.001,33,50 s}^3 (quick: at most two slow adapters), Client Information delay {0,10,16,20,40 s}, echo policy (prompt, delayed by d around the period, never, wrong id, duplicate, first-k-only, unsolicited every 5 s), login duration {0,20 s}; one connection each under virtual time; distinct_nontrivial = distinct timed clientbound traces"));
    rep.sample(json!({"spec": all[0]}));
    rep.sample(json!({"spec": Spec { lat: [33_000, 0, 0], ci_after: 0, echo: "delay-15999".into(), unsolicited_every: None, auth_ms: 0, locale: "en_us".into(), ka_write_stall: None, dc_write_stall: None, timeout_msg: None }, "expect": "Keep Alive at 16 s and 32 s, Transfer at 33 s"}));
    rep.sample(json!({"spec": Spec { lat: [50_000, 0, 0], ci_after: 0, echo: "wrong-id".into(), unsolicited_every: None, auth_ms: 0, locale: "de_de".into(), ka_write_stall: None, dc_write_stall: None, timeout_msg: None }, "expect": "Keep Alive at 16 s, timeout Disconnect (German) at 32 s"}));
    rep.assume("time is tokio's paused clock; real-valued time is represented by the +-1 ms neighbours of the period");
    rep.assume("an echo emitted at exactly the instant the next Keep Alive is due, and routing completing at exactly that instant, are outside the statement and not judged");
    rep.assume("'before the next one is due' is read off the observed log: a drop is only judged wrong if the echo was emitted strictly before the Disconnect; a silent client must be gone 16 s after the unechoed Keep Alive");
    extra(&rep);
    rep.finish()
}
