//! E1: virtual-transport simulator around the real `Connection` and `CipherStream`.
pub use vsim::{alloc, sim, util};
use vsim::{c01, c02, c03, c04, c05, c06, c07, c08, c10};

#[global_allocator]
static GLOBAL: alloc::Counting = alloc::Counting;

fn smoke() {
    use sim::*;
    let mut case = Case::default();
    case.cfg.auth_secret = Some(b"cookie-secret".to_vec());
    case.script = Login::default().steps();
    case.adapters.disc_ms = 20_000;
    let t = std::time::Instant::now();
    let obs = run(&case);
    println!("{}", serde_json::to_string_pretty(&obs.to_json()).unwrap());
    println!("wall {:?}", t.elapsed());
    let mut c2 = Case::default();
    c2.script = vec![
        st(When::Idle, Act::Handshake { proto: 769, host: "h".into(), port: 1, next: 1 }),
        st(When::Idle, Act::StatusRequest),
        st(When::Idle, Act::Ping(42)),
    ];
    let obs = run(&c2);
    println!("{}", serde_json::to_string_pretty(&obs.to_json()).unwrap());
    let t = std::time::Instant::now();
    for _ in 0..1000 {
        run(&case);
    }
    println!("1000 logins: {:?}", t.elapsed());
}

fn main() {
    // keep panics of the subject quiet: they are caught and reported as observations
    std::panic::set_hook(Box::new(|_| {}));
    let args: Vec<String> = std::env::args().collect();
    if args.get(1).map(String::as_str) == Some("smoke") {
        smoke();
        return;
    }
    if std::env::args().nth(1).as_deref() == Some("probe-ka") {
        // a silent client; routing: discovery 33 s, filter 20 s; the timeout Disconnect (sent at 32 s) is accepted
        // one byte and blocked until 34 s, i.e. until after discovery has answered
        use sim::*;
        for block_until in [0u64, 32_500, 34_000, 60_000] {
            let mut case = Case::default();
            case.script = Login::default().steps();
            case.echo = Echo::Never;
            case.adapters.disc_ms = 33_000;
            case.adapters.filter_ms = 20_000;
            case.horizon_ms = 120_000;
            let base = run(&case);
            let frame = base.packets.iter().position(|(_, p)| p.kind() == "ConfDisconnect");
            if let (Some(f), true) = (frame, block_until > 0) {
                case.transport.writes.push(WriteDev { frame: f, prog: vec![WStep::Accept(1), WStep::Until(block_until)] });
            }
            let o = run(&case);
            println!("disconnect frame {frame:?} blocked until {block_until}: {:?} -> {:?} end {} calls {:?}", o.packets.iter().map(|(t, p)| (*t, p.kind())).collect::<Vec<_>>(), o.result, o.end_ms, o.calls.iter().map(|c| (c.t(), c.kind())).collect::<Vec<_>>());
        }
        return;
    }
    if std::env::args().nth(1).as_deref() == Some("C04-after-disconnect") {
        std::panic::set_hook(Box::new(|_| {}));
        c04::after_final_disconnect_child();
        return;
    }
    let cli = common::cli();
    match cli.id.as_str() {
        "C01" => c01::run(cli),
        "C02" => c02::run(cli),
        "C03" => c03::run(cli),
        "C04" => c04::run(cli),
        "C05" => c05::run(cli),
        "C06" => c06::run(cli),
        "C07" => c07::run(cli),
        "C08" => c08::run(cli),
        "C10" => c10::run(cli),
        other => common::machinery(&format!("vsim does not serve {other}")),
    }
}
