//! C05: encrypted traffic is one continuous AES-128-CFB8 stream under any I/O schedule.
//!
//! The real `CipherStream` is driven over a transport whose every `poll_read` / `poll_write`
//! answer is chosen by a depth-first explorer (deviation-bounded, complete for short messages).
use common::refs::cfb8::Cfb8;
use common::{Cli, Report, Violation, hex, par_for};
use passage_protocol::crypto::stream::{Aes128Cfb8Dec, Aes128Cfb8Enc, CipherStream, create_ciphers};
use serde_json::{Value, json};
use std::future::Future;
use std::pin::{Pin, pin};
use std::sync::atomic::{AtomicU64, Ordering};
use std::sync::{Arc, Mutex};
use std::task::{Context, Poll, Waker};
use tokio::io::{AsyncRead, AsyncReadExt, AsyncWrite, AsyncWriteExt, ReadBuf};

// ---------------------------------------------------------------------------------------
// chooser + transport
// ---------------------------------------------------------------------------------------

#[derive(Default)]
struct Chooser {
    prefix: Vec<usize>,
    pos: usize,
    /// (choice taken, number of alternatives, label of a non-default choice)
    trace: Vec<(usize, usize)>,
    labels: Vec<String>,
    diverged: bool,
}

impl Chooser {
    fn choose(&mut self, n: usize, label: impl Fn(usize) -> String) -> usize {
        let c = if self.pos < self.prefix.len() {
            let c = self.prefix[self.pos];
            if c >= n {
                self.diverged = true;
                0
            } else {
                c
            }
        } else {
            0
        };
        if c != 0 {
            self.labels.push(label(c));
        }
        self.trace.push((c, n));
        self.pos += 1;
        c
    }
}

struct Wire {
    chooser: Chooser,
    /// bytes accepted from the writer
    accepted: Vec<u8>,
    /// bytes the transport will produce for the reader
    inbound: Vec<u8>,
    rpos: usize,
    last_w_pending: bool,
    last_r_pending: bool,
    /// allow a Pending answer at all
    allow_pending: bool,
    /// allow a write to be refused with a transient error (TimedOut): nothing of it was written, the caller
    /// offers the bytes again
    allow_error: bool,
    last_w_error: bool,
    errors_w: usize,
    /// observed (for the vacuity guard / classification)
    partial_accepts: usize,
    pendings_w: usize,
    partial_reads: usize,
    pendings_r: usize,
}

#[derive(Clone)]
struct ChoiceStream(Arc<Mutex<Wire>>);

impl AsyncWrite for ChoiceStream {
    fn poll_write(self: Pin<&mut Self>, cx: &mut Context<'_>, buf: &[u8]) -> Poll<std::io::Result<usize>> {
        let mut w = self.0.lock().unwrap();
        let n = buf.len();
        if n == 0 {
            return Poll::Ready(Ok(0));
        }
        // alternatives: 0 = accept all, then accept k for every k < n (writes of more than 512 bytes: k on a grid of
        // sizes an implementation might treat specially - powers of two and their neighbours, 1, n - 1), then
        // Pending (if allowed and not twice in a row), then a transient error
        let ks: Vec<usize> = if n <= 512 {
            (1..n).collect()
        } else {
            let mut g: Vec<usize> = vec![1, n - 1, n / 2];
            let mut p = 512usize;
            while p < n {
                g.extend([p - 1, p, p + 1]);
                p *= 2;
            }
            g.retain(|k| *k >= 1 && *k < n);
            g.sort_unstable();
            g.dedup();
            g
        };
        let pend = w.allow_pending && !w.last_w_pending;
        let err = w.allow_error && !w.last_w_error;
        let alts = 1 + ks.len() + pend as usize + err as usize;
        let c = w.chooser.choose(alts, |c| if c == 0 { format!("write:accept all {n}") } else if c <= ks.len() { format!("write:accept {} of {n}", ks[c - 1]) } else if c == ks.len() + 1 && pend { format!("write:pending at {n}-byte write") } else { format!("write:error at {n}-byte write") });
        if c > ks.len() && !(c == ks.len() + 1 && pend) {
            w.last_w_error = true;
            w.errors_w += 1;
            return Poll::Ready(Err(std::io::Error::from(std::io::ErrorKind::TimedOut)));
        }
        w.last_w_error = false;
        if c == ks.len() + 1 {
            w.last_w_pending = true;
            w.pendings_w += 1;
            cx.waker().wake_by_ref();
            return Poll::Pending;
        }
        w.last_w_pending = false;
        let k = if c == 0 { n } else { ks[c - 1] };
        if k < n {
            w.partial_accepts += 1;
        }
        w.accepted.extend_from_slice(&buf[..k]);
        Poll::Ready(Ok(k))
    }
    fn poll_flush(self: Pin<&mut Self>, _cx: &mut Context<'_>) -> Poll<std::io::Result<()>> {
        Poll::Ready(Ok(()))
    }
    fn poll_shutdown(self: Pin<&mut Self>, _cx: &mut Context<'_>) -> Poll<std::io::Result<()>> {
        Poll::Ready(Ok(()))
    }
    /// the transport supports gathered writes (as a TCP socket does): whatever reaches it this way is on the
    /// wire just the same
    fn is_write_vectored(&self) -> bool {
        true
    }
    fn poll_write_vectored(self: Pin<&mut Self>, cx: &mut Context<'_>, bufs: &[std::io::IoSlice<'_>]) -> Poll<std::io::Result<usize>> {
        let all: Vec<u8> = bufs.iter().flat_map(|b| b.iter().copied()).collect();
        self.poll_write(cx, &all)
    }
}

impl AsyncRead for ChoiceStream {
    fn poll_read(self: Pin<&mut Self>, cx: &mut Context<'_>, buf: &mut ReadBuf<'_>) -> Poll<std::io::Result<()>> {
        let mut w = self.0.lock().unwrap();
        let avail = w.inbound.len() - w.rpos;
        let cap = buf.remaining();
        let n = avail.min(cap);
        if n == 0 {
            return Poll::Ready(Ok(())); // EOF (or zero-capacity read)
        }
        let pend = w.allow_pending && !w.last_r_pending;
        let alts = n + pend as usize;
        let c = w.chooser.choose(alts, |c| if c < n { format!("read:deliver {c} of {n}") } else { format!("read:pending with {n} available") });
        if c == n {
            w.last_r_pending = true;
            w.pendings_r += 1;
            cx.waker().wake_by_ref();
            return Poll::Pending;
        }
        w.last_r_pending = false;
        let k = if c == 0 { n } else { c };
        if k < n {
            w.partial_reads += 1;
        }
        let (a, b) = (w.rpos, w.rpos + k);
        buf.put_slice(&w.inbound[a..b].to_vec());
        w.rpos += k;
        Poll::Ready(Ok(()))
    }
}

/// Polls a future to completion; `Pending` answers of the transport wake immediately.
fn drive<F: Future>(f: F) -> Option<F::Output> {
    let mut f = pin!(f);
    let mut cx = Context::from_waker(Waker::noop());
    for _ in 0..100_000 {
        if let Poll::Ready(v) = f.as_mut().poll(&mut cx) {
            return Some(v);
        }
    }
    None
}

// ---------------------------------------------------------------------------------------
// scenarios
// ---------------------------------------------------------------------------------------

#[derive(Clone, Debug, serde::Serialize, serde::Deserialize)]
struct Scenario {
    dir: String, // "write" | "read_exact" | "read_take"
    secret_hex: String,
    /// message lengths
    msgs: Vec<usize>,
    /// encryption is switched on before message index `switch` (msgs.len() = never)
    switch: usize,
    allow_pending: bool,
}

fn message(i: usize, len: usize) -> Vec<u8> {
    (0..len).map(|j| (i * 31 + j * 7 + 3) as u8).collect()
}

fn secret_of(s: &Scenario) -> [u8; 16] {
    let v = common::unhex(&s.secret_hex);
    v.try_into().expect("16-byte secret")
}

/// The reference transform of the plaintext messages (prefix plain, rest one continuous CFB8 stream).
fn reference_stream(s: &Scenario, encrypt: bool) -> Vec<Vec<u8>> {
    let mut c = Cfb8::new(&secret_of(s));
    s.msgs
        .iter()
        .enumerate()
        .map(|(i, len)| {
            let m = message(i, *len);
            if i < s.switch {
                m
            } else if encrypt {
                c.encrypt(&m)
            } else {
                c.decrypt(&m)
            }
        })
        .collect()
}

struct RunOut {
    trace: Vec<(usize, usize)>,
    labels: Vec<String>,
    error: Option<String>,
    diverged: bool,
    stats: (usize, usize, usize, usize),
    cipher_differs: bool,
}

fn run_once(s: &Scenario, prefix: &[usize]) -> RunOut {
    let wire = Arc::new(Mutex::new(Wire {
        chooser: Chooser { prefix: prefix.to_vec(), ..Default::default() },
        accepted: vec![],
        inbound: vec![],
        rpos: 0,
        last_w_pending: false,
        last_r_pending: false,
        allow_pending: s.allow_pending,
        allow_error: s.dir == "write_retry",
        last_w_error: false,
        errors_w: 0,
        partial_accepts: 0,
        pendings_w: 0,
        partial_reads: 0,
        pendings_r: 0,
    }));
    let secret = secret_of(s);
    let mut stream: CipherStream<ChoiceStream, Aes128Cfb8Enc, Aes128Cfb8Dec> = CipherStream::from_stream(ChoiceStream(wire.clone()));
    let mut error: Option<String> = None;
    let mut cipher_differs = false;

    if s.dir == "write_cancel" {
        // before every message a write of *other* bytes of the same length is started and polled once: if the
        // transport answers Pending the future is dropped (nothing was reported written); if it accepts n bytes,
        // those n bytes were reported written. Then the real message is written completely.
        let mut c = Cfb8::new(&secret);
        let mut expect_all: Vec<u8> = vec![];
        for (i, len) in s.msgs.iter().enumerate() {
            if i == s.switch {
                let (e, d) = create_ciphers(&secret).expect("ciphers");
                stream.set_encryption(Some(e), Some(d));
            }
            let decoy: Vec<u8> = (0..*len).map(|j| (0xA0 ^ (i * 17 + j * 3)) as u8).collect();
            let accepted_of_decoy = {
                let mut fut = std::pin::pin!(stream.write(&decoy));
                let mut cx = Context::from_waker(Waker::noop());
                match fut.as_mut().poll(&mut cx) {
                    Poll::Ready(Ok(n)) => n,
                    Poll::Ready(Err(e)) => {
                        error = Some(format!("write failed: {e}"));
                        0
                    }
                    Poll::Pending => 0, // abandoned: the future is dropped here
                }
            };
            let m = message(i, *len);
            let mut reported: Vec<u8> = decoy[..accepted_of_decoy].to_vec();
            reported.extend_from_slice(&m);
            if i >= s.switch {
                let enc = c.encrypt(&reported);
                if enc != reported {
                    cipher_differs = true;
                }
                expect_all.extend_from_slice(&enc);
            } else {
                expect_all.extend_from_slice(&reported);
            }
            let r = drive(async {
                stream.write_all(&m).await?;
                stream.flush().await
            });
            let acc = wire.lock().unwrap().accepted.clone();
            match r {
                Some(Ok(())) if acc == expect_all => {}
                Some(Ok(())) => {
                    let at = acc.iter().zip(expect_all.iter()).position(|(a, b)| a != b).unwrap_or(acc.len().min(expect_all.len()));
                    error = Some(format!(
                        "after an abandoned write and write_all+flush of message {i} the transport holds {} bytes {}, the encryption of the bytes reported written is {} bytes {}; first difference at byte {at}",
                        acc.len(), hex(&acc), expect_all.len(), hex(&expect_all)
                    ));
                }
                other => error = Some(format!("write_all of message {i}: {other:?}")),
            }
            if error.is_some() {
                break;
            }
        }
    } else if s.dir == "write" || s.dir == "write_vectored" || s.dir == "write_retry" {
        let reference = reference_stream(s, true);
        let mut expect_all: Vec<u8> = vec![];
        for (i, len) in s.msgs.iter().enumerate() {
            if i == s.switch {
                let (e, d) = create_ciphers(&secret).expect("ciphers");
                stream.set_encryption(Some(e), Some(d));
            }
            let m = message(i, *len);
            expect_all.extend_from_slice(&reference[i]);
            if i >= s.switch && reference[i] != m {
                cipher_differs = true;
            }
            let r = if s.dir == "write_vectored" {
                // the message handed over as three slices, until every byte was reported written
                drive(async {
                    let mut done = 0usize;
                    while done < m.len() {
                        let rest = &m[done..];
                        let (a, b) = (rest.len() / 3, rest.len() * 2 / 3);
                        let slices = [std::io::IoSlice::new(&rest[..a]), std::io::IoSlice::new(&rest[a..b]), std::io::IoSlice::new(&rest[b..])];
                        let n = stream.write_vectored(&slices).await?;
                        if n == 0 {
                            return Err(std::io::Error::other("write_vectored reported 0 bytes"));
                        }
                        done += n;
                    }
                    stream.flush().await
                })
            } else if s.dir == "write_retry" {
                // the transport may refuse a write with a transient error: nothing of it counts as written and
                // the caller offers the rest again
                drive(async {
                    let mut done = 0usize;
                    while done < m.len() {
                        match stream.write(&m[done..]).await {
                            Ok(0) => return Err(std::io::Error::other("write reported 0 bytes")),
                            Ok(n) => done += n,
                            Err(e) if e.kind() == std::io::ErrorKind::TimedOut => {}
                            Err(e) => return Err(e),
                        }
                    }
                    stream.flush().await
                })
            } else {
                drive(async {
                    stream.write_all(&m).await?;
                    stream.flush().await
                })
            };
            let acc = wire.lock().unwrap().accepted.clone();
            match r {
                None => {
                    error = Some(format!("write_all of message {i} did not complete"));
                    break;
                }
                Some(Err(e)) => {
                    error = Some(format!("write_all of message {i} failed: {e}"));
                    break;
                }
                Some(Ok(())) => {
                    if acc != expect_all {
                        let at = acc.iter().zip(expect_all.iter()).position(|(a, b)| a != b).unwrap_or(acc.len().min(expect_all.len()));
                        error = Some(format!(
                            "after write_all+flush of message {i} the transport holds {} bytes {}, the reference stream is {} bytes {}; first difference at byte {at}",
                            acc.len(),
                            hex(&acc),
                            expect_all.len(),
                            hex(&expect_all)
                        ));
                        break;
                    }
                }
            }
        }
    } else {
        // the transport produces: plaintext before the switch, reference ciphertext after it
        let reference = reference_stream(s, true);
        wire.lock().unwrap().inbound = reference.concat();
        for (i, len) in s.msgs.iter().enumerate() {
            if i == s.switch {
                let (e, d) = create_ciphers(&secret).expect("ciphers");
                stream.set_encryption(Some(e), Some(d));
            }
            if i >= s.switch && reference[i] != message(i, *len) {
                cipher_differs = true;
            }
            let got: Option<std::io::Result<Vec<u8>>> = if s.dir == "read_exact" {
                drive(async {
                    let mut b = vec![0u8; *len];
                    stream.read_exact(&mut b).await?;
                    Ok(b)
                })
            } else if s.dir == "read_buf" {
                // as Connection::read_frame_bytes does: take(missing).read_buf into one growing Vec (whose spare
                // capacity is uninitialised memory), until the message is complete
                drive(async {
                    let mut b: Vec<u8> = Vec::new();
                    while b.len() < *len {
                        let missing = (*len - b.len()) as u64;
                        let n = (&mut stream).take(missing).read_buf(&mut b).await?;
                        if n == 0 {
                            return Err(std::io::Error::from(std::io::ErrorKind::UnexpectedEof));
                        }
                    }
                    Ok(b)
                })
            } else {
                drive(async {
                    let mut b = vec![];
                    (&mut stream).take(*len as u64).read_to_end(&mut b).await?;
                    Ok(b)
                })
            };
            match got {
                None => {
                    error = Some(format!("read of message {i} did not complete"));
                    break;
                }
                Some(Err(e)) => {
                    error = Some(format!("read of message {i} failed: {e}"));
                    break;
                }
                Some(Ok(b)) => {
                    let want = message(i, *len);
                    if b != want {
                        error = Some(format!("message {i} surfaced as {} but the plaintext is {}", hex(&b), hex(&want)));
                        break;
                    }
                }
            }
        }
    }
    let w = wire.lock().unwrap();
    RunOut {
        trace: w.chooser.trace.clone(),
        labels: w.chooser.labels.clone(),
        error,
        diverged: w.chooser.diverged,
        stats: (w.partial_accepts, w.pendings_w, w.partial_reads, w.pendings_r),
        cipher_differs,
    }
}

struct Counters {
    runs: AtomicU64,
    points: AtomicU64,
    partial: AtomicU64,
    pending: AtomicU64,
    cipher: AtomicU64,
}

fn classify(labels: &[String], s: &Scenario) -> String {
    let side = if s.dir == "write" { "write" } else if s.dir == "write_vectored" { "write-vectored" } else if s.dir == "write_retry" { "write-after-refused-write" } else if s.dir == "write_cancel" { "write-after-abandoned-write" } else { "read" };
    let mut kinds = vec![];
    if labels.iter().any(|l| l.contains("accept") || l.contains("deliver")) {
        kinds.push("partial");
    }
    if labels.iter().any(|l| l.contains("pending")) {
        kinds.push("pending");
    }
    if labels.iter().any(|l| l.contains("error")) {
        kinds.push("error");
    }
    if kinds.is_empty() {
        kinds.push("default-schedule");
    }
    let enc = if s.switch >= s.msgs.len() { "plaintext" } else if s.switch == 0 { "encrypted" } else { "mid-switch" };
    format!("{side}:{}:{enc}", kinds.join("+"))
}

fn explore(rep: &Report, cn: &Counters, s: &Scenario, prefix: Vec<usize>, cost: usize, bound: usize) {
    let out = run_once(s, &prefix);
    cn.runs.fetch_add(1, Ordering::Relaxed);
    if out.diverged {
        common::machinery("C05: divergence while replaying a choice prefix (nondeterministic harness)");
    }
    cn.partial.fetch_add((out.stats.0 + out.stats.2) as u64, Ordering::Relaxed);
    cn.pending.fetch_add((out.stats.1 + out.stats.3) as u64, Ordering::Relaxed);
    if out.cipher_differs {
        cn.cipher.fetch_add(1, Ordering::Relaxed);
    }
    if let Some(e) = &out.error {
        rep.violation(Violation {
            key: classify(&out.labels, s),
            text: format!("schedule {:?}: {e}", out.labels),
            replay: json!({"scenario": s, "choices": prefix}),
            weight: (cost * 1000 + s.msgs.iter().sum::<usize>()) as u64,
        });
        // a failing schedule is not extended
        return;
    }
    if cost >= bound {
        return;
    }
    for i in prefix.len()..out.trace.len() {
        cn.points.fetch_add(1, Ordering::Relaxed);
        let (_, n) = out.trace[i];
        for alt in 1..n {
            let mut p: Vec<usize> = out.trace[..i].iter().map(|t| t.0).collect();
            p.push(alt);
            explore(rep, cn, s, p, cost + 1, bound);
        }
    }
}

fn replay(cli: &Cli, case: &Value) -> ! {
    let rep = Report::new("C05", cli.tier, "model_checking");
    let s: Scenario = serde_json::from_value(case["scenario"].clone()).unwrap_or_else(|e| common::machinery(&format!("bad replay file: {e}")));
    let choices: Vec<usize> = serde_json::from_value(case["choices"].clone()).unwrap_or_default();
    let a = run_once(&s, &choices);
    let b = run_once(&s, &choices);
    if a.trace != b.trace || a.error != b.error {
        common::machinery("two replays of the same schedule differ");
    }
    println!("scenario: {}", serde_json::to_string(&s).unwrap());
    println!("schedule: {:?}", a.labels);
    println!("outcome : {}", a.error.clone().unwrap_or_else(|| "matches the reference CFB8 stream".into()));
    if let Some(e) = a.error {
        rep.violation(Violation { key: classify(&a.labels, &s), text: e, replay: case.clone(), weight: 0 });
    }
    rep.set("states", json!(1));
    rep.set("transitions", json!(a.trace.len()));
    rep.set("traces_validated_against_impl", json!(1));
    rep.finish()
}

pub fn run(cli: Cli) -> ! {
    run_with(cli, &|_| {})
}

/// `extra` adds to the same report (netsim hosts this check and adds whole connections through the assembled router)
pub fn run_with(cli: Cli, extra: &dyn Fn(&Report)) -> ! {
    if let Some(case) = cli.replay.clone() {
        if case.get("connection").is_none() {
            replay(&cli, &case);
        }
        println!("connection case {}: the sweep is re-run (cheap), which re-evaluates it", case["connection"]);
    }
    let rep = Report::new("C05", cli.tier, "model_checking");
    let thorough = cli.tier.thorough();
    let secrets = ["00000000000000000000000000000000", "ffffffffffffffffffffffffffffffff", &hex(b"verysecuresecret"), "000102030405060708090a0b0c0d0e0f"];
    let mut jobs: Vec<(Scenario, usize)> = vec![];
    for dir in ["write", "write_cancel", "write_vectored", "write_retry", "read_exact", "read_take", "read_buf"] {
        for (si, sec) in secrets.iter().enumerate() {
            // complete exploration (every answer sequence, at most one Pending between progress steps)
            let small: Vec<Vec<usize>> = if thorough {
                vec![vec![1, 2], vec![2, 3], vec![3, 2, 1], vec![5], vec![6, 1], vec![4, 3, 2], vec![7, 2], vec![2, 2, 2, 2], vec![8, 1], vec![3, 3, 3], vec![4, 4, 1]]
            } else {
                vec![vec![1, 2], vec![2, 3], vec![3, 2, 1], vec![5], vec![6, 1]]
            };
            for msgs in small {
                for switch in 0..=msgs.len() {
                    if si > 1 && switch != 1.min(msgs.len()) {
                        continue; // the switch position is varied fully for two secrets only
                    }
                    jobs.push((Scenario { dir: dir.into(), secret_hex: sec.to_string(), msgs: msgs.clone(), switch, allow_pending: true }, usize::MAX));
                }
            }
            // deviation-bounded exploration of longer messages
            let long: Vec<(Vec<usize>, usize)> = if thorough {
                vec![(vec![17, 5, 40], 3), (vec![40, 17], 3), (vec![5, 17, 5], 3), (vec![30, 30, 30], 2), (vec![200, 3], 2), (vec![9, 12], 4), (vec![16, 16, 1], 3), (vec![15, 17], 3)]
            } else {
                vec![(vec![17, 5, 40], 2), (vec![40, 17], 2), (vec![5, 17, 5], 2), (vec![30, 30, 30], 1)]
            };
            // frames of several KiB (a long Disconnect message, a profile with textures): whatever an
            // implementation does in blocks of a power of two shows here
            let long: Vec<(Vec<usize>, usize)> = if !dir.starts_with("write") || si > 0 {
                long
            } else if thorough {
                // (deviation bound 2 on 9 000 bytes is half an hour of CPU per way of driving the stream: two ways)
                if dir == "write" || dir == "write_retry" { long.into_iter().chain([(vec![9_000], 2), (vec![4_097, 5_000], 1), (vec![20_000], 1)]).collect() } else { long.into_iter().chain([(vec![9_000], 1)]).collect() }
            } else if dir == "write" {
                long.into_iter().chain([(vec![9_000], 1)]).collect()
            } else {
                long
            };
            // one stream of 34 000 (thorough: 100 000) bytes per direction, undisturbed: what a cipher keeps beyond the
            // register - a window, a counter - has to survive more than a login's worth of bytes
            let long: Vec<(Vec<usize>, usize)> = if si == 0 { long.into_iter().chain([(if thorough { vec![40_000, 40_000, 20_000] } else { vec![17_000, 17_000] }, 0)]).collect() } else { long };
            for (msgs, bound) in long {
                for switch in 0..=msgs.len() {
                    if si > 0 && switch > 1 {
                        continue;
                    }
                    jobs.push((Scenario { dir: dir.into(), secret_hex: sec.to_string(), msgs: msgs.clone(), switch, allow_pending: true }, bound));
                }
            }
        }
    }
    let rot = common::seed() as usize % jobs.len();
    jobs.rotate_left(rot);
    let cn = Counters { runs: AtomicU64::new(0), points: AtomicU64::new(0), partial: AtomicU64::new(0), pending: AtomicU64::new(0), cipher: AtomicU64::new(0) };
    par_for(jobs.len(), |i| {
        let (s, bound) = &jobs[i];
        explore(&rep, &cn, s, vec![], 0, *bound);
    });

    // The switch inside a whole connection (the anchor "encryption switched on between Encryption Response and
    // Login Success"): the real Connection over the virtual transport, its peer a client model that encrypts and
    // decrypts with the independent CFB8 as one continuous stream from the byte after its Encryption Response.
    // The login must complete whether the client waits for Login Success before it goes on, sends everything
    // behind the Encryption Response in the same burst, or the transport moves one byte at a time.
    {
        use crate::sim::{Case, Login, RunResult};
        let mut cases: Vec<(&str, Case)> = vec![];
        for (label, eager, one_byte) in [("lock-step", false, false), ("bursts", true, false), ("one-byte-transport", false, true), ("bursts-over-one-byte-transport", true, true)] {
            let mut c = Case::default();
            c.script = Login { eager, ..Default::default() }.steps();
            if one_byte {
                c.transport.read_chunk = Some(1);
                c.transport.write_chunk = Some(1);
            }
            cases.push((label, c));
        }
        for (label, c) in cases {
            let obs = crate::sim::run(&c);
            cn.runs.fetch_add(1, Ordering::Relaxed);
            let ok = obs.result == RunResult::Ok && obs.has("LoginSuccess") && obs.has("Transfer") && obs.garbled.is_none() && obs.partial_tail == 0 && obs.consumed == obs.emitted;
            if !ok {
                rep.violation(Violation {
                    key: format!("connection:{label}"),
                    text: format!("a whole login ({label}): result {:?}, clientbound {:?}, undecodable {:?}, {} of {} client bytes consumed - both directions must be one continuous CFB8 stream from the switch on", obs.result, obs.kinds(), obs.garbled, obs.consumed, obs.emitted),
                    replay: json!({"connection": label}),
                    weight: 5,
                });
            }
        }
    }

    // A client that misbehaves once the stream is encrypted (another packet where Login Acknowledged or Client
    // Information is due, garbage, an early hang-up), an authentication service that fails, a player nobody can be
    // routed: whatever the router still sends - a notice, nothing - continues the one CFB8 stream the client has
    // been decrypting since its Encryption Response (the client model decrypts everything with one cipher).
    {
        use crate::sim::{st, Act, AuthPlan, Case, Login, StratPlan, When};
        let login = Login::default().steps();
        let upto = |n: usize| login[..n].to_vec();
        let mut cases: Vec<(String, Case)> = vec![];
        for (label, act) in [
            ("a Cookie Response instead of Login Acknowledged", Act::Frame { id: 4, body: common::refs::codec::W::new().string("passage:session").bool(false).done() }),
            ("a Keep Alive instead of Login Acknowledged", Act::Frame { id: 4, body: 7u64.to_be_bytes().to_vec() }),
            ("an unknown packet id instead of Login Acknowledged", Act::Frame { id: 0x55, body: vec![1, 2, 3] }),
            ("a Login Start again instead of Login Acknowledged", Act::LoginStart { name: "Again".into(), uuid: 5 }),
            ("a length prefix of zero instead of Login Acknowledged", Act::Raw(vec![0])),
            ("the end of the stream instead of Login Acknowledged", Act::Eof),
        ] {
            // (steps 0..4: handshake, login start, session cookie, encryption response)
            let mut c = Case::default();
            c.script = upto(4);
            c.script.push(st(When::Idle, act));
            cases.push((label.to_string(), c));
        }
        for (label, act) in [("a Login Start where Client Information is due", Act::LoginStart { name: "Again".into(), uuid: 5 }), ("an unknown packet id where Client Information is due", Act::Frame { id: 0x55, body: vec![9; 40] }), ("a length prefix beyond the limit where Client Information is due", Act::Raw(common::refs::codec::varint(2_000_000)))] {
            let mut c = Case::default();
            c.script = upto(5);
            c.script.push(st(When::Idle, act));
            cases.push((label.to_string(), c));
        }
        let mut refused = Case::default();
        refused.script = login.clone();
        refused.adapters.auth = AuthPlan::Err;
        cases.push(("the authentication service fails".into(), refused));
        let mut nowhere = Case::default();
        nowhere.script = login.clone();
        nowhere.adapters.strat = StratPlan::None;
        cases.push(("no target is chosen".into(), nowhere));
        for (label, mut c) in cases {
            for one_byte in [false, true] {
                if one_byte {
                    c.transport.read_chunk = Some(1);
                    c.transport.write_chunk = Some(1);
                }
                let obs = crate::sim::run(&c);
                cn.runs.fetch_add(1, Ordering::Relaxed);
                if obs.garbled.is_some() || obs.has("Unknown") || obs.partial_tail > 0 {
                    rep.violation(Violation {
                        key: "connection:what-the-router-sends-last-is-not-the-same-stream".into(),
                        text: format!("{label}{}: the client, decrypting everything since its Encryption Response with one cipher, reads {:?} - undecodable {:?}, {} dangling bytes (result {:?})", if one_byte { " (one-byte transport)" } else { "" }, obs.kinds(), obs.garbled, obs.partial_tail, obs.result),
                        replay: json!({"connection": label}),
                        weight: 6,
                    });
                }
            }
        }
    }

    // determinism: the first and the last job's default schedule replayed twice
    for (s, _) in [&jobs[0], &jobs[jobs.len() - 1]] {
        let a = run_once(s, &[1]);
        let b = run_once(s, &[1]);
        if a.trace != b.trace || a.error != b.error {
            common::machinery("two replays of the same schedule differ");
        }
    }

    let runs = cn.runs.load(Ordering::Relaxed);
    rep.require("schedules with a partial accept / short read", cn.partial.load(Ordering::Relaxed), 100);
    rep.require("schedules with a Pending", cn.pending.load(Ordering::Relaxed), 100);
    rep.require("runs in which ciphertext differs from plaintext", cn.cipher.load(Ordering::Relaxed), 100);
    rep.set("states", json!(runs));
    rep.set("transitions", json!(cn.points.load(Ordering::Relaxed) + runs));
    rep.set("traces_validated_against_impl", json!(runs));
    rep.set("schedules", json!(runs));
    rep.set("scenarios", json!(jobs.len()));
    rep.set("evaluations", json!(runs));
    rep.set("distinct_nontrivial", json!(runs.saturating_sub(jobs.len() as u64)));
    rep.set("bounds", json!("messages of <= 7 (thorough: 8) bytes: every answer sequence (accept any k, deliver any k, Pending, never two Pendings in a row); longer messages: at most 2 (quick) / 3 and, for one 21-byte pair, 4 (thorough) deviations from the default answer"));
    rep.set("exhaustive", json!(true));
    rep.sample(json!({"scenario": jobs[0].0, "choices": [1], "meaning": "first transport call answered with its first non-default alternative"}));
    rep.sample(json!({"scenario": {"dir": "write", "msgs": [17, 5, 40], "switch": 1}, "choices": [0, 7, 0, 40], "meaning": "second write accepts 7 bytes, ... , last write Pending once"}));
    rep.assume("the raw AES-128 block function (aes crate) is shared with the implementation; CFB8 chaining, register handling and key=IV are re-implemented");
    rep.assume("of the transport errors only a transient refusal of a write (TimedOut, nothing written, the caller offers the bytes again) is in the alphabet; Pending answers wake immediately");
    extra(&rep);
    rep.finish()
}
