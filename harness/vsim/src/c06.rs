//! C06: packets are only exchanged in protocol order; status and login never mix.
//!
//! Explicit-state breadth-first search over histories of serverbound packet kinds. A state is
//! the history reaching it (a fresh `Connection` is built and the history replayed). A reference
//! automaton predicts the exact clientbound sequence for the handshake, status and login phases
//! and the constraints of the configuration phase.
use crate::sim::*;
use common::refs::codec::{self, Pkt, R, W};
use common::{Cli, Report, Violation, par_for};
use serde_json::{Value, json};
use std::collections::HashSet;
use std::sync::Mutex;
use std::sync::atomic::{AtomicU64, Ordering};

#[derive(Clone, Debug, PartialEq)]
struct Kind {
    name: &'static str,
    id: i32,
    body: Vec<u8>,
    honest_enc: bool,
    /// an Encryption Response with a valid RSA layer whose verify token is cut to this many bytes
    /// (usize::MAX: the token extended by extra bytes); needs the issued token like the honest one
    bad_token: Option<usize>,
}

fn kinds() -> Vec<Kind> {
    let k = |name: &'static str, id: i32, body: Vec<u8>| Kind { name, id, body, honest_enc: false, bad_token: None };
    let hs = |next: i32| W::new().varint(769).string("mc.example.org").u16(25565).varint(next).done();
    vec![
        k("handshake-status", 0, hs(1)),
        k("handshake-login", 0, hs(2)),
        k("handshake-transfer", 0, hs(3)),
        k("handshake-next-0", 0, hs(0)),
        k("handshake-next-4", 0, hs(4)),
        k("handshake-next-neg1", 0, hs(-1)),
        k("id0-empty(status-request)", 0, vec![]),
        k("ping-0", 1, W::new().u64(0).done()),
        k("ping-42", 1, W::new().u64(42).done()),
        k("ping-max", 1, W::new().u64(u64::MAX).done()),
        k("login-start", 0, W::new().string(NAME1).u128(UUID1).done()),
        Kind { name: "encryption-response-honest", id: 1, body: vec![], honest_enc: true, bad_token: None },
        Kind { name: "encryption-response-token-empty", id: 1, body: vec![], honest_enc: false, bad_token: Some(0) },
        Kind { name: "encryption-response-token-16-of-32-bytes", id: 1, body: vec![], honest_enc: false, bad_token: Some(16) },
        Kind { name: "encryption-response-token-31-of-32-bytes", id: 1, body: vec![], honest_enc: false, bad_token: Some(31) },
        Kind { name: "encryption-response-token-extended", id: 1, body: vec![], honest_enc: false, bad_token: Some(usize::MAX) },
        k("encryption-response-garbage", 1, W::new().bytes(&[1u8; 128]).bytes(&[2u8; 128]).done()),
        k("login-plugin-response", 2, W::new().varint(0).bool(false).done()),
        k("id3-empty(login-ack/ack-finish)", 3, vec![]),
        k("cookie-response-session-none", 4, W::new().string("passage:session").bool(false).done()),
        k("cookie-response-auth-none", 4, W::new().string("passage:authentication").bool(false).done()),
        k("client-information", 0, codec::sb_client_information_body("en_us", 10, 0, true, 0x7f, 1, false, true, 0)),
        k("conf-cookie-response", 1, W::new().string("passage:session").bool(false).done()),
        k("plugin-message", 2, W::new().string("minecraft:brand").raw(b"\x07vanilla").done()),
        k("keep-alive-unsolicited", 4, W::new().u64(0x0102030405060708).done()),
        k("conf-pong", 5, W::new().i32(7).done()),
        k("resource-pack-response", 6, W::new().u128(5).varint(0).done()),
        k("known-packs", 7, W::new().varint(0).done()),
        k("unknown-id-8", 8, vec![]),
        k("unknown-id-7f", 0x7f, vec![0]),
    ]
}

#[derive(Clone, Copy, Debug, PartialEq)]
enum Dec {
    Yes,
    No,
    /// decodes but leaves trailing bytes / is not what a client would send: both readings allowed
    Ambiguous,
}

fn dec_of(r: Result<usize, codec::DecodeError>, len: usize) -> Dec {
    match r {
        Ok(used) if used == len => Dec::Yes,
        Ok(_) => Dec::Ambiguous,
        Err(_) => Dec::No,
    }
}

fn dec_handshake(b: &[u8]) -> (Dec, i32) {
    let mut r = R::new(b);
    let res = (|| {
        r.varint()?;
        r.string()?;
        r.u16()?;
        r.varint()
    })();
    match res {
        Ok(next) => (if r.pos == b.len() { Dec::Yes } else { Dec::Ambiguous }, next),
        Err(_) => (Dec::No, 0),
    }
}
fn dec_login_start(b: &[u8]) -> Dec {
    let mut r = R::new(b);
    dec_of((|| { r.string()?; r.u128()?; Ok(r.pos) })(), b.len())
}
fn dec_login_cookie(b: &[u8]) -> Dec {
    let mut r = R::new(b);
    dec_of(
        (|| {
            r.string()?;
            // the flag is a boolean: only 0 and 1 are what a client sends
            let f = r.u8()?;
            if f == 1 {
                r.bytes()?;
                // a payload is not in the alphabet (it would have to be valid JSON): ambiguous
                return Ok(usize::MAX);
            }
            if f != 0 {
                return Ok(usize::MAX);
            }
            Ok(r.pos)
        })(),
        b.len(),
    )
}
fn dec_client_info(b: &[u8]) -> Dec {
    let mut r = R::new(b);
    dec_of(
        (|| {
            r.string()?;
            r.u8()?;
            let c = r.varint()?;
            r.u8()?;
            r.u8()?;
            let m = r.varint()?;
            r.u8()?;
            r.u8()?;
            let p = r.varint()?;
            if !(0..3).contains(&c) || !(0..2).contains(&m) || !(0..3).contains(&p) {
                return Err(codec::DecodeError::Other("enum".into()));
            }
            Ok(r.pos)
        })(),
        b.len(),
    )
}

#[derive(Clone, Debug, PartialEq)]
enum Exp {
    StatusResponse,
    Pong(u64),
    CookieReq(&'static str),
    EncReq,
    LoginSuccess,
}

#[derive(Clone, Debug, PartialEq)]
enum End {
    /// the connection is over; `ok` = listen() returned Ok
    Ended { ok: bool },
    /// the server waits for the next packet in a pre-configuration state
    Waiting,
    /// configuration phase reached (after Login Acknowledged); `info` = a Client Information was sent
    Config { info: bool },
}

#[derive(Clone, Debug)]
struct Pred {
    outs: Vec<Exp>,
    end: End,
    /// packets of the history consumed by the reference
    consumed: usize,
    /// what the server may have sent ahead of time: packets of the login sequence that do not depend on the
    /// answer it is waiting for (the authentication Cookie Request next to the session Cookie Request; the
    /// Encryption Request where no authentication cookie can change it). The statement fixes the order in
    /// which the client receives them, not that the server waits for each answer before it asks the next thing.
    early: Vec<Exp>,
    /// the handshake announced the status intent (the status service may be consulted from then on: how early, and
    /// whether at all for a client that never sends its Status Request, is not the statement's business)
    status_intent: bool,
}

#[derive(Clone, Debug)]
struct Cfg {
    secret: bool,
    status: &'static str,
    /// latency of discovery (ms)
    disc_ms: u64,
    /// the transport delivers and accepts one byte at a time
    one_byte: bool,
    /// the transport accepts only the first three bytes of the first frame after Login Success (a Keep
    /// Alive when routing is slow) and then blocks until t = 20 s, i.e. until after discovery has answered
    ka_stall: bool,
    /// the frame after the first Keep Alive (the timeout Disconnect of a silent client) is accepted 3 bytes and
    /// blocked until 34 s, i.e. until after discovery (33 s) has answered
    dc_stall: bool,
    /// the client does not wait for the server: every packet of the history goes out in the same burst as
    /// the one before it (only an Encryption Response has to wait for the request it answers: it needs the key and the token)
    burst: bool,
}

/// The reference automaton. Returns every allowed prediction (more than one where a frame is
/// ambiguous between "the expected packet" and "another packet").
fn predict(hist: &[Kind], cfg: &Cfg) -> Vec<Pred> {
    #[derive(Clone, Copy, PartialEq, Debug)]
    enum St {
        Hand,
        StReq,
        StPing,
        LgStart(bool),
        LgSession(bool),
        LgAuth,
        LgEnc,
        LgAck,
        Conf { info: bool },
    }
    fn early_after(st: St, cfg: &Cfg) -> Vec<Exp> {
        match st {
            St::LgSession(tr) if tr && cfg.secret => vec![Exp::CookieReq("passage:authentication")],
            St::LgSession(_) => vec![Exp::EncReq],
            _ => vec![],
        }
    }
    fn step(st: St, outs: Vec<Exp>, hist: &[Kind], i: usize, cfg: &Cfg, acc: &mut Vec<Pred>) {
        if let St::Conf { info } = st {
            let info = info || hist[i..].iter().any(|k| k.id == 0 && dec_client_info(&k.body) != Dec::No);
            acc.push(Pred { outs, end: End::Config { info }, consumed: hist.len(), early: vec![], status_intent: false });
            return;
        }
        if i == hist.len() {
            acc.push(Pred { outs, end: End::Waiting, consumed: i, early: early_after(st, cfg), status_intent: matches!(st, St::StReq | St::StPing) });
            return;
        }
        let k = &hist[i];
        let dead = |acc: &mut Vec<Pred>, outs: &Vec<Exp>| acc.push(Pred { outs: outs.clone(), end: End::Ended { ok: false }, consumed: i + 1, early: early_after(st, cfg), status_intent: matches!(st, St::StReq | St::StPing) });
        // (decodes as the expected packet?, next state, outputs added)
        let (d, next, add): (Dec, St, Vec<Exp>) = match st {
            St::Hand => {
                if k.id != 0 {
                    (Dec::No, st, vec![])
                } else {
                    let (d, n) = dec_handshake(&k.body);
                    match (d, n) {
                        (Dec::No, _) => (Dec::No, st, vec![]),
                        (d, 1) => (d, St::StReq, vec![]),
                        (d, 2) => (d, St::LgStart(false), vec![]),
                        (d, 3) => (d, St::LgStart(true), vec![]),
                        _ => (Dec::No, st, vec![]),
                    }
                }
            }
            St::StReq => (if k.id == 0 { if k.body.is_empty() { Dec::Yes } else { Dec::Ambiguous } } else { Dec::No }, St::StPing, vec![Exp::StatusResponse]),
            St::StPing => {
                if k.id == 1 && k.body.len() >= 8 && !k.honest_enc && k.bad_token.is_none() {
                    let p = u64::from_be_bytes(k.body[..8].try_into().unwrap());
                    (if k.body.len() == 8 { Dec::Yes } else { Dec::Ambiguous }, St::Hand, vec![Exp::Pong(p)])
                } else {
                    (Dec::No, st, vec![])
                }
            }
            St::LgStart(tr) => (if k.id == 0 { dec_login_start(&k.body) } else { Dec::No }, St::LgSession(tr), vec![Exp::CookieReq("passage:session")]),
            St::LgSession(tr) => {
                let d = if k.id == 4 { dec_login_cookie(&k.body) } else { Dec::No };
                if tr && cfg.secret { (d, St::LgAuth, vec![Exp::CookieReq("passage:authentication")]) } else { (d, St::LgEnc, vec![Exp::EncReq]) }
            }
            St::LgAuth => (if k.id == 4 { dec_login_cookie(&k.body) } else { Dec::No }, St::LgEnc, vec![Exp::EncReq]),
            St::LgEnc => (if k.honest_enc { Dec::Yes } else { Dec::No }, St::LgAck, vec![Exp::LoginSuccess]),
            St::LgAck => (if k.id == 3 { if k.body.is_empty() { Dec::Yes } else { Dec::Ambiguous } } else { Dec::No }, St::Conf { info: false }, vec![]),
            St::Conf { .. } => unreachable!(),
        };
        if d == Dec::No || d == Dec::Ambiguous {
            dead(acc, &outs);
        }
        if (d == Dec::Yes || d == Dec::Ambiguous) && st == St::LgSession(false) && cfg.secret {
            // the authentication Cookie Request is optional: a router may make it of a Login-intent client too
            let mut o = outs.clone();
            o.push(Exp::CookieReq("passage:authentication"));
            step(St::LgAuth, o, hist, i + 1, cfg, acc);
        }
        if d == Dec::Yes || d == Dec::Ambiguous {
            let mut o = outs.clone();
            o.extend(add);
            if st == St::StPing {
                // the status exchange is complete
                acc.push(Pred { outs: o, end: End::Ended { ok: true }, consumed: i + 1, early: vec![], status_intent: true });
            } else {
                step(next, o, hist, i + 1, cfg, acc);
            }
        }
    }
    let mut acc = vec![];
    step(St::Hand, vec![], hist, 0, cfg, &mut acc);
    acc
}

fn build(hist: &[Kind], cfg: &Cfg) -> Case {
    let mut case = Case::default();
    case.cfg.auth_secret = cfg.secret.then(|| b"c06-secret".to_vec());
    case.adapters.status = match cfg.status {
        "none" => StatusPlan::None,
        "full" => StatusPlan::Full,
        _ => StatusPlan::Minimal,
    };
    case.adapters.disc_ms = cfg.disc_ms;
    if cfg.one_byte {
        case.transport.read_chunk = Some(1);
        case.transport.write_chunk = Some(1);
    }
    if cfg.ka_stall {
        // clientbound frames of a completed login: [cookie request,] encryption request, login success, then this one
        let frame = 2 + usize::from(cfg.secret);
        case.transport.writes.push(WriteDev { frame, prog: vec![WStep::Accept(3), WStep::Until(20_000)] });
    }
    if cfg.dc_stall {
        let frame = 3 + usize::from(cfg.secret);
        case.transport.writes.push(WriteDev { frame, prog: vec![WStep::Accept(3), WStep::Until(34_000)] });
    }
    case.script = hist
        .iter()
        .map(|k| {
            st(
                When::Idle,
                match (k.honest_enc, k.bad_token) {
                    (true, _) => Act::EncResponse(EncKind::Honest),
                    (_, Some(usize::MAX)) => Act::EncResponse(EncKind::TokenExtended(4)),
                    (_, Some(n)) => Act::EncResponse(EncKind::TokenPrefix(n)),
                    _ => Act::Frame { id: k.id, body: k.body.clone() },
                },
            )
        })
        .collect();
    if cfg.burst {
        for (i, step) in case.script.iter_mut().enumerate() {
            if i > 0 && !matches!(step.act, Act::EncResponse(_)) {
                step.when = When::With;
            }
        }
    }
    // the first frame decides the phase in which the client decodes
    if let Some(k) = hist.first() {
        if k.id == 0 {
            if let (d, n) = dec_handshake(&k.body) {
                if d != Dec::No {
                    case.script[0] = st(When::Idle, Act::Handshake { proto: 769, host: "mc.example.org".into(), port: 25565, next: n });
                }
            }
        }
    }
    case.horizon_ms = 60_000;
    // (the histories of this search are explicit: the client sends exactly these packets)
    case.strict_script = true;
    case
}

fn matches_exp(e: &Exp, p: &Pkt, cfg: &Cfg) -> bool {
    match (e, p) {
        (Exp::StatusResponse, Pkt::StatusResponse { body }) => {
            let want = expected_status_json(&match cfg.status {
                "none" => StatusPlan::None,
                "full" => StatusPlan::Full,
                _ => StatusPlan::Minimal,
            });
            let got: Value = serde_json::from_str(body).unwrap_or(json!("<not json>"));
            json_covers(&got, &want)
        }
        (Exp::Pong(a), Pkt::Pong { payload }) => a == payload,
        (Exp::CookieReq(k), Pkt::LoginCookieRequest { key }) => k == key,
        (Exp::EncReq, Pkt::EncryptionRequest { verify_token, public_key, .. }) => verify_token.len() == 32 && !public_key.is_empty(),
        (Exp::LoginSuccess, Pkt::LoginSuccess { .. }) => true,
        _ => false,
    }
}

/// `got` equals `want` where null and absent are the same thing
fn json_covers(got: &Value, want: &Value) -> bool {
    match (got, want) {
        (Value::Object(g), Value::Object(w)) => {
            w.iter().all(|(k, wv)| json_covers(g.get(k).unwrap_or(&Value::Null), wv)) && g.iter().all(|(k, gv)| w.contains_key(k) || gv.is_null())
        }
        (Value::Object(g), Value::Null) => g.values().all(Value::is_null),
        (Value::Array(g), Value::Array(w)) => g.len() == w.len() && g.iter().zip(w).all(|(a, b)| json_covers(a, b)),
        (a, b) => a == b,
    }
}

/// Checks one observation against one prediction; returns the first mismatch.
fn check(pred: &Pred, obs: &Obs, cfg: &Cfg) -> Option<(String, String)> {
    if let RunResult::Panic(p) = &obs.result {
        return Some(("panic".into(), p.clone()));
    }
    let pk: Vec<&Pkt> = obs.packets.iter().map(|(_, p)| p).collect();
    let names = || pk.iter().map(|p| p.kind()).collect::<Vec<_>>();
    // exact prefix
    for (i, e) in pred.outs.iter().enumerate() {
        match pk.get(i) {
            Some(p) if matches_exp(e, p, cfg) => {}
            other => return Some((format!("expected-{e:?}-missing-or-wrong").replace(|c: char| !c.is_ascii_alphanumeric() && c != '-', ""), format!("reply #{i} should be {e:?} but is {:?}; replies {:?}", other.map(|p| p.to_json()), names()))),
        }
    }
    let mut rest = &pk[pred.outs.len().min(pk.len())..];
    for e in &pred.early {
        match rest.first() {
            Some(p) if matches_exp(e, p, cfg) => rest = &rest[1..],
            _ => break,
        }
    }
    let routing = obs.calls.iter().any(|c| matches!(c.kind(), "discover" | "filter" | "select"));
    let status_calls = obs.calls.iter().filter(|c| c.kind() == "status").count();
    let want_status = pred.outs.iter().filter(|e| **e == Exp::StatusResponse).count();
    if (want_status == 0 && status_calls > 0 && !pred.status_intent) || status_calls < want_status {
        return Some(("status-service-call-count".into(), format!("status service consulted {status_calls} times, {want_status} status responses are due")));
    }
    let auth_calls = obs.calls.iter().filter(|c| c.kind() == "authenticate").count();
    if auth_calls > 0 && !pred.outs.contains(&Exp::LoginSuccess) {
        return Some(("authentication-before-encryption-response".into(), "authentication service consulted before a valid Encryption Response".into()));
    }
    match &pred.end {
        End::Ended { ok } => {
            if !rest.is_empty() {
                return Some(("reply-to-unexpected-packet".into(), format!("the connection had to end without a further reply but sent {:?}", rest.iter().map(|p| p.kind()).collect::<Vec<_>>())));
            }
            let fine = if *ok { obs.result == RunResult::Ok } else { obs.result.is_err() };
            if !fine {
                return Some(("connection-not-ended".into(), format!("expected the connection to end ({}), listen() gave {}", if *ok { "Ok" } else { "error" }, obs.result.kind())));
            }
            if routing {
                return Some(("routing-outside-configuration".into(), "routing services consulted".into()));
            }
        }
        End::Waiting => {
            if !rest.is_empty() {
                return Some(("unsolicited-reply".into(), format!("extra replies {:?}", rest.iter().map(|p| p.kind()).collect::<Vec<_>>())));
            }
            if obs.result != RunResult::Horizon {
                return Some(("ended-while-waiting".into(), format!("the server should wait for the next packet, listen() gave {}", obs.result.kind())));
            }
            if routing {
                return Some(("routing-outside-configuration".into(), "routing services consulted".into()));
            }
        }
        End::Config { info } => {
            let mut finished = false;
            for p in rest {
                if finished {
                    return Some(("packet-after-transfer-or-disconnect".into(), format!("replies {:?}", names())));
                }
                match p {
                    Pkt::KeepAlive { .. } | Pkt::StoreCookie { .. } => {}
                    Pkt::Transfer { .. } | Pkt::ConfDisconnect { .. } => finished = true,
                    other => return Some(("illegal-configuration-reply".into(), format!("{} sent in the configuration phase; replies {:?}", other.kind(), names()))),
                }
            }
            if routing && !*info {
                return Some(("routing-before-client-information".into(), format!("calls {:?}", obs.calls.iter().map(|c| c.kind()).collect::<Vec<_>>())));
            }
            if rest.iter().any(|p| matches!(p, Pkt::StoreCookie { .. } | Pkt::Transfer { .. })) && !routing {
                return Some(("transfer-without-routing".into(), format!("replies {:?}", names())));
            }
        }
    }
    if obs.garbled.is_some() || obs.partial_tail > 0 {
        return Some(("undecodable-clientbound".into(), format!("{:?}", obs.garbled)));
    }
    if let RunResult::Panic(p) = &obs.result {
        return Some(("panic".into(), p.clone()));
    }
    None
}

fn hist_json(h: &[Kind]) -> Value {
    json!(h.iter().map(|k| k.name).collect::<Vec<_>>())
}

pub fn run(cli: Cli) -> ! {
    run_with(cli, &|_| {})
}

/// `extra` adds to the same report (netsim hosts this check and adds whole connections through the assembled router)
pub fn run_with(cli: Cli, extra: &dyn Fn(&Report)) -> ! {
    let rep = Report::new("C06", cli.tier, "model_checking");
    let all_kinds = kinds();
    let thorough = cli.tier.thorough();
    let mut cfgs = vec![];
    for secret in [false, true] {
        for status in ["minimal", "none", "full"] {
            for disc_ms in if thorough { vec![0u64, 17_000] } else { vec![0u64] } {
                cfgs.push(Cfg { secret, status, disc_ms, one_byte: false, ka_stall: false, burst: false, dc_stall: false });
            }
        }
    }
    // routing that completes 1-4 s before a keep-alive tick (whatever follows the Transfer would show)
    cfgs.push(Cfg { secret: true, status: "minimal", disc_ms: 12_000, one_byte: false, ka_stall: false, burst: false, dc_stall: false });
    cfgs.push(Cfg { secret: false, status: "minimal", disc_ms: 15_000, one_byte: false, ka_stall: false, burst: false, dc_stall: false });
    // the whole history in one burst (the packets arrive coalesced, possibly in one read)
    cfgs.push(Cfg { secret: true, status: "minimal", disc_ms: 0, one_byte: false, ka_stall: false, burst: true, dc_stall: false });
    cfgs.push(Cfg { secret: false, status: "full", disc_ms: 0, one_byte: false, ka_stall: false, burst: true, dc_stall: false });
    // a Keep Alive that the transport accepts only partially before discovery answers
    cfgs.push(Cfg { secret: true, status: "minimal", disc_ms: 17_000, one_byte: false, ka_stall: true, burst: false, dc_stall: false });
    if !thorough {
        cfgs.push(Cfg { secret: true, status: "minimal", disc_ms: 17_000, one_byte: false, ka_stall: false, burst: false, dc_stall: false });
    } else {
        // the same search over a transport that moves one byte at a time
        cfgs.push(Cfg { secret: true, status: "full", disc_ms: 0, one_byte: true, ka_stall: false, burst: false, dc_stall: false });
        cfgs.push(Cfg { secret: false, status: "minimal", disc_ms: 17_000, one_byte: true, ka_stall: false, burst: false, dc_stall: false });
    }
    // Two connections in one process, one after the other: the first ends badly with a clientbound frame stuck in
    // the transport; the fresh connection that follows must be served exactly as if it were the first ever
    // (sequential, before the parallel sweep, so that nothing else can be the source of what it sees).
    {
        let hist = crate::sim::after_an_aborted_connection(Some(b"earlier-secret".to_vec()));
        for (label, first, second, alone, after) in &hist {
            let _ = (first, second);
            if let Some(d) = crate::sim::differs_from_alone(alone, after) {
                rep.violation(Violation { key: "reply-from-an-earlier-connection".into(), text: format!("{label}: {d}"), replay: json!({"earlier": label}), weight: 7 });
            }
        }
        rep.set("histories_after_an_aborted_connection", json!(hist.len()));
    }
    let depth_cap = if thorough { 11 } else { 9 };
    // in the configuration phase only this many further packets are explored per history
    let conf_extra = if thorough { 3 } else { 2 };

    if let Some(case) = cli.replay.clone().filter(|c| c.get("earlier").is_none()) {
        let names: Vec<String> = serde_json::from_value(case["history"].clone()).unwrap_or_default();
        let hist: Vec<Kind> = names.iter().filter_map(|n| all_kinds.iter().find(|k| k.name == n).cloned()).collect();
        let cfg = Cfg { secret: case["secret"].as_bool().unwrap_or(false), status: match case["status"].as_str() { Some("none") => "none", Some("full") => "full", _ => "minimal" }, disc_ms: case["disc_ms"].as_u64().unwrap_or(0), one_byte: case["one_byte"].as_bool().unwrap_or(false), ka_stall: case["ka_stall"].as_bool().unwrap_or(false), burst: case["burst"].as_bool().unwrap_or(false), dc_stall: case["dc_stall"].as_bool().unwrap_or(false) };
        let obs = crate::sim::run(&build(&hist, &cfg));
        let preds = predict(&hist, &cfg);
        println!("history: {}", hist_json(&hist));
        println!("allowed predictions: {preds:?}");
        println!("observed: {}", serde_json::to_string_pretty(&obs.to_json()).unwrap());
        let errs: Vec<_> = preds.iter().map(|p| check(p, &obs, &cfg)).collect();
        if errs.iter().all(|e| e.is_some()) {
            let (k, t) = errs[0].clone().unwrap();
            rep.violation(Violation { key: k, text: t, replay: case.clone(), weight: 0 });
        }
        rep.set("states", json!(1));
        rep.set("transitions", json!(hist.len().max(1)));
        rep.set("traces_validated_against_impl", json!(1));
        rep.finish();
    }

    let states = AtomicU64::new(0);
    let transitions = AtomicU64::new(0);
    let distinct: Mutex<HashSet<String>> = Mutex::new(HashSet::new());
    let max_depth = AtomicU64::new(0);
    let ambiguous = AtomicU64::new(0);
    {
        let ks = kinds();
        let honest: Vec<Kind> = ["handshake-login", "login-start", "cookie-response-session-none", "encryption-response-honest", "id3-empty(login-ack/ack-finish)", "client-information"].iter().map(|n| ks.iter().find(|k| k.name == *n).unwrap().clone()).collect();
        assert_deterministic(&build(&honest, &cfgs[0]), "C06");
    }
    for cfg in &cfgs {
        // breadth-first: frontier of histories whose connection is still waiting for input
        let mut frontier: Vec<Vec<Kind>> = vec![vec![]];
        let mut depth = 0;
        while !frontier.is_empty() && depth < depth_cap {
            depth += 1;
            max_depth.fetch_max(depth as u64, Ordering::Relaxed);
            let mut children: Vec<Vec<Kind>> = vec![];
            for h in &frontier {
                // the honest Encryption Response needs the token of an Encryption Request: it is only
                // in the alphabet where one has been received and not yet answered (elsewhere the
                // static 'garbage' response stands for the same wire shape)
                let at_enc = predict(h, cfg).iter().any(|p| p.end == End::Waiting && p.outs.last() == Some(&Exp::EncReq));
                for k in &all_kinds {
                    if (k.honest_enc || k.bad_token.is_some()) && !at_enc {
                        continue;
                    }
                    let mut c = h.clone();
                    c.push(k.clone());
                    children.push(c);
                }
            }
            let next: Mutex<Vec<Vec<Kind>>> = Mutex::new(vec![]);
            par_for(children.len(), |i| {
                let h = &children[i];
                let obs = crate::sim::run(&build(h, cfg));
                states.fetch_add(1, Ordering::Relaxed);
                transitions.fetch_add(1, Ordering::Relaxed);
                let preds = predict(h, cfg);
                if preds.len() > 1 {
                    ambiguous.fetch_add(1, Ordering::Relaxed);
                }
                let errs: Vec<Option<(String, String)>> = preds.iter().map(|p| check(p, &obs, cfg)).collect();
                if errs.iter().all(|e| e.is_some()) {
                    // diagnose against the prediction that agrees with the observation for longest
                    let agree = |p: &Pred| p.outs.iter().zip(obs.packets.iter()).take_while(|(e, (_, pk))| matches_exp(e, pk, cfg)).count();
                    let best = (0..preds.len()).max_by_key(|&i| (agree(&preds[i]), usize::MAX - i)).unwrap_or(0);
                    let (k, t) = errs[best].clone().unwrap();
                    rep.violation(Violation {
                        key: k,
                        text: format!("history {} secret={} status={} disc_ms={}: {t}", hist_json(h), cfg.secret, cfg.status, cfg.disc_ms),
                        replay: json!({"history": hist_json(h), "secret": cfg.secret, "status": cfg.status, "disc_ms": cfg.disc_ms, "one_byte": cfg.one_byte, "ka_stall": cfg.ka_stall, "burst": cfg.burst, "dc_stall": cfg.dc_stall}),
                        weight: h.len() as u64,
                    });
                    return;
                }
                distinct.lock().unwrap().insert(format!("{:?}|{}|{:?}", obs.kinds(), obs.result.kind(), obs.calls.iter().map(|c| c.kind()).collect::<Vec<_>>()));
                // expand only states in which the implementation is still waiting for input
                if obs.result == RunResult::Horizon && obs.steps_done == h.len() {
                    // configuration phase: bounded number of extra packets
                    let conf_len = preds.iter().filter_map(|p| if let End::Config { .. } = p.end { Some(()) } else { None }).count();
                    if conf_len > 0 {
                        let ack = h.iter().position(|k| k.id == 3 && k.body.is_empty()).unwrap_or(h.len());
                        if h.len() - ack > conf_extra {
                            return;
                        }
                    }
                    next.lock().unwrap().push(h.clone());
                }
            });
            frontier = next.into_inner().unwrap();
        }
    }
    let d = distinct.lock().unwrap().len() as u64;
    rep.require("distinct observations", d, 30);
    rep.require("histories reaching depth >= 8", max_depth.load(Ordering::Relaxed), 8);
    rep.set("states", json!(states.load(Ordering::Relaxed)));
    rep.set("transitions", json!(transitions.load(Ordering::Relaxed)));
    rep.set("traces_validated_against_impl", json!(states.load(Ordering::Relaxed)));
    rep.set("evaluations", json!(states.load(Ordering::Relaxed)));
    rep.set("distinct_nontrivial", json!(d));
    rep.set("max_depth", json!(max_depth.load(Ordering::Relaxed)));
    rep.set("configurations", json!(cfgs.len()));
    rep.set("packet_kinds", json!(all_kinds.len()));
    rep.set("ambiguous_histories", json!(ambiguous.load(Ordering::Relaxed)));
    rep.set("exhaustive", json!(true));
    rep.set("rule", json!(format!("breadth-first over histories of {} serverbound packet kinds (every packet id 0x00-0x08 and 0x7f with a canonical body for the phase that defines it, six next-state values, three ping payloads), expanding exactly the histories after which the implementation still waits for input, depth cap {depth_cap}, at most {conf_extra} further packets after Login Acknowledged; x {} configurations (secret, status value, discovery latency)", all_kinds.len(), cfgs.len())));
    rep.sample(json!({"history": ["handshake-status", "id0-empty(status-request)", "ping-42"], "expect": "[StatusResponse, Pong(42)], Ok"}));
    rep.sample(json!({"history": ["handshake-transfer", "login-start", "cookie-response-session-none", "cookie-response-auth-none", "encryption-response-honest", "id3-empty(login-ack/ack-finish)", "plugin-message", "client-information"], "secret": true, "expect": "CookieRequest x2, EncryptionRequest, LoginSuccess, StoreCookie x2, Transfer"}));
    rep.sample(json!({"history": ["handshake-login", "ping-0"], "expect": "no reply, error"}));
    rep.assume("a frame whose id matches the expected packet but whose body leaves trailing bytes (or carries a payload outside the alphabet) may be treated either as the expected packet or as another packet");
    rep.assume("which other packets are tolerated in the configuration phase is not fixed by the statement: there only the set and order of replies and 'no routing before Client Information' are judged");
    // "finally either Transfer or Disconnect, after which nothing more is sent" when the final Disconnect is the
    // timeout of a silent client and the socket takes it only in part while the routing stage that was running
    // answers (further stages follow, or routing is complete)
    {
        let mut n = 0u64;
        for secret in [false, true] {
            for (lat, until) in [([33_000u64, 20_000, 0], 34_000u64), ([33_000, 20_000, 0], 60_000), ([0, 33_000, 20_000], 34_000), ([0, 0, 33_000], 40_000), ([40_000, 0, 0], 41_000), ([20_000, 13_000, 40_000], 33_500), ([33_000, 0, 0], 0)] {
                for first in [1usize, 3, 9] {
                    let mut case = Case::default();
                    case.cfg.auth_secret = secret.then(|| b"c06-secret".to_vec());
                    case.script = Login::default().steps();
                    case.echo = Echo::Never;
                    case.adapters.disc_ms = lat[0];
                    case.adapters.filter_ms = lat[1];
                    case.adapters.strat_ms = lat[2];
                    case.horizon_ms = 200_000;
                    let base = crate::sim::run(&case);
                    let Some(frame) = base.packets.iter().position(|(_, p)| p.kind() == "ConfDisconnect") else {
                        if first == 1 {
                            rep.violation(Violation {
                                key: "packet-after-the-final-disconnect".into(),
                                text: format!("a silent client, routing latencies {lat:?}: it was sent {:?} ({:?}); a Keep Alive and then the timeout Disconnect are due", base.kinds(), base.result),
                                replay: json!({"earlier": "silent-client", "lat": lat, "secret": secret}),
                                weight: 8,
                            });
                        }
                        continue;
                    };
                    // (the undisturbed run itself: one Keep Alive, then exactly one Disconnect, then nothing)
                    let tail: Vec<&str> = base.kinds().into_iter().skip_while(|k| *k != "LoginSuccess").skip(1).collect();
                    if tail != ["KeepAlive", "ConfDisconnect"] && first == 1 {
                        rep.violation(Violation {
                            key: "packet-after-the-final-disconnect".into(),
                            text: format!("a silent client, routing latencies {lat:?}: after Login Success it was sent {tail:?} ({:?}); one Keep Alive and one Disconnect are due", base.result),
                            replay: json!({"earlier": "silent-client", "lat": lat, "secret": secret}),
                            weight: 8,
                        });
                    }
                    if until > 0 {
                        case.transport.writes.push(WriteDev { frame, prog: vec![WStep::Accept(first), WStep::Until(until)] });
                    }
                    let obs = crate::sim::run(&case);
                    n += 1;
                    let kinds = obs.kinds();
                    let want: Vec<&str> = base.kinds();
                    if kinds != want || obs.garbled.is_some() || obs.partial_tail > 0 {
                        rep.violation(Violation {
                            key: "packet-after-the-final-disconnect".into(),
                            text: format!("a silent client, routing latencies {lat:?}, the timeout Disconnect accepted {first} byte(s) and the rest at {until} ms: the client was sent {kinds:?} ({:?}); when the socket takes the Disconnect at once it is sent {want:?}", obs.result),
                            replay: json!({"earlier": "timeout-disconnect-stall", "lat": lat, "first": first, "until": until, "secret": secret}),
                            weight: 8,
                        });
                    }
                }
            }
        }
        rep.set("histories_with_a_stalled_timeout_disconnect", json!(n));
    }
    // "exactly one Status Response (the status service's answer as JSON) and one Pong, and nothing else" for answers
    // of every length around the places where the length prefix of a clientbound frame grows
    {
        let sweep = crate::sim::status_size_sweep(thorough);
        for (label, want, obs) in &sweep {
            if let Some(f) = crate::sim::status_fault(want, obs) {
                rep.violation(Violation { key: "status-answer-not-delivered".into(), text: format!("{label}: {f}"), replay: json!({"earlier": "status-size", "label": label}), weight: 9 });
            }
        }
        rep.set("status_answers_of_graded_length", json!(sweep.len()));
    }
    // the n-th connection of a process is served like the first (5 000 logins one after the other; the ones around
    // powers of two and the last are judged)
    {
        let keep: Vec<usize> = vec![0, 1, 2, 3, 62, 63, 64, 65, 254, 255, 256, 257, 258, 1022, 1023, 1024, 1025, 4094, 4095, 4096, 4097, 4998, 4999];
        let many = crate::sim::after_many_connections(5_000, &keep, b"many-connections-secret");
        for (i, case, obs) in &many {
            for (aspect, text) in crate::sim::many_connections_faults(*i, case, obs, b"many-connections-secret") {
                if aspect == "order" {
                    rep.violation(Violation { key: "replies-to-the-nth-connection".into(), text, replay: json!({"earlier": "many-connections", "index": i}), weight: 9 });
                }
            }
        }
        rep.set("connections_of_one_process_one_after_the_other", json!(5_000));
    }
    extra(&rep);
    rep.finish()
}
