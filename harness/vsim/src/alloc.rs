//! Counting global allocator: records, per thread and only while armed, the largest single
//! allocation requested. Used by C04's "memory out of proportion" oracle.
use std::alloc::{GlobalAlloc, Layout, System};
use std::cell::Cell;

pub struct Counting;

thread_local! {
    static ARMED: Cell<bool> = const { Cell::new(false) };
    static MAX: Cell<usize> = const { Cell::new(0) };
}

unsafe impl GlobalAlloc for Counting {
    unsafe fn alloc(&self, layout: Layout) -> *mut u8 {
        note(layout.size());
        unsafe { System.alloc(layout) }
    }
    unsafe fn alloc_zeroed(&self, layout: Layout) -> *mut u8 {
        note(layout.size());
        unsafe { System.alloc_zeroed(layout) }
    }
    unsafe fn dealloc(&self, ptr: *mut u8, layout: Layout) {
        unsafe { System.dealloc(ptr, layout) }
    }
    unsafe fn realloc(&self, ptr: *mut u8, layout: Layout, new_size: usize) -> *mut u8 {
        note(new_size);
        unsafe { System.realloc(ptr, layout, new_size) }
    }
}

#[inline]
fn note(size: usize) {
    let _ = ARMED.try_with(|a| {
        if a.get() {
            let _ = MAX.try_with(|m| {
                if size > m.get() {
                    m.set(size);
                }
            });
        }
    });
}

pub fn arm() {
    MAX.with(|m| m.set(0));
    ARMED.with(|a| a.set(true));
}

pub fn disarm() -> usize {
    ARMED.with(|a| a.set(false));
    MAX.with(|m| m.get())
}

/// Suspends counting (harness code running inside the subject's task); returns the previous state.
pub fn pause() -> bool {
    ARMED.with(|a| a.replace(false))
}

pub fn resume(prev: bool) {
    ARMED.with(|a| a.set(prev));
}
