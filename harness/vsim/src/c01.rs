//! C01: only an authenticated identity is ever admitted.
//!
//! Explicit-state exploration over scripts: the full product of handshake intent x encryption
//! response x authentication verdict x routing x secret configuration, each run against the
//! real `Connection` and compared with a reference admission model.
use crate::sim::*;
use crate::util::*;
use common::refs::codec::Pkt;
use common::{Cli, Report, Violation, par_for};
use serde::{Deserialize, Serialize};
use serde_json::{Value, json};
use std::collections::HashSet;
use std::sync::Mutex;
use std::sync::atomic::{AtomicU64, Ordering};

/// a secret with structure (two lines, separators, a trailing line break - what a secret file written by a shell
/// command holds): only the whole of it is the key
const COOKIE_SECRET: &[u8] = b"c01 secret line one\nsecond;line, three \n";
const CK_NAME: &str = "Cookie_Holder";
const CK_UUID: u128 = 0x0987_9557_e479_45a9_b434_a56377674627;

#[derive(Clone, Debug, Serialize, Deserialize, PartialEq)]
pub struct Spec {
    /// login | transfer-nosecret | transfer-nocookie | transfer-cookie | login-secret |
    /// transfer-cookie-other-ip | transfer-cookie-expired | transfer-cookie-forged (a cookie for
    /// `Cookie_Holder` that is genuine but issued to another address / genuine but too old / tagged with another secret)
    intent: String,
    /// honest | wrong-token | stale-token | other-key | garbage-N | secret-len-N | secret-garbage | token-garbage | token-prefix-N | token-extended-N
    enc: String,
    /// claim | other-name | other-uuid | props-1 | props-2 | all-differ | err
    verdict: String,
    routing: bool,
    /// claimed identity shape: ascii | unicode | nil-uuid
    claim: String,
    /// plain | one-byte (transport delivers and accepts one byte at a time) | slow-auth (the
    /// authentication service takes 17 s, a keep-alive tick passes meanwhile) | auth-8s | auth-never
    /// (the service does not answer within the horizon) | slow-routing | enc-13h (the client answers the
    /// Encryption Request thirteen hours later: anything time-dependent on the server side has moved on)
    #[serde(default)]
    transport: String,
}

fn claim_of(s: &Spec) -> (String, u128) {
    match s.claim.as_str() {
        "unicode" => ("Zoë_ß😀".to_string(), 0x1111_2222_3333_4444_5555_6666_7777_8888),
        "nil-uuid" => ("Nil".to_string(), 0),
        _ => (NAME1.to_string(), UUID1),
    }
}

fn props(n: usize) -> Vec<Prop> {
    let all = vec![
        Prop { name: "textures".into(), value: "dGV4dHVyZXM=".into(), signature: Some("c2ln".into()) },
        Prop { name: "extra".into(), value: "ZXh0cmE=".into(), signature: None },
    ];
    all[..n].to_vec()
}

fn verdict_of(s: &Spec) -> AuthPlan {
    let (cn, cu) = claim_of(s);
    match s.verdict.as_str() {
        "claim" => AuthPlan::Profile { name: cn, uuid: cu, props: vec![] },
        "other-name" => AuthPlan::Profile { name: "Real_Name".into(), uuid: cu, props: vec![] },
        "other-uuid" => AuthPlan::Profile { name: cn, uuid: 0xaaaa_bbbb_cccc_4ddd_8eee_ffff_0000_1111, props: vec![] },
        "props-1" => AuthPlan::Profile { name: cn, uuid: cu, props: props(1) },
        "props-2" => AuthPlan::Profile { name: cn, uuid: cu, props: props(2) },
        // (six properties of 1000 bytes: more than a 5 KiB cookie holds)
        "props-big" => AuthPlan::Profile { name: cn, uuid: cu, props: (0..6).map(|k| Prop { name: format!("property-{k}"), value: format!("{k}").repeat(1000), signature: None }).collect() },
        "all-differ" => AuthPlan::Profile { name: "Vouched".into(), uuid: 0x0123_4567_89ab_4cde_8f01_2345_6789_abcd, props: props(2) },
        _ => AuthPlan::Err,
    }
}

fn enc_of(s: &Spec, stale: &[u8]) -> EncKind {
    let num = |p: &str| s.enc.strip_prefix(p).and_then(|n| n.parse::<usize>().ok());
    match s.enc.as_str() {
        "honest" => EncKind::Honest,
        "wrong-token" => EncKind::WrongToken,
        "stale-token" => EncKind::Token(stale.to_vec()),
        "other-key" => EncKind::OtherKey,
        "secret-garbage" => EncKind::SecretGarbage,
        "token-garbage" => EncKind::TokenGarbage,
        e if e.starts_with("garbage-") => EncKind::Garbage(num("garbage-").unwrap()),
        e if e.starts_with("secret-len-") => EncKind::SecretLen(num("secret-len-").unwrap()),
        e if e.starts_with("token-prefix-") => EncKind::TokenPrefix(num("token-prefix-").unwrap()),
        e if e.starts_with("token-extended-") => EncKind::TokenExtended(num("token-extended-").unwrap()),
        other => common::machinery(&format!("unknown enc kind {other}")),
    }
}

fn build(s: &Spec, stale: &[u8]) -> Case {
    let (cn, cu) = claim_of(s);
    let mut case = Case::default();
    let secret_cfg = matches!(s.intent.as_str(), "transfer-nocookie" | "login-secret") || s.intent.starts_with("transfer-cookie");
    case.cfg.auth_secret = secret_cfg.then(|| COOKIE_SECRET.to_vec());
    let mut login = Login { name: cn, uuid: cu, enc: enc_of(s, stale), ..Default::default() };
    login.intent = if s.intent.starts_with("transfer") { 3 } else { 2 };
    login.auth_cookie = match s.intent.as_str() {
        "transfer-nocookie" => Some(None),
        "transfer-cookie" => Some(Some(valid_cookie(COOKIE_SECRET, 5, &case.cfg.client_addr.to_string(), CK_NAME, CK_UUID, &props(1)))),
        "transfer-cookie-other-ip" => Some(Some(valid_cookie(COOKIE_SECRET, 5, "203.0.113.99:40123", CK_NAME, CK_UUID, &props(1)))),
        "transfer-cookie-expired" => Some(Some(valid_cookie(COOKIE_SECRET, case.cfg.expiry as i64 + 60, &case.cfg.client_addr.to_string(), CK_NAME, CK_UUID, &props(1)))),
        "transfer-cookie-forged" => Some(Some(valid_cookie(b"not-the-secret", 5, &case.cfg.client_addr.to_string(), CK_NAME, CK_UUID, &props(1)))),
        "transfer-cookie-forged-empty-key" => Some(Some(valid_cookie(b"", 5, &case.cfg.client_addr.to_string(), CK_NAME, CK_UUID, &props(1)))),
        "transfer-cookie-forged-first-line" => Some(Some(valid_cookie(b"c01 secret line one", 5, &case.cfg.client_addr.to_string(), CK_NAME, CK_UUID, &props(1)))),
        "transfer-cookie-forged-trimmed" => Some(Some(valid_cookie(b"c01 secret line one\nsecond;line, three", 5, &case.cfg.client_addr.to_string(), CK_NAME, CK_UUID, &props(1)))),
        _ => None,
    };
    case.script = login.steps();
    case.adapters.auth = verdict_of(s);
    case.adapters.disc = DiscPlan::Targets(if s.routing { vec![TargetSpec::new("t1", "10.1.2.3:25565")] } else { vec![] });
    match s.transport.as_str() {
        "one-byte" => {
            case.transport.read_chunk = Some(1);
            case.transport.write_chunk = Some(1);
        }
        "slow-auth" => case.adapters.auth_ms = 17_000,
        "auth-8s" => case.adapters.auth_ms = 8_000,
        "auth-never" => case.adapters.auth_ms = 1_000_000,
        "enc-13h" => {
            for st in case.script.iter_mut() {
                if matches!(st.act, Act::EncResponse(_)) {
                    st.when = When::IdleAfter(13 * 3_600_000);
                }
            }
            case.horizon_ms = 14 * 3_600_000;
        }
        "slow-routing" => {
            case.adapters.disc_ms = 17_000;
            case.adapters.strat_ms = 17_000;
        }
        _ => {}
    }
    if s.transport != "enc-13h" {
        case.horizon_ms = 120_000;
    }
    case
}

/// (name, uuid, props) the connection must use, or None if nothing may be granted
fn expected_identity(s: &Spec) -> Option<(String, u128, Vec<Prop>)> {
    if s.enc != "honest" {
        return None;
    }
    if s.intent == "transfer-cookie" {
        return Some((CK_NAME.to_string(), CK_UUID, props(1)));
    }
    if s.transport == "auth-never" {
        // nobody has vouched for anything within the horizon
        return None;
    }
    match verdict_of(s) {
        AuthPlan::Profile { name, uuid, props } => Some((name, uuid, props)),
        _ => None,
    }
}

fn judge(s: &Spec, case: &Case, obs: &Obs) -> Vec<(String, String)> {
    let mut v: Vec<(String, String)> = vec![];
    let mut bad = |k: &str, t: String| v.push((k.to_string(), t));
    if let RunResult::Panic(p) = &obs.result {
        bad("panic", p.clone());
        return v;
    }
    if obs.garbled.is_some() || obs.has("Unknown") {
        bad("undecodable-clientbound", format!("{:?} {:?}", obs.garbled, obs.kinds()));
    }
    let (cn, cu) = claim_of(s);
    let auth_calls: Vec<&Call> = obs.calls.iter().filter(|c| c.kind() == "authenticate").collect();
    let routing_calls: Vec<&Call> = obs.calls.iter().filter(|c| matches!(c.kind(), "filter" | "select")).collect();
    match expected_identity(s) {
        None => {
            for k in ["LoginSuccess", "StoreCookie", "Transfer"] {
                if obs.has(k) {
                    bad(&format!("granted-without-authentication:{k}"), format!("{k} was sent although nothing vouches for the client; packets {:?}", obs.kinds()));
                }
            }
            // (a service that has not answered yet has not failed: that connection may still be waiting)
            let waiting = s.transport == "auth-never" && !auth_calls.is_empty() && matches!(obs.result, RunResult::Horizon);
            if !obs.result.is_err() && !waiting {
                bad("unauthenticated-connection-did-not-end", format!("listen() returned {}", obs.result.kind()));
            }
            if !routing_calls.is_empty() {
                bad("routing-without-authentication", "filter/strategy consulted for an unauthenticated connection".into());
            }
        }
        Some((name, uuid, props)) => {
            match obs.find("LoginSuccess") {
                Some(Pkt::LoginSuccess { uuid: u, name: n, .. }) => {
                    if *u != uuid || *n != name {
                        let which = if *u == cu && *n == cn { "claimed-identity" } else { "other-identity" };
                        bad(&format!("login-success-identity:{which}"), format!("Login Success for ({n}, {u:032x}) but the vouched identity is ({name}, {uuid:032x})"));
                    }
                }
                _ => bad("authenticated-client-not-admitted", format!("no Login Success; result {:?}; packets {:?}", obs.result, obs.kinds())),
            }
            // Login Success must be the first ciphertext on the wire
            if let Some(at) = obs.enc_switch_at {
                let plain = common::refs::codec::frame(0x02, &common::refs::codec::W::new().u128(uuid).string(&name).varint(0).done());
                if obs.raw_wire.len() >= at + plain.len() && obs.raw_wire[at..at + plain.len()] == plain[..] {
                    bad("login-success-not-encrypted", "Login Success went out in plaintext".into());
                }
            }
            for c in &routing_calls {
                let (n, u) = match c {
                    Call::Filter { name, uuid, .. } | Call::Select { name, uuid, .. } => (name, uuid),
                    _ => unreachable!(),
                };
                if *u != uuid || *n != name {
                    let which = if *u == cu && *n == cn { "claimed-identity" } else { "other-identity" };
                    bad(&format!("routing-identity:{}:{which}", c.kind()), format!("{} was asked about ({n}, {u:032x}) but the vouched identity is ({name}, {uuid:032x})", c.kind()));
                }
            }
            if s.routing && routing_calls.len() != 2 {
                bad("routing-not-consulted", format!("calls {:?}", obs.calls.iter().map(|c| c.kind()).collect::<Vec<_>>()));
            }
            // adapter consulted exactly when no cookie vouches
            let cookie = s.intent == "transfer-cookie";
            if (cookie && !auth_calls.is_empty()) || (!cookie && auth_calls.is_empty()) {
                bad("authentication-call-count", format!("authentication service called {} times; a cookie vouches: {cookie}", auth_calls.len()));
            }
            // issued cookie carries the vouched identity
            for (_, p) in &obs.packets {
                if let Pkt::StoreCookie { key, payload } = p {
                    if key == "passage:authentication" {
                        let (ok, body) = open_cookie(payload, COOKIE_SECRET);
                        let body = body.unwrap_or(Value::Null);
                        let bn = body["user_name"].as_str().unwrap_or("");
                        let bu = body["user_id"].as_str().and_then(parse_uuid_text);
                        if !ok || bn != name || bu != Some(uuid) || body["profile_properties"] != props_json(&props) {
                            bad("issued-cookie-identity", format!("issued cookie (tag ok: {ok}) carries {body} but the vouched identity is ({name}, {uuid:032x}, {} properties)", props.len()));
                        }
                    }
                }
            }
            if s.routing {
                if !matches!(obs.packets.last(), Some((_, Pkt::Transfer { .. }))) {
                    bad("authenticated-client-not-transferred", format!("packets {:?} result {:?}", obs.kinds(), obs.result));
                }
            } else if obs.has("Transfer") {
                bad("transfer-without-target", "Transfer although no target".into());
            }
        }
    }
    // whenever the service is consulted it is asked with the connection's own secret and key, about the claim
    for c in &auth_calls {
        if let Call::Auth { secret, pubkey, name, uuid, .. } = c {
            let enc_req_key = obs.packets.iter().find_map(|(_, p)| if let Pkt::EncryptionRequest { public_key, .. } = p { Some(public_key.clone()) } else { None });
            let secret_expected: Vec<u8> = match enc_of(s, &[]) {
                EncKind::SecretLen(n) => (0..n).map(|i| case.secret[i % 16]).collect(),
                _ => case.secret.to_vec(),
            };
            if *secret != secret_expected {
                bad("authentication-asked-with-other-secret", format!("service asked with secret {} but the client sent {}", common::hex(secret), common::hex(&secret_expected)));
            }
            if Some(pubkey.clone()) != enc_req_key {
                bad("authentication-asked-with-other-key", "public key passed to the service differs from the one in the Encryption Request".into());
            }
            if *name != cn || *uuid != cu {
                bad("authentication-asked-about-other-user", format!("service asked about ({name}, {uuid:032x}), the client claimed ({cn}, {cu:032x})"));
            }
        }
    }
    v
}

fn specs(thorough: bool) -> Vec<Spec> {
    let intents = ["login", "login-secret", "transfer-nosecret", "transfer-nocookie", "transfer-cookie", "transfer-cookie-other-ip", "transfer-cookie-expired", "transfer-cookie-forged", "transfer-cookie-forged-empty-key", "transfer-cookie-forged-first-line", "transfer-cookie-forged-trimmed"];
    let mut encs: Vec<String> = ["honest", "wrong-token", "stale-token", "other-key", "secret-garbage", "token-garbage"].iter().map(|s| s.to_string()).collect();
    for n in [0usize, 1, 127, 128, 129, 256] {
        encs.push(format!("garbage-{n}"));
    }
    for n in [0usize, 15, 17, 32] {
        encs.push(format!("secret-len-{n}"));
    }
    for n in [0usize, 1, 31] {
        encs.push(format!("token-prefix-{n}"));
    }
    for n in [1usize, 32] {
        encs.push(format!("token-extended-{n}"));
    }
    let verdicts = ["claim", "other-name", "other-uuid", "props-1", "props-2", "props-big", "all-differ", "err"];
    let claims: Vec<&str> = if thorough { vec!["ascii", "unicode", "nil-uuid"] } else { vec!["ascii"] };
    let mut out = vec![];
    for intent in intents {
        for enc in &encs {
            for verdict in verdicts {
                for routing in [true, false] {
                    for claim in &claims {
                        for transport in ["plain", "one-byte", "slow-auth", "auth-8s", "auth-never", "slow-routing", "enc-13h"] {
                            out.push(Spec { intent: intent.into(), enc: enc.clone(), verdict: verdict.into(), routing, claim: claim.to_string(), transport: transport.into() });
                        }
                    }
                }
            }
        }
    }
    out
}

/// a token issued on another (completed) connection
fn stale_token() -> Vec<u8> {
    let mut c = Case::default();
    c.script = Login::default().steps();
    let obs = crate::sim::run(&c);
    obs.token.unwrap_or_else(|| common::machinery("C01: could not obtain a token from a first connection"))
}

pub fn run(cli: Cli) -> ! {
    let rep = Report::new("C01", cli.tier, "model_checking");
    let stale = stale_token();
    if let Some(case) = cli.replay.clone().filter(|c| c.get("earlier").is_none() && c.get("issued").is_none()) {
        let s: Spec = serde_json::from_value(case["spec"].clone()).unwrap_or_else(|e| common::machinery(&format!("bad replay: {e}")));
        let c = build(&s, &stale);
        let obs = crate::sim::run(&c);
        let obs2 = crate::sim::run(&build(&s, &stale));
        if obs.kinds() != obs2.kinds() || obs.result.kind() != obs2.result.kind() {
            common::machinery("two replays of the same case differ");
        }
        println!("spec: {}", serde_json::to_string(&s).unwrap());
        println!("expected identity: {:?}", expected_identity(&s).map(|(n, u, p)| (n, format!("{u:032x}"), p.len())));
        println!("observed: {}", serde_json::to_string_pretty(&obs.to_json()).unwrap());
        for (k, t) in judge(&s, &c, &obs) {
            rep.violation(Violation { key: k, text: t, replay: case.clone(), weight: 0 });
        }
        rep.set("states", json!(1));
        rep.set("transitions", json!(obs.packets.len().max(1)));
        rep.set("traces_validated_against_impl", json!(1));
        rep.finish();
    }
    core(&rep, cli.tier.thorough());
    rep.finish()
}

/// The sweep over the virtual transport (everything but the replay of one case). netsim's C01 runs it and adds
/// whole connections whose authentication service is the real MojangAdapter talking to a mock session server.
pub fn core(rep: &Report, thorough: bool) {
    let stale = stale_token();
    // Two connections in one process, one after the other: the first (identity "Earlier_One") ends badly with a
    // clientbound frame stuck in the transport; the fresh connection that follows must not be sent anything that
    // was produced for the first (sequential, before the parallel sweep).
    {
        let hist = crate::sim::after_an_aborted_connection(Some(b"earlier-secret".to_vec()));
        for (label, _first, _second, alone, after) in &hist {
            let foreign = after.packets.iter().any(|(_, p)| match p {
                Pkt::LoginSuccess { name, .. } => name == "Earlier_One",
                Pkt::StoreCookie { payload, .. } => String::from_utf8_lossy(payload).contains("Earlier_One"),
                _ => false,
            });
            if foreign {
                rep.violation(Violation { key: "identity-of-another-connection".into(), text: format!("{label}: the second connection was sent a packet made for the first one's identity: {:?}", after.kinds()), replay: json!({"earlier": label}), weight: 5 });
            } else if let Some(d) = crate::sim::differs_from_alone(alone, after) {
                rep.violation(Violation { key: "packet-of-an-earlier-connection".into(), text: format!("{label}: {d}"), replay: json!({"earlier": label}), weight: 7 });
            }
        }
        rep.set("histories_after_an_aborted_connection", json!(hist.len()));
    }
    // The cookie the router itself issued (expiry 1 s), presented 2.1 s later while the authentication service is
    // down: it vouches for nobody any more, nothing may be granted.
    {
        let secret = b"issued-cookie-secret".to_vec();
        let mut first = Case::default();
        first.cfg.auth_secret = Some(secret.clone());
        first.cfg.expiry = 1;
        first.script = Login::default().steps();
        let o1 = crate::sim::run(&first);
        let issued = o1.packets.iter().find_map(|(_, p)| match p {
            Pkt::StoreCookie { key, payload } if key == "passage:authentication" => Some(payload.clone()),
            _ => None,
        });
        if let Some(cookie) = issued {
            for (label, auth) in [("service-down", AuthPlan::Err), ("service-vouches-for-another", AuthPlan::Profile { name: "Vouched_Now".into(), uuid: 0x7777_0000_0000_4000_8000_0000_0000_7777, props: vec![] })] {
                let mut second = Case::default();
                second.cfg.auth_secret = Some(secret.clone());
                second.cfg.expiry = 1;
                second.script = Login { intent: 3, auth_cookie: Some(Some(cookie.clone())), name: "Claims_Again".into(), ..Default::default() }.steps();
                let at = second.script.iter().position(|st| matches!(&st.act, Act::Cookie { key, .. } if key == "passage:authentication")).unwrap_or(0);
                if label == "service-down" {
                    second.script.insert(at, st(When::Idle, Act::RealSleep(2_100)));
                }
                second.adapters.auth = auth;
                let o2 = crate::sim::run(&second);
                let granted: Vec<&str> = o2.kinds().into_iter().filter(|k| matches!(*k, "LoginSuccess" | "StoreCookie" | "Transfer")).collect();
                let under = o2.packets.iter().find_map(|(_, p)| if let Pkt::LoginSuccess { name, .. } = p { Some(name.clone()) } else { None });
                let bad = match label {
                    "service-down" => !granted.is_empty() || !o2.result.is_err(),
                    // (presented at once the cookie is still good: either it is honoured or the service's verdict is used - never the claim)
                    _ => under.as_deref().is_some_and(|n| n == "Claims_Again"),
                };
                if bad {
                    rep.violation(Violation {
                        key: format!("router-issued-cookie:{label}"),
                        text: format!("the cookie issued on a first connection (expiry 1 s) presented {} ({label}): granted {granted:?} under {under:?}, result {:?}", if label == "service-down" { "2.1 s later" } else { "at once" }, o2.result),
                        replay: json!({"issued": label}),
                        weight: 6,
                    });
                }
            }
        }
    }
    // Two connections served side by side by one thread, in every stage-wise interleaving: each must be judged
    // exactly as when it is served alone (whatever one connection's login keeps anywhere but in itself - a
    // token, a key, a verdict, a cookie - must not reach the other).
    {
        let sp = |intent: &str, enc: &str, verdict: &str, claim: &str| Spec { intent: intent.into(), enc: enc.into(), verdict: verdict.into(), routing: true, claim: claim.into(), transport: "plain".into() };
        let mut menu: Vec<(Spec, Case)> = vec![];
        for s in [
            sp("login", "honest", "all-differ", "ascii"),
            sp("login", "honest", "other-name", "unicode"),
            sp("login-secret", "honest", "props-2", "nil-uuid"),
            sp("transfer-cookie", "honest", "err", "ascii"),
            sp("transfer-cookie-forged", "honest", "other-uuid", "unicode"),
            sp("login", "wrong-token", "claim", "ascii"),
            sp("login", "honest", "err", "unicode"),
            sp("transfer-nocookie", "stale-token", "claim", "ascii"),
        ] {
            let c = build(&s, &stale);
            menu.push((s, c));
        }
        let (runs, busy) = crate::sim::judge_in_company(rep, &menu, &|s, c, o| judge(s, c, o));
        rep.require("pairs of connections served side by side in which both got past the handshake", busy, 1000);
        rep.set("pairs_of_connections_side_by_side", json!(runs));
    }
    // the n-th connection of a process is served like the first (5 000 logins one after the other; the ones around
    // powers of two and the last are judged)
    {
        let keep: Vec<usize> = vec![0, 1, 2, 3, 62, 63, 64, 65, 254, 255, 256, 257, 258, 1022, 1023, 1024, 1025, 4094, 4095, 4096, 4097, 4998, 4999];
        let many = crate::sim::after_many_connections(5_000, &keep, b"many-connections-secret");
        for (i, case, obs) in &many {
            for (aspect, text) in crate::sim::many_connections_faults(*i, case, obs, b"many-connections-secret") {
                if aspect == "identity" {
                    rep.violation(Violation { key: "identity-of-the-nth-connection".into(), text, replay: json!({"earlier": "many-connections", "index": i}), weight: 9 });
                }
            }
        }
        rep.set("connections_of_one_process_one_after_the_other", json!(5_000));
    }
    let all = specs(thorough);
    let distinct: Mutex<HashSet<String>> = Mutex::new(HashSet::new());
    let admitted = AtomicU64::new(0);
    let refused = AtomicU64::new(0);
    let transitions = AtomicU64::new(0);
    par_for(all.len(), |i| {
        let s = &all[i];
        let case = build(s, &stale);
        let obs = crate::sim::run(&case);
        transitions.fetch_add(obs.packets.len() as u64 + obs.calls.len() as u64 + 1, Ordering::Relaxed);
        if obs.has("LoginSuccess") {
            admitted.fetch_add(1, Ordering::Relaxed);
        } else {
            refused.fetch_add(1, Ordering::Relaxed);
        }
        distinct.lock().unwrap().insert(format!("{:?}|{}|{:?}", obs.kinds(), obs.result.kind(), obs.calls.iter().map(|c| c.kind()).collect::<Vec<_>>()));
        for (k, t) in judge(s, &case, &obs) {
            rep.violation(Violation { key: k, text: format!("{t}; spec {}", serde_json::to_string(s).unwrap()), replay: json!({"spec": s}), weight: i as u64 });
        }
    });
    // determinism of the machinery: first and last case twice
    for s in [&all[0], &all[all.len() - 1]] {
        let (a, b) = (crate::sim::run(&build(s, &stale)), crate::sim::run(&build(s, &stale)));
        if a.kinds() != b.kinds() || a.result.kind() != b.result.kind() || a.calls.len() != b.calls.len() {
            common::machinery("two replays of the same case differ");
        }
    }
    let d = distinct.lock().unwrap().len() as u64;
    rep.require("admitted connections", admitted.load(Ordering::Relaxed), 50);
    rep.require("refused connections", refused.load(Ordering::Relaxed), 50);
    rep.require("distinct observations", d, 8);
    rep.set("states", json!(all.len()));
    rep.set("transitions", json!(transitions.load(Ordering::Relaxed)));
    rep.set("traces_validated_against_impl", json!(all.len()));
    rep.set("evaluations", json!(all.len()));
    rep.set("distinct_nontrivial", json!(d));
    rep.set("admitted", json!(admitted.load(Ordering::Relaxed)));
    rep.set("refused", json!(refused.load(Ordering::Relaxed)));
    rep.set("exhaustive", json!(true));
    rep.set("rule", json!("full product intent(11, six of them with a genuine-but-inapplicable cookie of another identity or one forged under another key, the empty key, a line of the two-line secret or its trimmed form) x encryption response(21) x authentication verdict(7) x routing(2) x transport/latency variant(7: plain, one byte at a time, authentication taking 8 s / 17 s / longer than the horizon, routing taking 34 s, Encryption Response sent 13 h after the request) [x claimed identity shape(3) in thorough]; one connection per element plus one prior connection that supplies the stale token; a state is the script reaching it"));
    rep.sample(json!({"spec": all[0]}));
    rep.sample(json!({"spec": Spec { intent: "transfer-cookie".into(), enc: "honest".into(), verdict: "err".into(), routing: true, claim: "ascii".into(), transport: "plain".into() }, "expect": "admitted as the cookie's identity, service not called"}));
    rep.sample(json!({"spec": Spec { intent: "login".into(), enc: "token-prefix-1".into(), verdict: "claim".into(), routing: true, claim: "ascii".into(), transport: "plain".into() }, "expect": "nothing granted"}));
    rep.assume("RSA, AES, HMAC crates are trusted primitives (the client side uses the rsa crate to encrypt; CFB8 and HMAC are re-implemented)");
    rep.assume("'every client byte stream' is covered as every script over the stated alphabet; arbitrary byte noise is C04's subject");
}
