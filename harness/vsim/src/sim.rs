//! E1 core: virtual transport (`VStream`), reactive client model, scripted adapters and the
//! function that runs one real `Connection::listen()` under the paused clock.
#![allow(dead_code)]

use crate::alloc;
use common::refs::cfb8::Cfb8;
use common::refs::codec::{self, Phase, Pkt};
use passage_adapters::authentication::{AuthenticationAdapter, Profile, ProfileProperty};
use passage_adapters::discovery::DiscoveryAdapter;
use passage_adapters::filter::FilterAdapter;
use passage_adapters::status::StatusAdapter;
use passage_adapters::strategy::StrategyAdapter;
use passage_adapters::{FixedLocalizationAdapter, Protocol, ServerPlayer, ServerPlayers, ServerStatus, ServerVersion, Target};
use passage_protocol::connection::Connection;
use rsa::pkcs8::DecodePublicKey;
use rsa::rand_core::UnwrapErr;
use rsa::{Pkcs1v15Encrypt, RsaPrivateKey, RsaPublicKey};
use serde_json::{Value, json};
use std::collections::{HashMap, VecDeque};
use std::future::Future;
use std::net::SocketAddr;
use std::pin::Pin;
use std::sync::{Arc, LazyLock, Mutex};
use std::task::{Context, Poll};
use std::time::Duration;
use tokio::io::{AsyncRead, AsyncWrite, ReadBuf};
use tokio::time::{Instant, Sleep};
use uuid::Uuid;

pub type Ms = u64;

// =======================================================================================
// case description
// =======================================================================================

#[derive(Clone, Debug)]
pub struct ConnCfg {
    pub auth_secret: Option<Vec<u8>>,
    pub max_packet_length: i32,
    pub expiry: u64,
    pub client_addr: SocketAddr,
}

impl Default for ConnCfg {
    fn default() -> Self {
        Self { auth_secret: None, max_packet_length: 10_000, expiry: 21_600, client_addr: "198.51.100.7:40123".parse().unwrap() }
    }
}

#[derive(Clone, Debug, PartialEq, Eq, PartialOrd, Ord)]
pub struct TargetSpec {
    pub id: String,
    pub addr: SocketAddr,
    pub meta: Vec<(String, String)>,
}

impl TargetSpec {
    pub fn new(id: &str, addr: &str) -> Self {
        Self { id: id.into(), addr: addr.parse().expect("addr"), meta: vec![] }
    }
    pub fn with_meta(mut self, k: &str, v: &str) -> Self {
        self.meta.push((k.into(), v.into()));
        self.meta.sort();
        self
    }
    pub fn to_target(&self) -> Target {
        Target { identifier: self.id.clone(), address: self.addr, meta: self.meta.iter().cloned().collect::<HashMap<_, _>>() }
    }
    pub fn from_target(t: &Target) -> Self {
        let mut meta: Vec<(String, String)> = t.meta.iter().map(|(k, v)| (k.clone(), v.clone())).collect();
        meta.sort();
        Self { id: t.identifier.clone(), addr: t.address, meta }
    }
    pub fn to_json(&self) -> Value {
        json!({"id": self.id, "addr": self.addr.to_string(), "meta": self.meta})
    }
}

#[derive(Clone, Debug, PartialEq)]
pub struct Prop {
    pub name: String,
    pub value: String,
    pub signature: Option<String>,
}

#[derive(Clone, Debug)]
pub enum AuthPlan {
    Profile { name: String, uuid: u128, props: Vec<Prop> },
    EchoClaim,
    Err,
}

#[derive(Clone, Debug)]
pub enum DiscPlan {
    Targets(Vec<TargetSpec>),
    Err,
}

#[derive(Clone, Debug)]
pub enum FilterPlan {
    Identity,
    Keep(Vec<usize>),
    Reverse,
    Empty,
    Foreign(TargetSpec),
    Err,
}

#[derive(Clone, Debug)]
pub enum StratPlan {
    Pick(usize),
    None,
    Foreign(TargetSpec),
    Err,
}

#[derive(Clone, Debug)]
pub enum StatusPlan {
    None,
    Minimal,
    Full,
    Err,
    /// like Minimal, with a favicon of this many characters (the answer can be made as long as a status string may be)
    Favicon(usize),
}

#[derive(Clone, Debug)]
pub struct AdapterPlan {
    pub status: StatusPlan,
    pub status_ms: Ms,
    pub auth: AuthPlan,
    pub auth_ms: Ms,
    pub disc: DiscPlan,
    pub disc_ms: Ms,
    pub filter: FilterPlan,
    pub filter_ms: Ms,
    pub strat: StratPlan,
    pub strat_ms: Ms,
    pub loc_default: String,
    pub loc_messages: Vec<(String, Vec<(String, String)>)>,
}

pub fn default_messages() -> Vec<(String, Vec<(String, String)>)> {
    vec![
        (
            "en".into(),
            vec![
                ("disconnect_timeout".into(), "{\"text\":\"timeout-en\"}".into()),
                ("disconnect_no_target".into(), "{\"text\":\"no-target-en\"}".into()),
            ],
        ),
        (
            "de".into(),
            vec![
                ("disconnect_timeout".into(), "{\"text\":\"timeout-de\"}".into()),
                ("disconnect_no_target".into(), "{\"text\":\"no-target-de\"}".into()),
            ],
        ),
    ]
}

impl Default for AdapterPlan {
    fn default() -> Self {
        Self {
            status: StatusPlan::Minimal,
            status_ms: 0,
            auth: AuthPlan::EchoClaim,
            auth_ms: 0,
            disc: DiscPlan::Targets(vec![TargetSpec::new("t1", "10.1.2.3:25565")]),
            disc_ms: 0,
            filter: FilterPlan::Identity,
            filter_ms: 0,
            strat: StratPlan::Pick(0),
            strat_ms: 0,
            loc_default: "en_US".into(),
            loc_messages: default_messages(),
        }
    }
}

#[derive(Clone, Debug)]
pub enum When {
    /// when the server is waiting for input and everything sent so far was consumed
    Idle,
    /// `ms` after the server became idle
    IdleAfter(Ms),
    /// together with the previous step (same instant, pipelined)
    With,
}

#[derive(Clone, Debug)]
pub enum EncKind {
    Honest,
    /// 32 other bytes as the token
    WrongToken,
    /// the token given here (e.g. issued on a previous connection)
    Token(Vec<u8>),
    /// both fields encrypted to another RSA key
    OtherKey,
    /// both fields are `n` arbitrary bytes (no RSA structure)
    Garbage(usize),
    /// secret of `n` bytes (honest token)
    SecretLen(usize),
    /// honest token, secret field garbage
    SecretGarbage,
    /// honest secret, token field garbage
    TokenGarbage,
    /// honest secret, token truncated to `n` bytes before encryption
    TokenPrefix(usize),
    /// honest secret, token extended by `n` extra bytes before encryption
    TokenExtended(usize),
}

#[derive(Clone, Debug)]
pub enum Act {
    Handshake { proto: i32, host: String, port: u16, next: i32 },
    StatusRequest,
    Ping(u64),
    LoginStart { name: String, uuid: u128 },
    /// login-phase Cookie Response
    Cookie { key: String, payload: Option<Vec<u8>> },
    EncResponse(EncKind),
    LoginAck,
    ClientInfo { locale: String },
    /// an arbitrary frame (id, body)
    Frame { id: i32, body: Vec<u8> },
    /// raw bytes (no framing added); encrypted like everything else once encryption is on
    Raw(Vec<u8>),
    /// echo of the n-th keep-alive received (used by scripts; the echo policy covers the usual cases)
    KeepAlive(u64),
    /// the client hangs up
    Eof,
    /// the client's connection is reset: the next read fails with ConnectionReset
    Reset,
    /// the client does nothing for this many milliseconds of REAL time (the thread sleeps; virtual time
    /// stands still). For the places where the code under test reads the wall clock (cookie timestamps).
    RealSleep(u64),
}

#[derive(Clone, Debug)]
pub struct Step {
    pub when: When,
    pub act: Act,
}

pub fn st(when: When, act: Act) -> Step {
    Step { when, act }
}

#[derive(Clone, Debug)]
pub enum Echo {
    Prompt,
    Delay(Ms),
    Never,
    WrongId,
    Twice,
    /// prompt for the first k keep-alives, silent afterwards
    PromptFirst(usize),
    /// delay for the first k, never afterwards
    DelayFirst(usize, Ms),
}

#[derive(Clone, Debug)]
pub enum Pause {
    /// one `Pending` with an immediate wake
    Yield,
    /// the following bytes arrive `ms` later
    Ms(Ms),
    /// the following bytes arrive at absolute virtual time `ms` (if that is later)
    Until(Ms),
}

#[derive(Clone, Debug)]
pub struct Split {
    /// absolute offset in the client's byte stream
    pub offset: usize,
    pub pause: Pause,
}

#[derive(Clone, Debug)]
pub enum WStep {
    Accept(usize),
    Yield,
    Sleep(Ms),
    /// `Pending` until absolute virtual time
    Until(Ms),
    /// from now on every write is answered `Ok(0)` (the peer takes nothing any more)
    Zero,
    /// from now on every write fails with `BrokenPipe`
    Fail,
}

#[derive(Clone, Debug)]
pub struct WriteDev {
    /// index of the clientbound write_all (frame) this applies to
    pub frame: usize,
    pub prog: Vec<WStep>,
}

#[derive(Clone, Debug, Default)]
pub struct Transport {
    pub read_chunk: Option<usize>,
    pub write_chunk: Option<usize>,
    pub splits: Vec<Split>,
    pub writes: Vec<WriteDev>,
    /// the client writes the length prefix of every frame it sends with this many bytes (0 = the shortest form):
    /// a VarInt may carry leading zero groups, `81 00` is 1 as much as `01` is
    pub sb_len_pad: usize,
}

#[derive(Clone, Debug)]
pub struct Case {
    pub cfg: ConnCfg,
    pub adapters: AdapterPlan,
    pub script: Vec<Step>,
    pub echo: Echo,
    pub unsolicited_every: Option<Ms>,
    pub transport: Transport,
    pub rng_seed: u64,
    pub horizon_ms: Ms,
    /// 16-byte shared secret the honest client uses
    pub secret: [u8; 16],
    /// the client sends exactly what the script says (searches over explicit packet histories); otherwise it also
    /// answers a Cookie Request the script did not foresee before it turns to the Encryption Response
    pub strict_script: bool,
}

impl Default for Case {
    fn default() -> Self {
        Self {
            cfg: ConnCfg::default(),
            adapters: AdapterPlan::default(),
            script: vec![],
            echo: Echo::Prompt,
            unsolicited_every: None,
            transport: Transport::default(),
            rng_seed: 0,
            horizon_ms: 200_000,
            secret: *b"0123456789abcdef",
            strict_script: false,
        }
    }
}

// =======================================================================================
// observation
// =======================================================================================

#[derive(Clone, Debug, PartialEq)]
pub enum Call {
    Status { t: Ms, client: SocketAddr, host: String, port: u16, proto: i32 },
    Auth { t: Ms, client: SocketAddr, host: String, port: u16, proto: i32, name: String, uuid: u128, secret: Vec<u8>, pubkey: Vec<u8> },
    Discover { t: Ms },
    Filter { t: Ms, client: SocketAddr, host: String, port: u16, proto: i32, name: String, uuid: u128, targets: Vec<TargetSpec> },
    Select { t: Ms, client: SocketAddr, host: String, port: u16, proto: i32, name: String, uuid: u128, targets: Vec<TargetSpec> },
}

impl Call {
    pub fn kind(&self) -> &'static str {
        match self {
            Call::Status { .. } => "status",
            Call::Auth { .. } => "authenticate",
            Call::Discover { .. } => "discover",
            Call::Filter { .. } => "filter",
            Call::Select { .. } => "select",
        }
    }
    pub fn t(&self) -> Ms {
        match self {
            Call::Status { t, .. } | Call::Auth { t, .. } | Call::Discover { t } | Call::Filter { t, .. } | Call::Select { t, .. } => *t,
        }
    }
    /// the call without its timestamp (for differential comparison)
    pub fn untimed(&self) -> Call {
        let mut c = self.clone();
        match &mut c {
            Call::Status { t, .. } | Call::Auth { t, .. } | Call::Discover { t } | Call::Filter { t, .. } | Call::Select { t, .. } => *t = 0,
        }
        c
    }
    pub fn to_json(&self) -> Value {
        match self {
            Call::Status { t, client, host, port, proto } => json!({"status": {"t": t, "client": client.to_string(), "host": host, "port": port, "proto": proto}}),
            Call::Auth { t, client, host, port, proto, name, uuid, secret, pubkey } => json!({"authenticate": {"t": t, "client": client.to_string(), "host": host, "port": port, "proto": proto,
                "name": name, "uuid": format!("{uuid:032x}"), "secret_hex": common::hex(secret), "pubkey_len": pubkey.len()}}),
            Call::Discover { t } => json!({"discover": {"t": t}}),
            Call::Filter { t, name, uuid, targets, .. } => json!({"filter": {"t": t, "name": name, "uuid": format!("{uuid:032x}"), "targets": targets.iter().map(|x| x.to_json()).collect::<Vec<_>>()}}),
            Call::Select { t, name, uuid, targets, .. } => json!({"select": {"t": t, "name": name, "uuid": format!("{uuid:032x}"), "targets": targets.iter().map(|x| x.to_json()).collect::<Vec<_>>()}}),
        }
    }
}

#[derive(Clone, Debug, PartialEq)]
pub enum RunResult {
    Ok,
    Err { kind: String, text: String },
    Horizon,
    Panic(String),
}

impl RunResult {
    pub fn kind(&self) -> String {
        match self {
            RunResult::Ok => "Ok".into(),
            RunResult::Err { kind, .. } => format!("Err({kind})"),
            RunResult::Horizon => "StillRunningAtHorizon".into(),
            RunResult::Panic(_) => "Panic".into(),
        }
    }
    pub fn is_err(&self) -> bool {
        matches!(self, RunResult::Err { .. })
    }
}

#[derive(Clone, Debug)]
pub struct Obs {
    pub packets: Vec<(Ms, Pkt)>,
    /// the clientbound byte stream could not be decoded from this point on
    pub garbled: Option<String>,
    /// bytes of an incomplete clientbound frame left at the end
    pub partial_tail: usize,
    pub calls: Vec<Call>,
    pub result: RunResult,
    pub end_ms: Ms,
    pub eof_at: Option<Ms>,
    /// when the transport first refused a write (WStep::Zero / WStep::Fail)
    pub write_fault_at: Option<Ms>,
    pub max_alloc: usize,
    /// bytes the client emitted / the server consumed
    pub emitted: usize,
    pub consumed: usize,
    pub wire_len: usize,
    /// (time, wire offset, len) of every accepted write
    pub writes: Vec<(Ms, usize, usize)>,
    /// token and flag of the encryption request seen by the client
    pub token: Option<Vec<u8>>,
    pub reads: usize,
    /// number of script steps the client executed
    pub steps_done: usize,
    /// wire offset at which the client switched to decryption
    pub enc_switch_at: Option<usize>,
    pub raw_wire: Vec<u8>,
    /// virtual time at which each script step was emitted
    pub step_times: Vec<Ms>,
    /// (time, id) of every keep-alive the client sent (echoes and unsolicited ones)
    pub echo_log: Vec<(Ms, u64)>,
    /// (arrival time of the last byte at the server's socket, id) of every echo
    pub echo_arrivals: Vec<(Ms, u64)>,
    /// every emission of the client: (offset in its byte stream, length, time emitted, arrival of the last byte)
    pub sb_frames: Vec<(usize, usize, Ms, Ms)>,
    /// for each entry of `packets`: when the first byte of its frame was accepted by the transport
    pub packet_started: Vec<Ms>,
}

impl Obs {
    pub fn kinds(&self) -> Vec<&'static str> {
        self.packets.iter().map(|(_, p)| p.kind()).collect()
    }
    pub fn has(&self, kind: &str) -> bool {
        self.packets.iter().any(|(_, p)| p.kind() == kind)
    }
    pub fn find(&self, kind: &str) -> Option<&Pkt> {
        self.packets.iter().map(|(_, p)| p).find(|p| p.kind() == kind)
    }
    pub fn count(&self, kind: &str) -> usize {
        self.packets.iter().filter(|(_, p)| p.kind() == kind).count()
    }
    pub fn to_json(&self) -> Value {
        json!({
            "packets": self.packets.iter().map(|(t, p)| json!({"t": t, "p": p.to_json()})).collect::<Vec<_>>(),
            "garbled": self.garbled, "partial_tail": self.partial_tail,
            "calls": self.calls.iter().map(|c| c.to_json()).collect::<Vec<_>>(),
            "result": format!("{:?}", self.result), "end_ms": self.end_ms, "eof_at": self.eof_at,
            "max_alloc": self.max_alloc, "emitted": self.emitted, "consumed": self.consumed,
        })
    }
    /// packets other than keep-alives, untimed
    pub fn trace_no_keepalive(&self) -> Vec<Pkt> {
        self.packets.iter().filter(|(_, p)| !matches!(p, Pkt::KeepAlive { .. })).map(|(_, p)| p.clone()).collect()
    }
}

// =======================================================================================
// second RSA key (for "encrypted to another key")
// =======================================================================================

pub static OTHER_KEY: LazyLock<RsaPublicKey> = LazyLock::new(|| {
    let mut rng = UnwrapErr(rand::rngs::SysRng);
    let k = RsaPrivateKey::new(&mut rng, 1024).expect("keygen");
    RsaPublicKey::from(&k)
});

fn rsa_encrypt(key: &RsaPublicKey, data: &[u8]) -> Vec<u8> {
    let mut rng = UnwrapErr(rand::rngs::SysRng);
    key.encrypt(&mut rng, Pkcs1v15Encrypt, data).expect("rsa encrypt")
}

// =======================================================================================
// shared simulation state: transport queues + client model
// =======================================================================================

struct Seg {
    data: Vec<u8>,
    pos: usize,
    at: Ms,
    yield_first: bool,
}

#[derive(Clone, Debug)]
enum Sched {
    Script(Act),
    Echo(u64),
    Unsolicited,
}

struct Shared {
    start: Option<Instant>,
    // transport, serverbound
    segs: VecDeque<Seg>,
    splits: Vec<Split>,
    read_chunk: Option<usize>,
    sb_len_pad: usize,
    emitted: usize,
    consumed: usize,
    cursor_at: Ms,
    // transport, clientbound
    wire: Vec<u8>,
    writes: Vec<(Ms, usize, usize)>,
    write_devs: Vec<WriteDev>,
    write_chunk: Option<usize>,
    frame_idx: usize,
    frame_remaining: Option<usize>,
    prog_pos: usize,
    // client
    script: Vec<Step>,
    next_step: usize,
    script_pending: bool,
    /// login-phase Cookie Responses sent so far
    cookie_answers: usize,
    strict_script: bool,
    echo: Echo,
    unsolicited_every: Option<Ms>,
    unsolicited_sent: usize,
    enc: Option<Cfb8>,
    dec: Option<Cfb8>,
    enc_switch_at: Option<usize>,
    secret: [u8; 16],
    phase: Phase,
    inbuf: Vec<u8>,
    packets: Vec<(Ms, Pkt)>,
    /// time at which the first byte of each decoded packet's frame was accepted by the transport
    packet_started: Vec<Ms>,
    frame_started: Option<Ms>,
    garbled: Option<String>,
    token: Option<Vec<u8>>,
    server_key: Option<Vec<u8>>,
    keepalives: Vec<u64>,
    scheduled: Vec<(Ms, u64, Sched)>,
    seq: u64,
    hung_up: bool,
    reset: bool,
    write_fault_at: Option<Ms>,
    eof_at: Option<Ms>,
    reads: usize,
    steps_done: usize,
    step_times: Vec<Ms>,
    echo_log: Vec<(Ms, u64)>,
    echo_arrivals: Vec<(Ms, u64)>,
    sb_frames: Vec<(usize, usize, Ms, Ms)>,
    // adapters
    calls: Vec<Call>,
}

enum ReadAnswer {
    Deliver(Vec<u8>),
    Eof,
    /// the connection was reset by the peer: the read fails
    Reset,
    Yield,
    SleepUntil(Ms),
    Stall,
}

impl Shared {
    fn now(&self) -> Ms {
        self.start.map(|s| s.elapsed().as_millis() as Ms).unwrap_or(0)
    }

    // ---- client: emitting bytes into the transport ----------------------------------

    fn emit_bytes(&mut self, plain: &[u8], g: Ms) {
        let data = match &mut self.enc {
            Some(e) => e.encrypt(plain),
            None => plain.to_vec(),
        };
        let mut start = 0;
        let base = self.emitted;
        let mut cuts: Vec<(usize, Pause)> =
            self.splits.iter().filter(|s| s.offset >= base && s.offset < base + data.len()).map(|s| (s.offset - base, s.pause.clone())).collect();
        cuts.sort_by_key(|c| c.0);
        let mut pieces: Vec<(usize, usize, Option<Pause>)> = vec![];
        let mut pending: Option<Pause> = None;
        for (off, p) in cuts {
            if off > start {
                pieces.push((start, off, pending.take()));
                start = off;
            }
            // several splits at one offset: the last one wins for Until/Ms, Yield is kept if alone
            pending = Some(p);
        }
        pieces.push((start, data.len(), pending.take()));
        for (a, b, pause) in pieces {
            if a == b {
                continue;
            }
            let mut at = g.max(self.cursor_at);
            let mut y = false;
            match pause {
                Some(Pause::Yield) => y = true,
                Some(Pause::Ms(d)) => at += d,
                Some(Pause::Until(t)) => at = at.max(t),
                None => {}
            }
            self.cursor_at = at;
            self.segs.push_back(Seg { data: data[a..b].to_vec(), pos: 0, at, yield_first: y });
        }
        self.sb_frames.push((self.emitted, data.len(), g, self.cursor_at));
        self.emitted += data.len();
    }

    /// one frame as the client model built it; its length prefix is re-written in the padded form if the case says so
    fn emit_frame(&mut self, framed: &[u8], g: Ms) {
        let want = self.sb_len_pad.min(5);
        if want == 0 {
            return self.emit_bytes(framed, g);
        }
        let Ok((len, used)) = codec::get_varint(framed) else { return self.emit_bytes(framed, g) };
        if used >= want || len < 0 {
            return self.emit_bytes(framed, g);
        }
        let mut out = vec![];
        let mut v = len as u32;
        for k in 0..want {
            let group = (v & 0x7f) as u8;
            v >>= 7;
            out.push(if k + 1 < want { group | 0x80 } else { group });
        }
        out.extend_from_slice(&framed[used..]);
        self.emit_bytes(&out, g)
    }

    fn emit_act(&mut self, act: &Act, g: Ms) {
        match act {
            Act::Handshake { proto, host, port, next } => {
                self.emit_frame(&codec::sb_handshake(*proto, host, *port, *next), g);
                self.phase = match next {
                    1 => Phase::Status,
                    2 | 3 => Phase::Login,
                    _ => Phase::Handshake,
                };
            }
            Act::StatusRequest => self.emit_frame(&codec::sb_status_request(), g),
            Act::Ping(p) => self.emit_frame(&codec::sb_ping(*p), g),
            Act::LoginStart { name, uuid } => self.emit_frame(&codec::sb_login_start(name, *uuid), g),
            Act::Cookie { key, payload } => {
                self.emit_frame(&codec::sb_login_cookie_response(key, payload.as_deref()), g);
                self.cookie_answers += 1;
            }
            Act::EncResponse(kind) => {
                let (s, t) = self.enc_response(kind);
                self.emit_frame(&codec::sb_encryption_response(&s, &t), g);
                // from here on the client speaks ciphertext (if it has a usable secret)
                let secret = match kind {
                    EncKind::SecretLen(n) if *n != 16 => None,
                    _ => Some(self.secret),
                };
                if let (Some(sec), true) = (secret, self.enc.is_none()) {
                    self.enc = Some(Cfb8::new(&sec));
                    self.dec = Some(Cfb8::new(&sec));
                    self.enc_switch_at = Some(self.wire.len());
                }
            }
            Act::RealSleep(ms) => std::thread::sleep(std::time::Duration::from_millis(*ms)),
            Act::LoginAck => self.emit_frame(&codec::sb_login_ack(), g),
            Act::ClientInfo { locale } => self.emit_frame(&codec::sb_client_information(locale), g),
            Act::Frame { id, body } => self.emit_frame(&codec::frame(*id, body), g),
            Act::Raw(b) => self.emit_bytes(b, g),
            Act::KeepAlive(id) => self.emit_frame(&codec::sb_keep_alive(*id), g),
            Act::Eof => self.hung_up = true,
            Act::Reset => {
                self.hung_up = true;
                self.reset = true;
            }
        }
    }

    fn enc_response(&self, kind: &EncKind) -> (Vec<u8>, Vec<u8>) {
        let key = self.server_key.as_ref().and_then(|d| RsaPublicKey::from_public_key_der(d).ok());
        let token = self.token.clone().unwrap_or_else(|| vec![0; 32]);
        let Some(key) = key else {
            // no encryption request seen: send something of the right shape
            return (vec![1; 128], vec![2; 128]);
        };
        let honest_secret = || rsa_encrypt(&key, &self.secret);
        let honest_token = || rsa_encrypt(&key, &token);
        match kind {
            EncKind::Honest => (honest_secret(), honest_token()),
            EncKind::WrongToken => {
                let mut t = token.clone();
                t[0] ^= 0x80;
                t[31] ^= 0x01;
                (honest_secret(), rsa_encrypt(&key, &t))
            }
            EncKind::Token(t) => (honest_secret(), rsa_encrypt(&key, t)),
            EncKind::OtherKey => (rsa_encrypt(&OTHER_KEY, &self.secret), rsa_encrypt(&OTHER_KEY, &token)),
            EncKind::Garbage(n) => ((0..*n).map(|i| (i * 7 + 1) as u8).collect(), (0..*n).map(|i| (i * 13 + 5) as u8).collect()),
            EncKind::SecretLen(n) => {
                let s: Vec<u8> = (0..*n).map(|i| self.secret[i % 16]).collect();
                (rsa_encrypt(&key, &s), honest_token())
            }
            EncKind::SecretGarbage => ((0..128).map(|i| (i * 3 + 9) as u8).collect(), honest_token()),
            EncKind::TokenGarbage => (honest_secret(), (0..128).map(|i| (i * 5 + 2) as u8).collect()),
            EncKind::TokenPrefix(n) => (honest_secret(), rsa_encrypt(&key, &token[..(*n).min(token.len())])),
            EncKind::TokenExtended(n) => {
                let mut t = token.clone();
                t.extend((0..*n).map(|i| i as u8));
                (honest_secret(), rsa_encrypt(&key, &t))
            }
        }
    }

    fn schedule(&mut self, at: Ms, s: Sched) {
        self.seq += 1;
        self.scheduled.push((at, self.seq, s));
        self.scheduled.sort_by_key(|x| (x.0, x.1));
    }

    /// executes every scheduled action that is due
    fn client_tick(&mut self, now: Ms) {
        while let Some((at, _, _)) = self.scheduled.first() {
            if *at > now {
                break;
            }
            let (at, _, s) = self.scheduled.remove(0);
            match s {
                Sched::Script(act) => {
                    self.emit_act(&act, at);
                    self.steps_done += 1;
                    self.step_times.push(at);
                    self.script_pending = false;
                    self.run_with_steps(at);
                }
                Sched::Echo(id) => {
                    self.emit_frame(&codec::sb_keep_alive(id), at);
                    self.echo_log.push((at, id));
                    self.echo_arrivals.push((self.cursor_at, id));
                }
                Sched::Unsolicited => {
                    let uid = 0xdead_beef_0000 + self.unsolicited_sent as u64;
                    self.emit_frame(&codec::sb_keep_alive(uid), at);
                    self.echo_log.push((at, uid));
                    self.unsolicited_sent += 1;
                    if let Some(every) = self.unsolicited_every {
                        if self.unsolicited_sent < 40 {
                            self.schedule(at + every, Sched::Unsolicited);
                        }
                    }
                }
            }
        }
    }

    /// emits the steps marked `With` that follow the step just executed
    fn run_with_steps(&mut self, g: Ms) {
        while self.next_step < self.script.len() && matches!(self.script[self.next_step].when, When::With) {
            let act = self.script[self.next_step].act.clone();
            self.next_step += 1;
            self.emit_act(&act, g);
            self.steps_done += 1;
            self.step_times.push(g);
        }
    }

    /// the server is waiting and nothing is queued: lets the script advance. Returns true if
    /// something was emitted or scheduled.
    fn client_on_idle(&mut self, now: Ms) -> bool {
        if self.script_pending || self.next_step >= self.script.len() {
            return false;
        }
        // A client answers every Cookie Request it is sent. The script only knows the requests the present router
        // makes; if the server waits with a Cookie Request unanswered while the script's next move is the Encryption
        // Response (and no Encryption Request has arrived), the client answers "no such cookie" first - as a real
        // client would. (Scripts that deliberately send something else in that place are left alone.)
        if !self.strict_script && matches!(self.script[self.next_step].act, Act::EncResponse(_)) && self.token.is_none() {
            let asked: Vec<String> = self.packets.iter().filter_map(|(_, p)| if let Pkt::LoginCookieRequest { key } = p { Some(key.clone()) } else { None }).collect();
            if asked.len() > self.cookie_answers {
                let key = asked[self.cookie_answers].clone();
                self.emit_frame(&codec::sb_login_cookie_response(&key, None), now);
                self.cookie_answers += 1;
                return true;
            }
        }
        let step = self.script[self.next_step].clone();
        self.next_step += 1;
        match step.when {
            When::Idle | When::With => {
                self.emit_act(&step.act, now);
                self.steps_done += 1;
                self.step_times.push(now);
                self.run_with_steps(now);
            }
            When::IdleAfter(d) => {
                self.script_pending = true;
                self.schedule(now + d, Sched::Script(step.act));
            }
        }
        true
    }

    // ---- client: receiving --------------------------------------------------------------

    fn on_wire(&mut self, bytes: &[u8], now: Ms) {
        let plain = match &mut self.dec {
            Some(d) => d.decrypt(bytes),
            None => bytes.to_vec(),
        };
        if self.garbled.is_some() {
            return;
        }
        if self.inbuf.is_empty() {
            self.frame_started = Some(now);
        }
        self.inbuf.extend_from_slice(&plain);
        let (frames, used, err) = codec::split_frames(&self.inbuf);
        for (id, body) in frames {
            let pkt = codec::decode_clientbound(self.phase, id, &body);
            self.on_packet(&pkt, now);
            self.packets.push((now, pkt));
            self.packet_started.push(self.frame_started.take().unwrap_or(now));
        }
        self.inbuf.drain(..used);
        self.frame_started = if self.inbuf.is_empty() { None } else { Some(self.frame_started.unwrap_or(now)) };
        if let Some(e) = err {
            self.garbled = Some(format!("{e:?} at undecodable bytes {}", common::hex(&self.inbuf[..self.inbuf.len().min(24)])));
        }
    }

    fn on_packet(&mut self, pkt: &Pkt, now: Ms) {
        match pkt {
            Pkt::EncryptionRequest { public_key, verify_token, .. } => {
                self.token = Some(verify_token.clone());
                self.server_key = Some(public_key.clone());
            }
            Pkt::LoginSuccess { .. } => {
                self.phase = Phase::Configuration;
                if let Some(every) = self.unsolicited_every {
                    self.schedule(now + every, Sched::Unsolicited);
                }
            }
            Pkt::KeepAlive { id } => {
                self.keepalives.push(*id);
                let n = self.keepalives.len();
                match self.echo.clone() {
                    Echo::Prompt => self.schedule(now, Sched::Echo(*id)),
                    Echo::Delay(d) => self.schedule(now + d, Sched::Echo(*id)),
                    Echo::Never => {}
                    Echo::WrongId => self.schedule(now, Sched::Echo(id.wrapping_add(1))),
                    Echo::Twice => {
                        self.schedule(now, Sched::Echo(*id));
                        self.schedule(now, Sched::Echo(*id));
                    }
                    Echo::PromptFirst(k) => {
                        if n <= k {
                            self.schedule(now, Sched::Echo(*id));
                        }
                    }
                    Echo::DelayFirst(k, d) => {
                        if n <= k {
                            self.schedule(now + d, Sched::Echo(*id));
                        }
                    }
                }
            }
            _ => {}
        }
    }

    // ---- transport answers ---------------------------------------------------------------

    fn answer_read(&mut self, cap: usize) -> ReadAnswer {
        loop {
            let now = self.now();
            self.client_tick(now);
            if let Some(seg) = self.segs.front_mut() {
                if seg.at > now {
                    return ReadAnswer::SleepUntil(seg.at);
                }
                if seg.yield_first {
                    seg.yield_first = false;
                    return ReadAnswer::Yield;
                }
                let mut n = (seg.data.len() - seg.pos).min(cap);
                if let Some(c) = self.read_chunk {
                    n = n.min(c.max(1));
                }
                let mut out = seg.data[seg.pos..seg.pos + n].to_vec();
                seg.pos += n;
                if seg.pos == seg.data.len() {
                    self.segs.pop_front();
                    // whatever else has already arrived (no segment boundary was asked for in between) is
                    // delivered by the same read, as a socket would: bursts arrive coalesced by default
                    while out.len() < cap && self.read_chunk.is_none() {
                        let Some(next) = self.segs.front_mut() else { break };
                        if next.at > now || next.yield_first {
                            break;
                        }
                        let m = (next.data.len() - next.pos).min(cap - out.len());
                        out.extend_from_slice(&next.data[next.pos..next.pos + m]);
                        next.pos += m;
                        if next.pos == next.data.len() {
                            self.segs.pop_front();
                        }
                    }
                }
                self.consumed += out.len();
                return ReadAnswer::Deliver(out);
            }
            if self.hung_up {
                if self.eof_at.is_none() {
                    self.eof_at = Some(now);
                }
                return if self.reset { ReadAnswer::Reset } else { ReadAnswer::Eof };
            }
            if self.client_on_idle(now) {
                continue;
            }
            return match self.scheduled.first() {
                Some((at, _, _)) => ReadAnswer::SleepUntil(*at),
                None => ReadAnswer::Stall,
            };
        }
    }
}

// =======================================================================================
// VStream
// =======================================================================================

pub struct VStream {
    shared: Arc<Mutex<Shared>>,
    rsleep: Option<Pin<Box<Sleep>>>,
    wsleep: Option<Pin<Box<Sleep>>>,
    reads_after_eof: u32,
}

/// prefix of the panic message with which a run is ended when the handler spins after end of stream
pub const SPIN_MARK: &str = "VERIF-SPIN";

struct Unarmed(bool);
impl Unarmed {
    fn new() -> Self {
        Unarmed(alloc::pause())
    }
}
impl Drop for Unarmed {
    fn drop(&mut self) {
        alloc::resume(self.0);
    }
}

impl AsyncRead for VStream {
    fn poll_read(self: Pin<&mut Self>, cx: &mut Context<'_>, buf: &mut ReadBuf<'_>) -> Poll<std::io::Result<()>> {
        let _g = Unarmed::new();
        let this = self.get_mut();
        loop {
            if let Some(s) = this.rsleep.as_mut() {
                match s.as_mut().poll(cx) {
                    Poll::Pending => return Poll::Pending,
                    Poll::Ready(()) => this.rsleep = None,
                }
            }
            let (ans, start) = {
                let mut sh = this.shared.lock().unwrap();
                sh.reads += 1;
                let cap = buf.remaining();
                if cap == 0 {
                    return Poll::Ready(Ok(()));
                }
                (sh.answer_read(cap), sh.start)
            };
            match ans {
                ReadAnswer::Deliver(b) => {
                    buf.put_slice(&b);
                    return Poll::Ready(Ok(()));
                }
                ReadAnswer::Reset => {
                    this.reads_after_eof += 1;
                    if this.reads_after_eof > 10_000 {
                        panic!("{SPIN_MARK}: read polled {} times after the connection was reset", this.reads_after_eof);
                    }
                    return Poll::Ready(Err(std::io::Error::from(std::io::ErrorKind::ConnectionReset)));
                }
                ReadAnswer::Eof => {
                    // a handler that keeps polling after end of stream would spin forever inside one task
                    // poll (virtual time cannot advance): end the run loudly instead of hanging the check
                    this.reads_after_eof += 1;
                    if this.reads_after_eof > 10_000 {
                        panic!("{SPIN_MARK}: read polled {} times after end of stream", this.reads_after_eof);
                    }
                    return Poll::Ready(Ok(()));
                }
                ReadAnswer::Yield => {
                    cx.waker().wake_by_ref();
                    return Poll::Pending;
                }
                ReadAnswer::Stall => return Poll::Pending,
                ReadAnswer::SleepUntil(t) => {
                    let deadline = start.expect("started") + Duration::from_millis(t);
                    this.rsleep = Some(Box::pin(tokio::time::sleep_until(deadline)));
                }
            }
        }
    }
}

impl AsyncWrite for VStream {
    fn poll_write(self: Pin<&mut Self>, cx: &mut Context<'_>, buf: &[u8]) -> Poll<std::io::Result<usize>> {
        let _g = Unarmed::new();
        let this = self.get_mut();
        if buf.is_empty() {
            return Poll::Ready(Ok(0));
        }
        loop {
            if let Some(s) = this.wsleep.as_mut() {
                match s.as_mut().poll(cx) {
                    Poll::Pending => return Poll::Pending,
                    Poll::Ready(()) => this.wsleep = None,
                }
            }
            let mut sh = this.shared.lock().unwrap();
            let now = sh.now();
            // frame tracking: a new write_all starts when the previous one was fully accepted
            if sh.frame_remaining.is_none() {
                sh.frame_remaining = Some(buf.len());
                sh.prog_pos = 0;
            }
            let frame = sh.frame_idx;
            let step = sh.write_devs.iter().find(|d| d.frame == frame).and_then(|d| d.prog.get(sh.prog_pos).cloned());
            let mut n = buf.len();
            if let Some(c) = sh.write_chunk {
                n = n.min(c.max(1));
            }
            if let Some(step) = step {
                sh.prog_pos += 1;
                match step {
                    WStep::Zero | WStep::Fail => {
                        // sticky: the same answer to every later write
                        sh.prog_pos -= 1;
                        if sh.write_fault_at.is_none() {
                            sh.write_fault_at = Some(now);
                        }
                        drop(sh);
                        this.reads_after_eof += 1;
                        if this.reads_after_eof > 10_000 {
                            panic!("{SPIN_MARK}: write polled {} times after the transport stopped taking bytes", this.reads_after_eof);
                        }
                        return if matches!(step, WStep::Zero) { Poll::Ready(Ok(0)) } else { Poll::Ready(Err(std::io::Error::from(std::io::ErrorKind::BrokenPipe))) };
                    }
                    WStep::Accept(k) => n = n.min(k.max(1)),
                    WStep::Yield => {
                        cx.waker().wake_by_ref();
                        return Poll::Pending;
                    }
                    WStep::Sleep(ms) => {
                        let deadline = sh.start.expect("started") + Duration::from_millis(now + ms);
                        drop(sh);
                        this.wsleep = Some(Box::pin(tokio::time::sleep_until(deadline)));
                        continue;
                    }
                    WStep::Until(t) => {
                        if t > now {
                            let deadline = sh.start.expect("started") + Duration::from_millis(t);
                            drop(sh);
                            this.wsleep = Some(Box::pin(tokio::time::sleep_until(deadline)));
                            continue;
                        }
                    }
                }
            }
            let off = sh.wire.len();
            sh.wire.extend_from_slice(&buf[..n]);
            sh.writes.push((now, off, n));
            let rem = sh.frame_remaining.unwrap_or(n).saturating_sub(n);
            if rem == 0 {
                sh.frame_remaining = None;
                sh.frame_idx += 1;
            } else {
                sh.frame_remaining = Some(rem);
            }
            let chunk = buf[..n].to_vec();
            sh.on_wire(&chunk, now);
            return Poll::Ready(Ok(n));
        }
    }
    fn poll_flush(self: Pin<&mut Self>, _cx: &mut Context<'_>) -> Poll<std::io::Result<()>> {
        Poll::Ready(Ok(()))
    }
    fn poll_shutdown(self: Pin<&mut Self>, _cx: &mut Context<'_>) -> Poll<std::io::Result<()>> {
        Poll::Ready(Ok(()))
    }
}

// =======================================================================================
// scripted adapters
// =======================================================================================

#[derive(Clone)]
pub struct Scripted {
    shared: Arc<Mutex<Shared>>,
    plan: Arc<AdapterPlan>,
}

impl std::fmt::Debug for Scripted {
    fn fmt(&self, f: &mut std::fmt::Formatter<'_>) -> std::fmt::Result {
        write!(f, "Scripted")
    }
}

fn unavailable(what: &'static str) -> passage_adapters::Error {
    passage_adapters::Error::AdapterUnavailable { adapter_type: what, reason: "scripted failure" }
}

async fn latency(ms: Ms) {
    if ms > 0 {
        tokio::time::sleep(Duration::from_millis(ms)).await;
    }
}

impl Scripted {
    fn log(&self, f: impl FnOnce(Ms) -> Call) {
        let _g = Unarmed::new();
        let mut sh = self.shared.lock().unwrap();
        let t = sh.now();
        sh.calls.push(f(t));
    }
}

impl StatusAdapter for Scripted {
    async fn status(&self, client_addr: &SocketAddr, server_addr: (&str, u16), protocol: Protocol) -> passage_adapters::Result<Option<ServerStatus>> {
        self.log(|t| Call::Status { t, client: *client_addr, host: server_addr.0.to_string(), port: server_addr.1, proto: protocol });
        latency(self.plan.status_ms).await;
        match self.plan.status {
            StatusPlan::None => Ok(None),
            StatusPlan::Minimal => Ok(Some(ServerStatus {
                version: ServerVersion { name: "Sim".into(), protocol: 769 },
                players: None,
                description: None,
                favicon: None,
                enforces_secure_chat: None,
            })),
            StatusPlan::Full => Ok(Some(ServerStatus {
                version: ServerVersion { name: "Sim 1.21".into(), protocol: 770 },
                players: Some(ServerPlayers { online: 3, max: 100, sample: Some(vec![ServerPlayer { name: "Not\"ch".into(), id: "069a79f4-44e9-4726-a5be-fca90e38aaf5".into() }]) }),
                description: Some(serde_json::value::RawValue::from_string("{\"text\":\"héllo \\\"motd\\\"\"}".into()).unwrap()),
                favicon: Some("data:image/png;base64,AAAA".into()),
                enforces_secure_chat: Some(true),
            })),
            StatusPlan::Err => Err(unavailable("status")),
            StatusPlan::Favicon(n) => Ok(Some(ServerStatus {
                version: ServerVersion { name: "Sim".into(), protocol: 769 },
                players: None,
                description: None,
                favicon: Some("A".repeat(n)),
                enforces_secure_chat: None,
            })),
        }
    }
}

/// what the status response must contain (compared as JSON, null == absent)
pub fn expected_status_json(plan: &StatusPlan) -> Value {
    match plan {
        StatusPlan::None | StatusPlan::Err => Value::Null,
        StatusPlan::Minimal => json!({"version": {"name": "Sim", "protocol": 769}}),
        StatusPlan::Favicon(n) => json!({"version": {"name": "Sim", "protocol": 769}, "favicon": "A".repeat(*n)}),
        StatusPlan::Full => json!({
            "version": {"name": "Sim 1.21", "protocol": 770},
            "players": {"online": 3, "max": 100, "sample": [{"name": "Not\"ch", "id": "069a79f4-44e9-4726-a5be-fca90e38aaf5"}]},
            "description": {"text": "héllo \"motd\""},
            "favicon": "data:image/png;base64,AAAA",
            "enforcesSecureChat": true,
        }),
    }
}

impl AuthenticationAdapter for Scripted {
    async fn authenticate(
        &self,
        client_addr: &SocketAddr,
        server_addr: (&str, u16),
        protocol: Protocol,
        user: (&str, &Uuid),
        shared_secret: &[u8],
        encoded_public: &[u8],
    ) -> passage_adapters::Result<Profile> {
        self.log(|t| Call::Auth {
            t,
            client: *client_addr,
            host: server_addr.0.to_string(),
            port: server_addr.1,
            proto: protocol,
            name: user.0.to_string(),
            uuid: user.1.as_u128(),
            secret: shared_secret.to_vec(),
            pubkey: encoded_public.to_vec(),
        });
        latency(self.plan.auth_ms).await;
        match &self.plan.auth {
            AuthPlan::Profile { name, uuid, props } => Ok(Profile {
                id: Uuid::from_u128(*uuid),
                name: name.clone(),
                properties: props.iter().map(|p| ProfileProperty { name: p.name.clone(), value: p.value.clone(), signature: p.signature.clone() }).collect(),
                profile_actions: vec![],
            }),
            AuthPlan::EchoClaim => Ok(Profile { id: *user.1, name: user.0.to_string(), properties: vec![], profile_actions: vec![] }),
            AuthPlan::Err => Err(unavailable("authentication")),
        }
    }
}

impl DiscoveryAdapter for Scripted {
    async fn discover(&self) -> passage_adapters::Result<Vec<Target>> {
        self.log(|t| Call::Discover { t });
        latency(self.plan.disc_ms).await;
        match &self.plan.disc {
            DiscPlan::Targets(ts) => Ok(ts.iter().map(|t| t.to_target()).collect()),
            DiscPlan::Err => Err(unavailable("discovery")),
        }
    }
}

impl FilterAdapter for Scripted {
    async fn filter(
        &self,
        client_addr: &SocketAddr,
        server_addr: (&str, u16),
        protocol: Protocol,
        user: (&str, &Uuid),
        targets: Vec<Target>,
    ) -> passage_adapters::Result<Vec<Target>> {
        self.log(|t| Call::Filter {
            t,
            client: *client_addr,
            host: server_addr.0.to_string(),
            port: server_addr.1,
            proto: protocol,
            name: user.0.to_string(),
            uuid: user.1.as_u128(),
            targets: targets.iter().map(TargetSpec::from_target).collect(),
        });
        latency(self.plan.filter_ms).await;
        match &self.plan.filter {
            FilterPlan::Identity => Ok(targets),
            FilterPlan::Keep(ix) => Ok(ix.iter().filter_map(|i| targets.get(*i).cloned()).collect()),
            FilterPlan::Reverse => Ok(targets.into_iter().rev().collect()),
            FilterPlan::Empty => Ok(vec![]),
            FilterPlan::Foreign(t) => Ok(vec![t.to_target()]),
            FilterPlan::Err => Err(unavailable("filter")),
        }
    }
}

impl StrategyAdapter for Scripted {
    async fn select(
        &self,
        client_addr: &SocketAddr,
        server_addr: (&str, u16),
        protocol: Protocol,
        user: (&str, &Uuid),
        targets: Vec<Target>,
    ) -> passage_adapters::Result<Option<Target>> {
        self.log(|t| Call::Select {
            t,
            client: *client_addr,
            host: server_addr.0.to_string(),
            port: server_addr.1,
            proto: protocol,
            name: user.0.to_string(),
            uuid: user.1.as_u128(),
            targets: targets.iter().map(TargetSpec::from_target).collect(),
        });
        latency(self.plan.strat_ms).await;
        match &self.plan.strat {
            StratPlan::Pick(i) => Ok(targets.get(*i).cloned()),
            StratPlan::None => Ok(None),
            StratPlan::Foreign(t) => Ok(Some(t.to_target())),
            StratPlan::Err => Err(unavailable("strategy")),
        }
    }
}

// =======================================================================================
// running one case
// =======================================================================================

fn classify(e: &passage_protocol::Error) -> RunResult {
    use passage_protocol::Error as E;
    let kind = match e {
        E::InternalIo(_) => "InternalIo".to_string(),
        E::Json(_) => "Json".into(),
        E::CryptographyFailed(_) => "CryptographyFailed".into(),
        E::AuthRequestFailed(_) => "AuthRequestFailed".into(),
        E::MissedKeepAlive => "MissedKeepAlive".into(),
        E::InvalidVerifyToken => "InvalidVerifyToken".into(),
        E::NoTargetFound => "NoTargetFound".into(),
        E::ConnectionClosed(_) => "ConnectionClosed".into(),
        E::IllegalPacketLength => "IllegalPacketLength".into(),
        E::IllegalEnumValue { .. } => "IllegalEnumValue".into(),
        E::UnexpectedPacketId(id) => format!("UnexpectedPacketId({id})"),
        E::InvalidEncoding => "InvalidEncoding".into(),
        E::ArrayConversionFailed => "ArrayConversionFailed".into(),
        E::Nbt(_) => "Nbt".into(),
        E::AdapterError(_) => "AdapterError".into(),
        // (a variant this harness does not know: the build must not depend on the error type being closed)
        #[allow(unreachable_patterns)]
        other => format!("{other:?}").split(['(', ' ', '{']).next().unwrap_or("Other").to_string(),
    };
    RunResult::Err { kind, text: e.to_string() }
}

fn new_shared(case: &Case) -> Arc<Mutex<Shared>> {
    Arc::new(Mutex::new(Shared {
        start: None,
        segs: VecDeque::new(),
        splits: case.transport.splits.clone(),
        read_chunk: case.transport.read_chunk,
        sb_len_pad: case.transport.sb_len_pad,
        emitted: 0,
        consumed: 0,
        cursor_at: 0,
        wire: vec![],
        writes: vec![],
        write_devs: case.transport.writes.clone(),
        write_chunk: case.transport.write_chunk,
        frame_idx: 0,
        frame_remaining: None,
        prog_pos: 0,
        script: case.script.clone(),
        next_step: 0,
        script_pending: false,
        cookie_answers: 0,
        strict_script: case.strict_script,
        echo: case.echo.clone(),
        unsolicited_every: case.unsolicited_every,
        unsolicited_sent: 0,
        enc: None,
        dec: None,
        enc_switch_at: None,
        secret: case.secret,
        phase: Phase::Handshake,
        inbuf: vec![],
        packets: vec![],
        packet_started: vec![],
        frame_started: None,
        garbled: None,
        token: None,
        server_key: None,
        keepalives: vec![],
        scheduled: vec![],
        seq: 0,
        hung_up: false,
        reset: false,
        write_fault_at: None,
        eof_at: None,
        reads: 0,
        steps_done: 0,
        step_times: vec![],
        echo_log: vec![],
        echo_arrivals: vec![],
        sb_frames: vec![],
        calls: vec![],
    }))
}

pub fn run(case: &Case) -> Obs {
    run_many(std::slice::from_ref(case)).pop().expect("one observation")
}

/// Runs several connections in ONE runtime (one thread, one virtual clock), polled in turn by one
/// task: whenever a connection's transport answers Pending the next connection runs. The seed of the
/// runtime is the first case's; a panic in any connection ends the run for all of them.
pub fn run_many(cases: &[Case]) -> Vec<Obs> {
    let shareds: Vec<Arc<Mutex<Shared>>> = cases.iter().map(new_shared).collect();
    let rt = tokio::runtime::Builder::new_current_thread()
        .enable_time()
        .start_paused(true)
        .rng_seed(tokio::runtime::RngSeed::from_bytes(&cases[0].rng_seed.to_le_bytes()))
        .build()
        .expect("runtime");
    let mut results: Vec<Option<(RunResult, Ms)>> = vec![None; cases.len()];
    {
        let (n, first) = (cases.len(), cases[0].clone());
        common::case_begin(Box::new(move || format!("{n} connection(s); the first: script {:?}, transport {:?}, configuration {:?}, echo {:?}, adapters {:?}", first.script, first.transport, first.cfg, first.echo, first.adapters)));
    }
    let outcome = std::panic::catch_unwind(std::panic::AssertUnwindSafe(|| {
        rt.block_on(async {
            let start = Instant::now();
            alloc::arm();
            let mut futs: Vec<Pin<Box<dyn Future<Output = (RunResult, Ms)>>>> = vec![];
            for (case, shared) in cases.iter().zip(&shareds) {
                shared.lock().unwrap().start = Some(start);
                let plan = Arc::new(case.adapters.clone());
                let scripted = Arc::new(Scripted { shared: shared.clone(), plan: plan.clone() });
                let messages: HashMap<String, HashMap<String, String>> =
                    plan.loc_messages.iter().map(|(l, m)| (l.clone(), m.iter().cloned().collect::<HashMap<_, _>>())).collect();
                let loca = Arc::new(FixedLocalizationAdapter::new(plan.loc_default.clone(), messages));
                let stream = VStream { shared: shared.clone(), rsleep: None, wsleep: None, reads_after_eof: 0 };
                let cfg = case.cfg.clone();
                let horizon = Duration::from_millis(case.horizon_ms);
                futs.push(Box::pin(async move {
                    let mut conn = Connection::new(stream, scripted.clone(), scripted.clone(), scripted.clone(), scripted.clone(), scripted.clone(), loca.clone())
                        .with_client_address(cfg.client_addr)
                        .with_auth_secret(cfg.auth_secret.clone())
                        .with_max_packet_length(cfg.max_packet_length)
                        .with_auth_cookie_expiry(cfg.expiry);
                    let r = tokio::time::timeout(horizon, conn.listen()).await;
                    let r = match r {
                        Ok(Ok(())) => RunResult::Ok,
                        Ok(Err(e)) => classify(&e),
                        Err(_) => RunResult::Horizon,
                    };
                    (r, start.elapsed().as_millis() as Ms)
                }));
            }
            let res = &mut results;
            std::future::poll_fn(|cx| {
                let mut pending = false;
                for (i, f) in futs.iter_mut().enumerate() {
                    if res[i].is_some() {
                        continue;
                    }
                    match f.as_mut().poll(cx) {
                        Poll::Ready(v) => res[i] = Some(v),
                        Poll::Pending => pending = true,
                    }
                }
                if pending { Poll::Pending } else { Poll::Ready(()) }
            })
            .await;
        })
    }));
    let max_alloc = alloc::disarm();
    common::case_end();
    let panic_msg = outcome.err().map(|p| p.downcast_ref::<String>().cloned().or_else(|| p.downcast_ref::<&str>().map(|s| s.to_string())).unwrap_or_else(|| "panic".into()));
    drop(rt);
    shareds
        .iter()
        .zip(results)
        .map(|(shared, r)| {
            let (result, end_ms) = match (r, &panic_msg) {
                (Some((r, e)), _) => (r, e),
                (None, Some(m)) => (RunResult::Panic(m.clone()), 0),
                (None, None) => (RunResult::Horizon, 0),
            };
            let sh = match shared.lock() {
                Ok(g) => g,
                Err(p) => p.into_inner(),
            };
            Obs {
                packets: sh.packets.clone(),
                garbled: sh.garbled.clone(),
                partial_tail: sh.inbuf.len(),
                calls: sh.calls.clone(),
                result,
                end_ms,
                eof_at: sh.eof_at,
                write_fault_at: sh.write_fault_at,
                max_alloc,
                emitted: sh.emitted,
                consumed: sh.consumed,
                wire_len: sh.wire.len(),
                writes: sh.writes.clone(),
                token: sh.token.clone(),
                reads: sh.reads,
                steps_done: sh.steps_done,
                enc_switch_at: sh.enc_switch_at,
                raw_wire: sh.wire.clone(),
                step_times: sh.step_times.clone(),
                echo_log: sh.echo_log.clone(),
                echo_arrivals: sh.echo_arrivals.clone(),
                sb_frames: sh.sb_frames.clone(),
                packet_started: sh.packet_started.clone(),
            }
        })
        .collect()
}

// =======================================================================================
// script builders
// =======================================================================================

pub const NAME1: &str = "Claimed_One";
pub const UUID1: u128 = 0x069a79f4_44e9_4726_a5be_fca90e38aaf5;

pub struct Login {
    pub intent: i32,
    pub host: String,
    pub port: u16,
    pub name: String,
    pub uuid: u128,
    pub session: Option<Vec<u8>>,
    /// payload answered to the auth cookie request (only asked on Transfer intent with a secret)
    pub auth_cookie: Option<Option<Vec<u8>>>,
    pub enc: EncKind,
    pub locale: String,
    pub client_info_after: Ms,
    pub pipelined: bool,
    /// everything the client can send without waiting for the server goes out in one burst: handshake, login
    /// start and the cookie answers before anything was asked; Encryption Response (which needs the token),
    /// Login Acknowledged and Client Information together, without waiting for Login Success
    pub eager: bool,
}

impl Default for Login {
    fn default() -> Self {
        Self {
            intent: 2,
            host: "mc.example.org".into(),
            port: 25565,
            name: NAME1.into(),
            uuid: UUID1,
            session: None,
            auth_cookie: None,
            enc: EncKind::Honest,
            locale: "en_us".into(),
            client_info_after: 0,
            pipelined: false,
            eager: false,
        }
    }
}

impl Login {
    /// the honest step list up to and including Client Information
    pub fn steps(&self) -> Vec<Step> {
        let mut v = vec![
            st(When::Idle, Act::Handshake { proto: 769, host: self.host.clone(), port: self.port, next: self.intent }),
            st(if self.pipelined || self.eager { When::With } else { When::Idle }, Act::LoginStart { name: self.name.clone(), uuid: self.uuid }),
            st(if self.eager { When::With } else { When::Idle }, Act::Cookie { key: "passage:session".into(), payload: self.session.clone() }),
        ];
        if let Some(p) = &self.auth_cookie {
            v.push(st(if self.eager { When::With } else { When::Idle }, Act::Cookie { key: "passage:authentication".into(), payload: p.clone() }));
        }
        v.push(st(When::Idle, Act::EncResponse(self.enc.clone())));
        v.push(st(if self.eager { When::With } else { When::Idle }, Act::LoginAck));
        v.push(st(
            if self.client_info_after > 0 { When::IdleAfter(self.client_info_after) } else if self.pipelined || self.eager { When::With } else { When::Idle },
            Act::ClientInfo { locale: self.locale.clone() },
        ));
        v
    }
}

/// Histories of two connections in one process, one after the other: the first is ended badly while one of its
/// clientbound frames is stuck in the transport (blocked after 0, 1 or half of its bytes until the run is cut
/// off, or refused with an error after 0 or 1 bytes), then a fresh connection is served. Returns
/// (label, first case, second case, observation of the second alone, observation of the second after the
/// first). Whatever the first connection left behind anywhere in the process must not reach the second.
pub fn after_an_aborted_connection(secret: Option<Vec<u8>>) -> Vec<(String, Case, Case, Obs, Obs)> {
    let mut firsts: Vec<(&str, Case)> = vec![];
    let mut login = Case::default();
    login.cfg.auth_secret = secret.clone();
    login.script = Login { name: "Earlier_One".into(), uuid: 0x0e0e_0e0e_0e0e_4e0e_8e0e_0e0e_0e0e_0e0e, ..Default::default() }.steps();
    login.adapters.disc_ms = 17_000;
    firsts.push(("login", login));
    let mut status = Case::default();
    status.adapters.status = StatusPlan::Full;
    status.script = vec![
        st(When::Idle, Act::Handshake { proto: 769, host: "earlier.example".into(), port: 25565, next: 1 }),
        st(When::Idle, Act::StatusRequest),
        st(When::Idle, Act::Ping(0x0e0e)),
    ];
    firsts.push(("status", status));
    let mut seconds: Vec<(&str, Case)> = vec![];
    let mut l2 = Case::default();
    l2.cfg.auth_secret = secret;
    l2.cfg.client_addr = "203.0.113.99:50999".parse().unwrap();
    l2.script = Login::default().steps();
    seconds.push(("login", l2));
    let mut s2 = Case::default();
    s2.script = vec![
        st(When::Idle, Act::Handshake { proto: 769, host: "later.example".into(), port: 25565, next: 1 }),
        st(When::Idle, Act::StatusRequest),
        st(When::Idle, Act::Ping(42)),
    ];
    seconds.push(("status", s2));
    let mut out = vec![];
    for (sl, second) in &seconds {
        let alone = run(second);
        for (fl, first) in &firsts {
            let frames = run(first).packets.len();
            for f in 0..frames {
                for (how, prog) in [
                    ("blocked", vec![WStep::Until(1_000_000_000)]),
                    ("blocked after 1 byte", vec![WStep::Accept(1), WStep::Until(1_000_000_000)]),
                    ("blocked after 5 bytes", vec![WStep::Accept(5), WStep::Until(1_000_000_000)]),
                    ("refused", vec![WStep::Fail]),
                    ("refused after 1 byte", vec![WStep::Accept(1), WStep::Fail]),
                ] {
                    let mut c1 = first.clone();
                    c1.transport.writes.push(WriteDev { frame: f, prog });
                    c1.horizon_ms = 40_000;
                    let _ = run(&c1);
                    let after = run(second);
                    out.push((format!("{fl} connection whose clientbound frame #{f} is {how}, then a {sl} connection"), c1, second.clone(), alone.clone(), after));
                }
            }
        }
    }
    out
}

/// What of a connection must be the same whether or not another connection was served (and ended badly) before it.
pub fn differs_from_alone(alone: &Obs, after: &Obs) -> Option<String> {
    let view = |o: &Obs| (o.kinds().iter().map(|k| k.to_string()).collect::<Vec<_>>(), o.result.kind(), o.garbled.clone(), o.partial_tail, o.consumed, o.calls.iter().map(|c| c.kind()).collect::<Vec<_>>());
    if view(alone) == view(after) {
        return None;
    }
    Some(format!("alone: {:?} -> {} (garbled {:?}); after the earlier connection: {:?} -> {:?} (garbled {:?}, {} dangling bytes)", alone.kinds(), alone.result.kind(), alone.garbled, after.kinds(), after.result, after.garbled, after.partial_tail))
}

/// `case` whose client stays silent for `hold` ms before its step `at` (`at` == number of steps: no hold) and
/// does not start before `start` ms. Only the client's timing changes, never what it sends.
pub fn held(case: &Case, at: usize, start: Ms, hold: Ms) -> Case {
    let mut c = case.clone();
    let mut add = |c: &mut Case, i: usize, ms: Ms| {
        if ms > 0 && i < c.script.len() {
            let w = match c.script[i].when {
                When::IdleAfter(x) => x,
                _ => 0,
            };
            c.script[i].when = When::IdleAfter(w + ms);
        }
    };
    add(&mut c, 0, start);
    add(&mut c, at, hold);
    c
}

/// Stage-wise interleavings of two connections served by one thread under one clock (`run_many`): A runs its
/// steps before `s` at 0 ms, B its steps before `r` at 10 ms, A the rest at 100 ms, B the rest at 210 ms - for
/// every s and r - plus one round-robin interleaving in which each connection yields before every byte of its
/// client's stream and inside every clientbound frame. Returns (label, A, B).
pub fn in_company(a: &Case, b: &Case) -> Vec<(String, Case, Case)> {
    let mut out = vec![];
    for s in 1..=a.script.len() {
        for r in 0..=b.script.len() {
            out.push((format!("A silent for 100 ms before its step {s}/{}; B starts at 10 ms and is silent for 200 ms before its step {r}/{}", a.script.len(), b.script.len()), held(a, s, 0, 100), held(b, r, 10, 200)));
        }
    }
    let fine = |c: &Case| {
        let o = run(c);
        let mut c = c.clone();
        for off in 0..o.emitted {
            c.transport.splits.push(Split { offset: off, pause: Pause::Yield });
        }
        for f in 0..o.packets.len() {
            c.transport.writes.push(WriteDev { frame: f, prog: vec![WStep::Accept(1), WStep::Yield] });
        }
        c
    };
    out.push(("both yield before every byte and inside every clientbound frame".into(), fine(a), fine(b)));
    out
}

/// Runs every ordered pair of `menu` in every interleaving of [`in_company`] and judges each of the two
/// connections with the check's own oracle. A verdict against a connection that the same oracle does not reach
/// when that connection (same client timing) is served alone is reported as `next-to-another-connection:<key>`.
/// Returns (pair runs, runs in which both connections completed something).
pub fn judge_in_company<S: Sync + serde::Serialize>(
    rep: &common::Report,
    menu: &[(S, Case)],
    judge: &(dyn Fn(&S, &Case, &Obs) -> Vec<(String, String)> + Sync),
) -> (u64, u64) {
    use std::sync::atomic::{AtomicU64, Ordering};
    let pairs: Vec<(usize, usize)> = (0..menu.len()).flat_map(|a| (0..menu.len()).map(move |b| (a, b))).collect();
    let (runs, busy) = (AtomicU64::new(0), AtomicU64::new(0));
    common::par_for(pairs.len(), |i| {
        let (ia, ib) = pairs[i];
        let (mut a, mut b) = (menu[ia].1.clone(), menu[ib].1.clone());
        // two clients, two addresses - unless the case is about the address itself (a cookie is bound to it)
        if b.cfg.client_addr == a.cfg.client_addr && b.cfg.auth_secret.is_none() {
            b.cfg.client_addr = "203.0.113.77:50123".parse().unwrap();
        }
        a.horizon_ms = a.horizon_ms.max(60_000);
        b.horizon_ms = b.horizon_ms.max(60_000);
        for (n, (label, ca, cb)) in in_company(&a, &b).into_iter().enumerate() {
            let both = run_many(&[ca.clone(), cb.clone()]);
            runs.fetch_add(1, Ordering::Relaxed);
            if both.iter().all(|o| o.packets.len() > 1) {
                busy.fetch_add(1, Ordering::Relaxed);
            }
            for (k, (spec, case, obs)) in [(&menu[ia].0, &ca, &both[0]), (&menu[ib].0, &cb, &both[1])].into_iter().enumerate() {
                let verdicts = judge(spec, case, obs);
                if verdicts.is_empty() {
                    continue;
                }
                let alone: Vec<String> = judge(spec, case, &run(case)).into_iter().map(|(k, _)| k).collect();
                for (key, text) in verdicts {
                    if alone.contains(&key) {
                        continue;
                    }
                    rep.violation(common::Violation {
                        key: format!("next-to-another-connection:{key}"),
                        text: format!("connection {} of a pair served by one thread ({label}): {text}; alone the same connection is served correctly. A = {}, B = {}", ["A", "B"][k], serde_json::to_string(&menu[ia].0).unwrap(), serde_json::to_string(&menu[ib].0).unwrap()),
                        replay: serde_json::json!({"company": {"a": &menu[ia].0, "b": &menu[ib].0, "interleaving": n}}),
                        weight: 4_000_000 + (i * 100 + n) as u64,
                    });
                }
            }
        }
    });
    (runs.load(Ordering::Relaxed), busy.load(Ordering::Relaxed))
}

/// Status exchanges whose answer has every length around the places where the clientbound length prefix grows
/// (127/128 and 16383/16384 bytes) and the longest a status string may have, under frame limits from tiny to the
/// protocol's maximum (the limit is about frames the client sends). Returns (label, expected JSON, observation).
pub fn status_size_sweep(thorough: bool) -> Vec<(String, Value, Obs)> {
    let mut sizes: Vec<usize> = (40..=110).collect();
    sizes.extend(16_280..=16_360);
    sizes.extend([0, 1, 200, 5_000, 16_000, 20_000, 32_600]);
    let limits: Vec<i32> = if thorough { vec![24, 64, 127, 128, 255, 10_000, 16_383, 16_384, 2_097_151, i32::MAX] } else { vec![24, 127, 10_000, 2_097_151] };
    let mut jobs = vec![];
    for max in &limits {
        for n in &sizes {
            if !thorough && *max != 10_000 && n % 3 != 0 {
                continue;
            }
            jobs.push((*max, *n));
        }
    }
    let out: Mutex<Vec<(String, Value, Obs)>> = Mutex::new(vec![]);
    common::par_for(jobs.len(), |i| {
        let (max, n) = jobs[i];
        let mut c = Case::default();
        c.cfg.max_packet_length = max;
        c.adapters.status = StatusPlan::Favicon(n);
        c.script = vec![
            st(When::Idle, Act::Handshake { proto: 769, host: "s.example".into(), port: 25565, next: 1 }),
            st(When::Idle, Act::StatusRequest),
            st(When::Idle, Act::Ping(0x1234_5678_9abc_def0)),
        ];
        let obs = run(&c);
        out.lock().unwrap().push((format!("status answer with a favicon of {n} characters, max_packet_length {max}"), expected_status_json(&StatusPlan::Favicon(n)), obs));
    });
    out.into_inner().unwrap()
}

/// what is wrong with a status exchange (None: one Status Response with the expected JSON, one Pong, nothing else)
pub fn status_fault(want: &Value, obs: &Obs) -> Option<String> {
    let kinds = obs.kinds();
    if kinds != ["StatusResponse", "Pong"] || obs.garbled.is_some() || obs.partial_tail > 0 {
        return Some(format!("answered with {kinds:?} (garbled {:?}, {} dangling bytes, result {:?})", obs.garbled, obs.partial_tail, obs.result));
    }
    let body = obs.packets.iter().find_map(|(_, p)| if let Pkt::StatusResponse { body } = p { serde_json::from_str::<Value>(body).ok() } else { None });
    let pong = obs.packets.iter().find_map(|(_, p)| if let Pkt::Pong { payload } = p { Some(*payload) } else { None });
    let covers = |got: &Value| want.as_object().is_some_and(|w| w.iter().all(|(k, v)| got.get(k) == Some(v)));
    if !body.as_ref().is_some_and(covers) || pong != Some(0x1234_5678_9abc_def0) {
        return Some(format!("status JSON {} bytes, pong {pong:?}", body.map(|b| b.to_string().len()).unwrap_or(0)));
    }
    None
}

/// The n-th connection of a process: `n` honest logins one after the other (every one a player of its own, every
/// third a returning player with the cookie the router issued to the previous one's address... no: with its own
/// freshly forged valid cookie), all in this process. Returns the observations of the connections whose index is
/// in `keep` (what a process accumulates - counters, tables, pools - shows at the far end, not in the first few).
pub fn after_many_connections(n: usize, keep: &[usize], secret: &[u8]) -> Vec<(usize, Case, Obs)> {
    let mut out = vec![];
    for i in 0..n {
        let mut c = Case::default();
        c.cfg.auth_secret = Some(secret.to_vec());
        c.cfg.client_addr = format!("198.51.{}.{}:{}", (i / 250) % 250, i % 250 + 1, 40_000 + i % 20_000).parse().unwrap();
        let name = format!("Many{i}");
        let uuid = 0x4d00_0000_0000_4000_8000_0000_0000_0000u128 + i as u128;
        let mut login = Login { name: name.clone(), uuid, ..Default::default() };
        if i % 3 == 2 {
            login.intent = 3;
            login.auth_cookie = Some(Some(crate::util::valid_cookie(secret, 5, &c.cfg.client_addr.to_string(), &format!("Back{i}"), uuid ^ 1, &[])));
        }
        c.script = login.steps();
        c.adapters.auth = AuthPlan::Profile { name: format!("Real{i}"), uuid: uuid ^ 2, props: vec![] };
        let obs = run(&c);
        if keep.contains(&i) {
            out.push((i, c, obs));
        }
    }
    out
}

/// what is wrong with the i-th connection of [`after_many_connections`], by aspect (identity | cookie | order)
pub fn many_connections_faults(i: usize, case: &Case, obs: &Obs, secret: &[u8]) -> Vec<(&'static str, String)> {
    let mut v = vec![];
    let returning = i % 3 == 2;
    let want_name = if returning { format!("Back{i}") } else { format!("Real{i}") };
    let got = obs.packets.iter().find_map(|(_, p)| if let Pkt::LoginSuccess { name, .. } = p { Some(name.clone()) } else { None });
    let asked = obs.calls.iter().any(|c| c.kind() == "authenticate");
    if got.as_deref() != Some(want_name.as_str()) || asked == returning || !obs.has("Transfer") {
        v.push(("identity", format!("connection #{i} of the process ({}): admitted as {got:?} (expected {want_name}), authentication service asked: {asked}, packets {:?}, result {:?}", if returning { "returning with a valid cookie" } else { "fresh login" }, obs.kinds(), obs.result)));
    }
    let mut want_kinds = vec!["LoginCookieRequest"];
    if returning {
        want_kinds.push("LoginCookieRequest");
    }
    want_kinds.extend(["EncryptionRequest", "LoginSuccess"]);
    if !returning {
        want_kinds.push("StoreCookie");
    }
    want_kinds.extend(["StoreCookie", "Transfer"]);
    // (a player admitted by a cookie may be given a refreshed authentication cookie as well: no property forbids it)
    let mut with_refresh = want_kinds.clone();
    with_refresh.insert(with_refresh.len() - 1, "StoreCookie");
    // (and the authentication Cookie Request may be made of anybody: "optionally", says the statement)
    fn one_request(v: &[&'static str]) -> Vec<&'static str> {
        let mut out: Vec<&'static str> = vec![];
        for k in v {
            if *k == "LoginCookieRequest" && out.last() == Some(&"LoginCookieRequest") {
                continue;
            }
            out.push(*k);
        }
        out
    }
    let got_kinds = one_request(&obs.kinds());
    let order_ok = got_kinds == one_request(&want_kinds) || (returning && got_kinds == one_request(&with_refresh));
    if !order_ok || obs.garbled.is_some() || obs.partial_tail > 0 {
        v.push(("order", format!("connection #{i} of the process was answered with {:?} (undecodable {:?}); expected {want_kinds:?}", obs.kinds(), obs.garbled)));
    }
    if !returning {
        let cookie = obs.packets.iter().find_map(|(_, p)| match p {
            Pkt::StoreCookie { key, payload } if key == "passage:authentication" => Some(payload.clone()),
            _ => None,
        });
        let ok = cookie.as_ref().is_some_and(|p| {
            let (tag_ok, body) = crate::util::open_cookie(p, secret);
            tag_ok && body.as_ref().is_some_and(|b| b["user_name"] == Value::String(want_name.clone()) && b["client_addr"] == Value::String(case.cfg.client_addr.to_string()))
        });
        if !ok {
            v.push(("cookie", format!("connection #{i} of the process: the cookie issued to {want_name} at {} is {:?}", case.cfg.client_addr, cookie.as_ref().map(|p| crate::util::open_cookie(p, secret)))));
        }
    }
    v
}

/// Seeds whose first `R` unbiased-select draws realise every bit pattern.
pub fn seeds_for_patterns(r: usize) -> Vec<u64> {
    let want = 1usize << r;
    let mut found: Vec<Option<u64>> = vec![None; want];
    let mut left = want;
    let mut seed = 0u64;
    while left > 0 && seed < 1_000_000 {
        let rt = tokio::runtime::Builder::new_current_thread()
            .rng_seed(tokio::runtime::RngSeed::from_bytes(&seed.to_le_bytes()))
            .build()
            .expect("rt");
        let pat = rt.block_on(async {
            let mut p = 0usize;
            for i in 0..r {
                p |= (tokio::macros::support::thread_rng_n(2) as usize) << i;
            }
            p
        });
        if found[pat].is_none() {
            found[pat] = Some(seed);
            left -= 1;
        }
        seed += 1;
    }
    found.into_iter().flatten().collect()
}


/// Runs a case twice and aborts as a machinery error if the two runs differ in anything the oracles
/// look at (timed packet kinds, service calls, result): a failure must be a function of the schedule.
/// the same, as a question: do two runs of the case agree in everything the oracles look at?
pub fn is_deterministic(case: &Case) -> bool {
    let view = |o: &Obs| (o.packets.iter().map(|(t, p)| (*t, p.kind())).collect::<Vec<_>>(), o.calls.iter().map(|c| (c.t(), c.kind())).collect::<Vec<_>>(), o.result.kind(), o.consumed, o.end_ms);
    view(&run(case)) == view(&run(case))
}

pub fn assert_deterministic(case: &Case, what: &str) {
    let view = |o: &Obs| {
        (
            o.packets.iter().map(|(t, p)| (*t, p.kind())).collect::<Vec<_>>(),
            o.calls.iter().map(|c| (c.t(), c.kind())).collect::<Vec<_>>(),
            o.result.kind(),
            o.consumed,
            o.end_ms,
        )
    };
    let (a, b) = (run(case), run(case));
    if view(&a) != view(&b) {
        common::machinery(&format!("nondeterministic harness: two runs of the same case differ ({what})"));
    }
}
