//! C04: no client input can crash the handler or make it allocate unboundedly.
//!
//! Fault enumeration: in each of eleven protocol states (reached by the honest prefix) one hostile
//! frame from a structured alphabet is injected, followed by silence or by the client's EOF.
use crate::sim::*;
use common::refs::codec::{self, W, varint};
use common::{Cli, Report, Violation, hex, par_for};
use serde::{Deserialize, Serialize};
use serde_json::json;
use std::collections::HashSet;
use std::sync::Mutex;
use std::sync::atomic::{AtomicU64, Ordering};

#[derive(Clone, Debug, Serialize, Deserialize)]
struct Item {
    state: usize,
    max: i32,
    /// class of the hostile input (also the violation key suffix)
    class: String,
    /// raw bytes injected (before encryption)
    bytes_hex: String,
    /// the client hangs up after the bytes (otherwise it stays silent)
    eof: bool,
    /// the input is malformed by construction: the connection must end with an error and grant nothing
    malformed: bool,
    /// the declared outer length is out of (0, max]: must be refused without waiting for anything
    refuse_now: bool,
    /// instead of raw bytes: an Encryption Response with a valid RSA layer whose secret has this length
    #[serde(default)]
    enc_secret_len: Option<usize>,
    /// a packet the configuration phase tolerates, sent right before the hostile bytes (deviation bound 2)
    #[serde(default)]
    tolerated_first: Option<String>,
    /// instead of raw bytes: an Encryption Response with a valid RSA layer whose verify token is the first n
    /// bytes of the issued one (n <= 32) or the issued one followed by n - 32 more bytes (up to 117, the most
    /// the RSA layer carries)
    #[serde(default)]
    enc_token_len: Option<usize>,
    /// instead of hostile bytes: a complete, well-formed login whose Client Information reports this (valid
    /// UTF-8, within the field's 16 characters or beyond) locale; class says what follows: `...:no-target` (the
    /// player is refused in that locale) or `...:timeout` (the client never echoes: timeout Disconnect in it)
    #[serde(default)]
    locale: Option<String>,
    /// a fault of the transport instead of (reset: after) the hostile bytes: reset | write-zero | write-fail |
    /// write-partial-zero | write-partial-fail (the write faults hit clientbound frame `fault_frame` of the
    /// honest exchange: status exchange for state 1, login with slow routing for state 9)
    #[serde(default)]
    fault: Option<String>,
    #[serde(default)]
    fault_frame: usize,
}

#[derive(Clone)]
enum Part {
    Raw(Vec<u8>),
    Len { data: Vec<u8>, string: bool },
    Enum { value: i32, n: i32, first: i32 },
}

const SECRET: &[u8] = b"c04-cookie-secret";

const N_STATES: usize = 11;

fn state_name(s: usize) -> &'static str {
    ["before-handshake", "status-after-handshake", "status-after-request", "login-after-handshake", "awaiting-session-cookie", "awaiting-auth-cookie", "awaiting-encryption-response", "awaiting-login-ack", "configuration", "configuration-routing", "configuration-routing-keep-alive-outstanding"][s]
}

fn prefix(state: usize) -> Vec<Step> {
    let hs = |n| st(When::Idle, Act::Handshake { proto: 769, host: "h".into(), port: 25565, next: n });
    let ls = st(When::Idle, Act::LoginStart { name: "Bob".into(), uuid: UUID1 });
    let sc = st(When::Idle, Act::Cookie { key: "passage:session".into(), payload: None });
    let ac = st(When::Idle, Act::Cookie { key: "passage:authentication".into(), payload: None });
    let enc = st(When::Idle, Act::EncResponse(EncKind::Honest));
    let ack = st(When::Idle, Act::LoginAck);
    let ci = st(When::Idle, Act::ClientInfo { locale: "en_us".into() });
    match state {
        0 => vec![],
        1 => vec![hs(1)],
        2 => vec![hs(1), st(When::Idle, Act::StatusRequest)],
        3 => vec![hs(2)],
        4 => vec![hs(2), ls],
        5 => vec![hs(3), ls, sc],
        6 => vec![hs(3), ls, sc, ac],
        7 => vec![hs(3), ls, sc, ac, enc],
        8 => vec![hs(3), ls, sc, ac, enc, ack],
        _ => vec![hs(3), ls, sc, ac, enc, ack, ci],
    }
}

/// the packets a client may legitimately send in the state, as (id, parts)
fn packets(state: usize) -> Vec<(i32, Vec<Part>)> {
    let s = |x: &str| Part::Len { data: x.as_bytes().to_vec(), string: true };
    let b = |x: Vec<u8>| Part::Len { data: x, string: false };
    match state {
        0 => vec![(0, vec![Part::Raw(varint(769)), s("mc.example.org"), Part::Raw(vec![0x63, 0xdd]), Part::Enum { value: 2, n: 3, first: 1 }])],
        1 => vec![(0, vec![])],
        2 => vec![(1, vec![Part::Raw(vec![0, 0, 0, 0, 0, 0, 0, 42])])],
        3 => vec![(0, vec![s("Bob_the_builder"), Part::Raw(UUID1.to_be_bytes().to_vec())])],
        4 => vec![(4, vec![s("passage:session"), Part::Raw(vec![1]), b(br#"{"id":"116934ee-8b5a-49d4-8b54-af0b4d6dbe5f","server_address":"h","server_port":1}"#.to_vec())])],
        5 => vec![(4, vec![s("passage:authentication"), Part::Raw(vec![1]), b((0..40u8).collect())])],
        6 => vec![(1, vec![b(vec![0x11; 128]), b(vec![0x22; 128])])],
        7 => vec![(3, vec![])],
        _ => vec![
            (0, vec![s("en_us"), Part::Raw(vec![10]), Part::Enum { value: 0, n: 3, first: 0 }, Part::Raw(vec![1, 0x7f]), Part::Enum { value: 1, n: 2, first: 0 }, Part::Raw(vec![0, 1]), Part::Enum { value: 0, n: 3, first: 0 }]),
            (4, vec![Part::Raw(vec![0, 0, 0, 0, 0, 0, 1, 2])]),
            (6, vec![Part::Raw(vec![7; 16]), Part::Enum { value: 0, n: 8, first: 0 }]),
            (2, vec![s("minecraft:brand"), Part::Raw(b"vanilla".to_vec())]),
        ],
    }
}

fn render(id: i32, parts: &[Part]) -> Vec<u8> {
    let mut body = vec![];
    for p in parts {
        match p {
            Part::Raw(r) => body.extend_from_slice(r),
            Part::Len { data, .. } => {
                body.extend(varint(data.len() as i32));
                body.extend_from_slice(data);
            }
            Part::Enum { value, .. } => body.extend(varint(*value)),
        }
    }
    codec::frame(id, &body)
}

/// renders with part `k` replaced by raw bytes
fn render_with(id: i32, parts: &[Part], k: usize, replacement: Vec<u8>) -> Vec<u8> {
    let mut ps = parts.to_vec();
    ps[k] = Part::Raw(replacement);
    render(id, &ps)
}

fn items_for(state: usize, max: i32, thorough: bool) -> Vec<Item> {
    let mut v = vec![];
    let mut push = |class: &str, bytes: Vec<u8>, eof: bool, malformed: bool, refuse_now: bool| {
        v.push(Item { state, max, class: class.into(), bytes_hex: hex(&bytes), eof, malformed, refuse_now, enc_secret_len: None, tolerated_first: None, enc_token_len: None, locale: None, fault: None, fault_frame: 0 })
    };
    // A. outer length alphabet: the prefix alone, then silence (out of range) or EOF (in range)
    let outer: Vec<(String, Vec<u8>, bool)> = vec![
        ("outer-len:-1".into(), varint(-1), true),
        ("outer-len:min".into(), varint(i32::MIN), true),
        ("outer-len:0".into(), varint(0), true),
        ("outer-len:1".into(), varint(1), false),
        ("outer-len:max-1".into(), varint(max - 1), max - 1 <= 0),
        ("outer-len:max".into(), varint(max), false),
        ("outer-len:max+1".into(), varint(max.saturating_add(1)), max != i32::MAX),
        ("outer-len:i32-max".into(), varint(i32::MAX), max != i32::MAX),
        ("outer-len:overlong-varint".into(), vec![0x80, 0x80, 0x80, 0x80, 0x80, 0x01], true),
        ("outer-len:5xff".into(), vec![0xff; 5], true),
    ];
    for (class, bytes, out_of_range) in outer {
        // a maximum that is not positive admits no length at all
        let out_of_range = out_of_range || max <= 0;
        if out_of_range {
            push(&class, bytes.clone(), false, true, true);
        }
        push(&format!("{class}+eof"), bytes, true, true, false);
    }
    if max <= 0 {
        drop(push);
        return v;
    }
    if state >= 8 {
        // well-formed Keep Alive frames with extreme ids (with and without one outstanding, see state 10)
        for id in [0u64, 1, 15_999, 16_000, 16_001, i64::MAX as u64, 1 << 63, u64::MAX - 1, u64::MAX] {
            push(&format!("keep-alive-id:{id:#x}+eof"), codec::frame(4, &id.to_be_bytes()), true, false, false);
        }
    }
    for (id, parts) in packets(state) {
        let honest = render(id, &parts);
        if honest.len() > max as usize {
            continue;
        }
        // C. truncation at every offset, then EOF
        for cut in 0..honest.len() {
            push("truncated-frame", honest[..cut].to_vec(), true, true, false);
        }
        for (k, p) in parts.iter().enumerate() {
            match p {
                Part::Len { data, string } => {
                    let actual = data.len() as i32;
                    let remainder: i32 = parts[k + 1..]
                        .iter()
                        .map(|p| match p {
                            Part::Raw(r) => r.len() as i32,
                            Part::Len { data, .. } => data.len() as i32 + varint(data.len() as i32).len() as i32,
                            Part::Enum { value, .. } => varint(*value).len() as i32,
                        })
                        .sum::<i32>()
                        + actual;
                    // B. inner length prefixes (the data bytes stay as they are)
                    for (name, l, bad) in [
                        ("inner-len:-1", -1, true),
                        ("inner-len:min", i32::MIN, true),
                        ("inner-len:0", 0, false),
                        ("inner-len:actual-1", actual - 1, false),
                        ("inner-len:actual+1", actual + 1, false),
                        ("inner-len:remainder+1", remainder + 1, true),
                        ("inner-len:65536", 65_536, true),
                        ("inner-len:i32-max", i32::MAX, true),
                    ] {
                        let mut rep = varint(l);
                        rep.extend_from_slice(data);
                        push(name, render_with(id, &parts, k, rep.clone()), false, bad, false);
                        push(&format!("{name}+eof"), render_with(id, &parts, k, rep), true, bad, false);
                    }
                    // D. invalid UTF-8
                    if *string && !data.is_empty() {
                        let mut rep = varint(actual);
                        rep.extend((0..data.len()).map(|i| [0xff, 0xc0, 0xfe, 0x80][i % 4]));
                        push("invalid-utf8", render_with(id, &parts, k, rep), true, true, false);
                    }
                }
                Part::Enum { n, first, .. } => {
                    for (name, o) in [("enum:-1", -1), ("enum:first-invalid", first + n), ("enum:i32-max", i32::MAX), ("enum:before-first", first - 1)] {
                        push(name, render_with(id, &parts, k, varint(o)), true, true, false);
                    }
                }
                Part::Raw(_) => {}
            }
        }
    }
    // frames whose declared length is shorter than the packet id that follows
    for (class, bytes) in [
        ("short-frame-long-id", vec![0x01, 0x80, 0x01]),
        ("short-frame-long-id", vec![0x01, 0xff]),
        ("short-frame-long-id", vec![0x02, 0x80, 0x80, 0x01]),
        ("short-frame-long-id", vec![0x02, 0xff, 0xff, 0xff, 0xff, 0x0f, 0x00]),
        ("short-frame-long-id", vec![0x04, 0xff, 0xff, 0xff, 0xff, 0x0f, 0x00, 0x00]),
        ("short-frame-long-id", vec![0x05, 0xff, 0xff, 0xff, 0xff, 0xff, 0x00]),
    ] {
        push(class, bytes.clone(), true, true, false);
        // without EOF: the handler may wait for more input but must not buffer unboundedly (checked by (iii))
        if max <= 10_000 {
            let mut more = bytes;
            more.extend(std::iter::repeat_n(0x41, 300_000));
            push("short-frame-long-id+flood", more, true, true, false);
        }
    }
    // F. RSA ciphertext shapes where an Encryption Response is expected
    if state == 6 {
        for n in [0usize, 1, 127, 128, 129, 256, 1024] {
            let body = W::new().bytes(&vec![0xa5; n]).bytes(&vec![0x5a; n]).done();
            push("rsa-garbage", codec::frame(1, &body), true, true, false);
        }
    }
    drop(push);
    if state == 6 {
        for n in [0usize, 1, 8, 15, 17, 24, 32, 100] {
            v.push(Item { state, max, class: format!("valid-rsa-secret-len-{n}"), bytes_hex: String::new(), eof: true, malformed: true, refuse_now: false, enc_secret_len: Some(n), tolerated_first: None, enc_token_len: None, locale: None, fault: None, fault_frame: 0 });
        }
    }
    if state == 6 {
        for n in [0usize, 1, 16, 31, 33, 48, 64, 116, 117] {
            v.push(Item { state, max, class: format!("valid-rsa-token-len-{n}"), bytes_hex: String::new(), eof: true, malformed: true, refuse_now: false, enc_secret_len: None, tolerated_first: None, enc_token_len: Some(n), locale: None, fault: None, fault_frame: 0 });
        }
    }
    let mut push = |class: &str, bytes: Vec<u8>, eof: bool, malformed: bool, refuse_now: bool| {
        v.push(Item { state, max, class: class.into(), bytes_hex: hex(&bytes), eof, malformed, refuse_now, enc_secret_len: None, tolerated_first: None, enc_token_len: None, locale: None, fault: None, fault_frame: 0 })
    };
    // G. every [len][id][b] frame and two-byte bodies over a boundary alphabet, then EOF
    let ids: Vec<i32> = (0..=0x20).chain([0x7f]).collect();
    for id in &ids {
        push("tiny-frame", codec::frame(*id, &[]), true, false, false);
        if thorough || [0usize, 3, 6, 8].contains(&state) {
            for b in 0..=255u8 {
                push("tiny-frame", codec::frame(*id, &[b]), true, false, false);
            }
        }
        let alpha = [0x00u8, 0x01, 0x02, 0x05, 0x7f, 0x80, 0x81, 0xfe, 0xff, 0x10, 0x20, 0x40, 0xc0, 0xe0, 0xf0, 0x0a];
        if thorough || [0usize, 6, 8].contains(&state) {
            for a in alpha {
                for b in alpha {
                    push("tiny-frame", codec::frame(*id, &[a, b]), true, false, false);
                }
            }
        }
    }
    v
}

fn build(it: &Item) -> Case {
    let mut case = Case::default();
    case.cfg.auth_secret = Some(SECRET.to_vec());
    case.cfg.max_packet_length = it.max;
    case.script = prefix(it.state);
    match it.tolerated_first.as_deref() {
        Some("keep-alive") => case.script.push(st(When::Idle, Act::KeepAlive(0x1234))),
        Some("plugin-message") => case.script.push(st(When::Idle, Act::Frame { id: 2, body: W::new().string("minecraft:brand").raw(&[0x55; 200]).done() })),
        Some("resource-pack-response") => case.script.push(st(When::Idle, Act::Frame { id: 6, body: W::new().u128(9).varint(3).done() })),
        _ => {}
    }
    // state 10: the hostile bytes arrive at 17 s, while the Keep Alive sent at 16 s is unanswered
    let when = if it.state == 10 { When::IdleAfter(17_000) } else { When::Idle };
    match (it.enc_secret_len, it.enc_token_len) {
        (Some(n), _) => case.script.push(st(when, Act::EncResponse(EncKind::SecretLen(n)))),
        (_, Some(n)) if n <= 32 => case.script.push(st(when, Act::EncResponse(EncKind::TokenPrefix(n)))),
        (_, Some(n)) => case.script.push(st(when, Act::EncResponse(EncKind::TokenExtended(n - 32)))),
        _ => case.script.push(st(when, Act::Raw(common::unhex(&it.bytes_hex)))),
    }
    if it.eof {
        case.script.push(st(When::With, Act::Eof));
    }
    if let Some(loc) = &it.locale {
        case.script = prefix(9);
        for stp in case.script.iter_mut() {
            if let Act::ClientInfo { locale } = &mut stp.act {
                *locale = loc.clone();
            }
        }
        case.adapters.disc_ms = 0;
        if it.class.ends_with(":timeout") {
            case.adapters.disc_ms = 40_000;
            case.echo = Echo::Never;
        } else {
            case.adapters.strat = StratPlan::None;
        }
    }
    match it.fault.as_deref() {
        Some("reset") => case.script.push(st(When::With, Act::Reset)),
        Some(f) if f.starts_with("write-") => {
            // the honest exchange, undisturbed except for the transport's answer to one clientbound frame
            case.script = if it.state == 1 {
                vec![
                    st(When::Idle, Act::Handshake { proto: 769, host: "h".into(), port: 25565, next: 1 }),
                    st(When::Idle, Act::StatusRequest),
                    st(When::Idle, Act::Ping(7)),
                ]
            } else {
                prefix(9)
            };
            let mut prog = vec![];
            if f.contains("partial") {
                prog.push(WStep::Accept(2));
            }
            prog.push(if f.ends_with("zero") { WStep::Zero } else { WStep::Fail });
            case.transport.writes.push(WriteDev { frame: it.fault_frame, prog });
            case.adapters.disc_ms = 20_000;
        }
        _ => {}
    }
    if it.state >= 9 && (it.locale.is_none() || it.class.ends_with(":timeout")) {
        case.adapters.disc_ms = 40_000;
    }
    case.echo = if it.state == 10 || (it.locale.is_some() && it.class.ends_with(":timeout")) { Echo::Never } else { Echo::Prompt };
    case.horizon_ms = 100_000;
    case
}

fn judge(it: &Item, baseline_packets: usize, obs: &Obs) -> Vec<(String, String)> {
    let mut v = vec![];
    let st = state_name(it.state);
    let mut bad = |k: String, t: String| v.push((k, t));
    // (i) no panic
    if let RunResult::Panic(p) = &obs.result {
        if p.starts_with(SPIN_MARK) {
            bad("keeps-running-after-eof".into(), format!("state {st}: the handler never noticed the end of stream and kept reading ({p})"));
        } else {
            bad(format!("panic:{}", it.class.trim_end_matches("+eof")), format!("state {st}: handler panicked: {p}"));
        }
        return v;
    }
    if it.locale.is_some() {
        // a well-formed login: it must end in the Disconnect it asks for, not in a panic (checked above)
        if !obs.has("ConfDisconnect") {
            bad(format!("no-disconnect:{}", it.class), format!("locale {:?}: the connection ended with {:?} and packets {:?}", it.locale, obs.result, obs.kinds()));
        }
        return v;
    }
    if it.fault.as_deref().is_some_and(|f| f.starts_with("write-")) {
        // (the script is the honest exchange; how far it gets depends on the frame that is refused)
    } else if obs.steps_done < prefix(it.state).len() + 1 + it.tolerated_first.is_some() as usize {
        // the hostile bytes were never sent (the prefix did not get that far): not a verdict
        bad("machinery:prefix-did-not-complete".into(), format!("state {st}: only {} steps done; result {:?}", obs.steps_done, obs.result));
        return v;
    }
    // (iii) memory in proportion to the configured maximum
    let bound = 2 * it.max.max(0) as usize + 64 * 1024;
    if obs.max_alloc > bound {
        bad(format!("allocation:{}", it.class.trim_end_matches("+eof")), format!("state {st}: a single allocation of {} bytes was requested; max_packet_length is {}", obs.max_alloc, it.max));
    }
    // (ii) after the client's EOF the handler returns at once
    if it.eof {
        match obs.eof_at {
            Some(at) => {
                if matches!(obs.result, RunResult::Horizon) || obs.end_ms != at {
                    bad("keeps-running-after-eof".into(), format!("state {st}: EOF delivered at {at} ms, handler ended at {} ms with {:?}", obs.end_ms, obs.result));
                }
            }
            None => {
                // the handler ended before ever reading the EOF: fine as long as it ended
                if matches!(obs.result, RunResult::Horizon) {
                    bad("keeps-running-after-eof".into(), format!("state {st}: handler never noticed the EOF"));
                }
            }
        }
    }
    // (ii') a reset connection / a transport that takes no more bytes ends the handler at once, with an error
    match it.fault.as_deref() {
        Some("reset") => {
            let at = obs.eof_at;
            if matches!(obs.result, RunResult::Horizon) || at.is_some_and(|a| obs.end_ms != a) || !obs.result.is_err() {
                bad("keeps-running-after-reset".into(), format!("state {st}: connection reset at {at:?} ms, handler ended at {} ms with {:?}", obs.end_ms, obs.result));
            }
        }
        Some(f) if f.starts_with("write-") => match obs.write_fault_at {
            // the exchange never got to that frame: nothing to judge
            None => {}
            Some(at) => {
                if matches!(obs.result, RunResult::Horizon) || obs.end_ms != at || !obs.result.is_err() {
                    bad(format!("keeps-running-after-write-failure:{f}"), format!("state {st}: the transport refused clientbound frame #{} at {at} ms ({f}); handler ended at {} ms with {:?}", it.fault_frame, obs.end_ms, obs.result));
                }
            }
        },
        _ => {}
    }
    // (iv) out-of-range outer length is refused before the body is awaited
    if it.refuse_now {
        // the whole prefix runs at virtual time 0 (state 9: Client Information at 0 as well); state 10 sends at 17 s
        let sent_at = obs.step_times.last().copied().unwrap_or(0);
        if !obs.result.is_err() || obs.end_ms != sent_at {
            bad(format!("length-not-refused-at-once:{}", it.class), format!("state {st}: declared length out of (0, {}] and nothing else sent; handler result {:?} at {} ms", it.max, obs.result, obs.end_ms));
        }
    }
    // (v) malformed input ends the connection with an error and nothing is granted afterwards
    if it.malformed && (it.eof || it.refuse_now) {
        if !obs.result.is_err() {
            bad(format!("malformed-not-an-error:{}", it.class.trim_end_matches("+eof")), format!("state {st}: result {:?}", obs.result));
        }
        if obs.packets.len() > baseline_packets {
            let extra: Vec<&str> = obs.packets[baseline_packets..].iter().map(|(_, p)| p.kind()).collect();
            if extra.iter().any(|k| matches!(*k, "LoginSuccess" | "Transfer" | "StoreCookie" | "StatusResponse" | "Pong")) {
                bad(format!("reply-after-malformed-frame:{}", it.class.trim_end_matches("+eof")), format!("state {st}: {extra:?} sent after the malformed frame"));
            }
        }
    }
    v
}


/// After the router's own final Disconnect (no target / keep-alive timeout) the client sends more - malformed
/// length prefixes, garbage, well-formed frames - and hangs up. Runs in a CHILD process (`<exe> C04-after-disconnect`):
/// a handler that spins without ever yielding cannot be interrupted from inside its own process. The child prints
/// `CASE <label>` before and `DONE <label> <json>` after every case.
pub fn after_final_disconnect_child() {
    let hostile: Vec<(&str, Vec<u8>)> = vec![
        ("length 0", varint(0)),
        ("length i32::MAX", varint(i32::MAX)),
        ("five continuation bytes", vec![0xff; 5]),
        ("negative length", varint(-1)),
        ("an empty frame body", vec![1, 0]),
        ("a Keep Alive", codec::frame(4, &7u64.to_be_bytes())),
        ("300 bytes of garbage", vec![0x5a; 300]),
        ("nothing", vec![]),
    ];
    for ending in ["no-target", "timeout"] {
        for (what, bytes) in &hostile {
            for eof in [true, false] {
                let label = format!("{ending}|{what}|{}", if eof { "then the client hangs up" } else { "then silence" });
                println!("CASE {label}");
                let mut case = Case::default();
                case.cfg.auth_secret = Some(SECRET.to_vec());
                case.script = prefix(9);
                // the hostile bytes are sent one second after the Disconnect went out (if anybody still reads)
                let after = if ending == "no-target" {
                    case.adapters.strat = StratPlan::None;
                    case.adapters.disc_ms = 5_000;
                    6_000
                } else {
                    case.adapters.disc_ms = 40_000;
                    case.echo = Echo::Never;
                    33_000
                };
                case.script.push(st(When::IdleAfter(after), Act::Raw(bytes.clone())));
                if eof {
                    case.script.push(st(When::With, Act::Eof));
                }
                case.horizon_ms = 120_000;
                let obs = crate::sim::run(&case);
                let t_disc = obs.packets.iter().zip(obs.packet_started.iter()).find_map(|((_, p), t0)| if p.kind() == "ConfDisconnect" { Some(*t0) } else { None });
                let mut faults: Vec<(String, String)> = vec![];
                match &obs.result {
                    RunResult::Panic(p) if p.starts_with(SPIN_MARK) => faults.push(("keeps-running-after-eof".into(), format!("the handler kept reading after the end of stream ({p})"))),
                    RunResult::Panic(p) => faults.push(("panic:after-final-disconnect".into(), p.clone())),
                    RunResult::Horizon => faults.push(("keeps-running-after-eof".into(), "the handler was still running 120 s (virtual) later".into())),
                    _ => {}
                }
                if t_disc.is_none() {
                    faults.push(("machinery:no-final-disconnect".into(), format!("{:?} {:?}", obs.kinds(), obs.result)));
                }
                if let (Some(at), true) = (obs.eof_at, eof) {
                    if obs.end_ms > at {
                        faults.push(("keeps-running-after-eof".into(), format!("end of stream delivered at {at} ms, the handler ended at {} ms", obs.end_ms)));
                    }
                }
                if obs.max_alloc > 2 * 10_000 + 64 * 1024 {
                    faults.push(("allocation:after-final-disconnect".into(), format!("a single allocation of {} bytes", obs.max_alloc)));
                }
                if obs.packets.iter().filter(|(_, p)| p.kind() == "ConfDisconnect").count() != 1 || !matches!(obs.packets.last(), Some((_, p)) if p.kind() == "ConfDisconnect") {
                    faults.push(("reply-after-malformed-frame:after-final-disconnect".into(), format!("{:?}", obs.kinds())));
                }
                println!("DONE {label} {}", serde_json::to_string(&faults).unwrap());
            }
        }
    }
    println!("END");
}

/// parent side of [`after_final_disconnect_child`]
fn after_final_disconnect(rep: &Report) -> u64 {
    use std::io::{BufRead, BufReader};
    let exe = common::self_exe();
    let mut child = std::process::Command::new(exe).arg("C04-after-disconnect").stdout(std::process::Stdio::piped()).stderr(std::process::Stdio::null()).spawn().expect("spawn");
    let out = child.stdout.take().expect("stdout");
    let (tx, rx) = std::sync::mpsc::channel::<String>();
    std::thread::spawn(move || {
        for line in BufReader::new(out).lines().map_while(Result::ok) {
            if tx.send(line).is_err() {
                break;
            }
        }
    });
    let mut current = String::new();
    let mut n = 0u64;
    loop {
        // one case takes milliseconds; half a minute of silence is a handler that never comes back
        match rx.recv_timeout(std::time::Duration::from_secs(30)) {
            Ok(line) if line == "END" => break,
            Ok(line) => {
                if let Some(l) = line.strip_prefix("CASE ") {
                    current = l.to_string();
                } else if let Some(rest) = line.strip_prefix("DONE ") {
                    n += 1;
                    let json_at = rest.rfind(" [").map(|i| i + 1).unwrap_or(rest.len());
                    let faults: Vec<(String, String)> = serde_json::from_str(&rest[json_at..]).unwrap_or_default();
                    for (k, t) in faults {
                        rep.violation(Violation { key: k, text: format!("after the router's final Disconnect ({}): {t}", &rest[..json_at]), replay: json!({"after_disconnect": current}), weight: 9_000 });
                    }
                }
            }
            Err(_) => {
                let _ = child.kill();
                let _ = child.wait();
                if current.is_empty() {
                    common::machinery("C04: the child process for the after-Disconnect cases printed nothing for 30 s");
                }
                rep.violation(Violation { key: "keeps-running-after-eof".into(), text: format!("after the router's final Disconnect ({current}): the handler did not return within 30 s of real time (it never yields: the virtual clock cannot advance, no deadline can fire)"), replay: json!({"after_disconnect": current}), weight: 9_000 });
                return n;
            }
        }
    }
    let _ = child.wait();
    n
}

pub fn run(cli: Cli) -> ! {
    run_with(cli, &|_| {})
}

/// `extra` adds to the same report (netsim hosts this check and adds whole connections through the assembled router)
pub fn run_with(cli: Cli, extra: &dyn Fn(&Report)) -> ! {
    let rep = Report::new("C04", cli.tier, "fault_enumeration");
    if let Some(case) = cli.replay.clone() {
        let it: Item = serde_json::from_value(case["item"].clone()).unwrap_or_else(|e| common::machinery(&format!("bad replay: {e}")));
        let base = crate::sim::run(&{
            let mut c = build(&it);
            c.script.truncate(prefix(it.state).len());
            c.horizon_ms = if it.state == 10 { 16_500 } else { 1 };
            c
        });
        let obs = crate::sim::run(&build(&it));
        println!("item: {}", serde_json::to_string(&it).unwrap());
        println!("state: {}", state_name(it.state));
        println!("observed: {}", serde_json::to_string_pretty(&obs.to_json()).unwrap());
        for (k, t) in judge(&it, base.packets.len(), &obs) {
            rep.violation(Violation { key: k, text: t, replay: case.clone(), weight: 0 });
        }
        rep.set("evaluations", json!(1));
        rep.set("distinct_nontrivial", json!(2));
        rep.set("rule", json!("replay of one item"));
        rep.finish();
    }
    let thorough = cli.tier.thorough();
    let mut items: Vec<Item> = vec![];
    for state in 0..N_STATES {
        let maxes: Vec<i32> = match state {
            // (a maximum that is not positive - e.g. a configured value that wrapped around - admits nothing)
            // (and one next to the top of the type's range - "no limit" - where length arithmetic may leave it)
            0 => vec![1, 64, 10_000, 2_097_151, 0, -1, i32::MIN, i32::MAX, i32::MAX - 4],
            1 | 4 => vec![64, 10_000, 2_097_151, i32::MAX],
            2..=5 => vec![64, 10_000, 2_097_151],
            _ => vec![10_000, 2_097_151],
        };
        for (mi, max) in maxes.iter().enumerate() {
            let mut its = items_for(state, *max, thorough);
            if mi > 0 {
                // the tiny-frame sweep does not depend on the maximum: keep it for the first maximum only
                its.retain(|i| i.class != "tiny-frame");
            }
            if thorough && state >= 8 && mi == 0 {
                // bound 2: a tolerated packet first, then the hostile frame
                for first in ["keep-alive", "plugin-message", "resource-pack-response"] {
                    for it in its.iter().filter(|i| i.class != "tiny-frame") {
                        let mut it2 = it.clone();
                        it2.tolerated_first = Some(first.to_string());
                        items.push(it2);
                    }
                }
            }
            items.extend(its);
        }
    }
    // well-formed logins whose locale is valid UTF-8 with multi-byte characters straddling every byte offset up
    // to 40 (a label, a key, a limit computed in bytes must not cut a character in two)
    for pad in 0..=24usize {
        for (ch, n) in [("\u{e9}", 14usize), ("\u{20ac}", 10), ("\u{1f600}", 6), ("\u{441}", 9)] {
            let loc = format!("{}{}", "a".repeat(pad), ch.repeat(n));
            for what in ["no-target", "timeout"] {
                if what == "timeout" && pad % 3 != 0 {
                    continue;
                }
                items.push(Item { state: 9, max: 10_000, class: format!("unicode-locale:{what}"), bytes_hex: String::new(), eof: false, malformed: false, refuse_now: false, enc_secret_len: None, tolerated_first: None, enc_token_len: None, locale: Some(loc.clone()), fault: None, fault_frame: 0 });
            }
        }
    }
    // ... and locales that are not shaped like `ll_cc` at all (pattern characters, letter case, characters whose
    // lower-case form has another byte length, blanks, NUL)
    for loc in crate::c03::ODD_LOCALES {
        for what in ["no-target", "timeout"] {
            items.push(Item { state: 9, max: 10_000, class: format!("odd-locale:{what}"), bytes_hex: String::new(), eof: false, malformed: false, refuse_now: false, enc_secret_len: None, tolerated_first: None, enc_token_len: None, locale: Some(loc.to_string()), fault: None, fault_frame: 0 });
        }
    }
    // transport faults: the connection is reset in every state (at a frame boundary and in the middle of every
    // frame legal there); every clientbound frame of a status exchange and of a login with slow routing (cookie
    // request ... Keep Alive, Store Cookie, Transfer) is refused by the transport, at once or after two bytes
    for state in 0..N_STATES {
        let mut pieces: Vec<Vec<u8>> = vec![vec![]];
        for (id, parts) in packets(state) {
            let honest = render(id, &parts);
            pieces.push(honest[..1].to_vec());
            pieces.push(honest[..honest.len() / 2].to_vec());
            pieces.push(honest[..honest.len() - 1].to_vec());
        }
        for bytes in pieces {
            items.push(Item { state, max: 10_000, class: "transport:reset".into(), bytes_hex: hex(&bytes), eof: false, malformed: false, refuse_now: false, enc_secret_len: None, tolerated_first: None, enc_token_len: None, locale: None, fault: Some("reset".into()), fault_frame: 0 });
        }
    }
    for (state, frames) in [(1usize, 2usize), (9, 9)] {
        for f in 0..frames {
            for fault in ["write-zero", "write-fail", "write-partial-zero", "write-partial-fail"] {
                items.push(Item { state, max: 10_000, class: format!("transport:{fault}"), bytes_hex: String::new(), eof: false, malformed: false, refuse_now: false, enc_secret_len: None, tolerated_first: None, enc_token_len: None, locale: None, fault: Some(fault.into()), fault_frame: f });
            }
        }
    }
    // number of clientbound packets the honest prefix alone produces, per state
    let baseline: Vec<usize> = (0..N_STATES)
        .map(|s| {
            let mut c = build(&Item { state: s, max: 10_000, class: String::new(), bytes_hex: String::new(), eof: false, malformed: false, refuse_now: false, enc_secret_len: None, tolerated_first: None, enc_token_len: None, locale: None, fault: None, fault_frame: 0 });
            c.script.truncate(prefix(s).len());
            c.horizon_ms = if s == 10 { 16_500 } else { 1 };
            crate::sim::run(&c).packets.len()
        })
        .collect();
    for it in [&items[0], &items[items.len() / 2], &items[items.len() - 1]] {
        assert_deterministic(&build(it), "C04");
    }
    let distinct: Mutex<HashSet<String>> = Mutex::new(HashSet::new());
    let errors = AtomicU64::new(0);
    let largest = AtomicU64::new(0);
    par_for(items.len(), |i| {
        let it = &items[i];
        let obs = crate::sim::run(&build(it));
        largest.fetch_max(obs.max_alloc as u64, Ordering::Relaxed);
        if obs.result.is_err() {
            errors.fetch_add(1, Ordering::Relaxed);
        }
        distinct.lock().unwrap().insert(format!("{}|{}|{}", it.state, it.class, obs.result.kind()));
        for (k, t) in judge(it, baseline[it.state], &obs) {
            rep.violation(Violation { key: k, text: format!("{t}; injected {}", &it.bytes_hex[..it.bytes_hex.len().min(80)]), replay: json!({"item": it}), weight: (it.state * 100_000 + it.bytes_hex.len()) as u64 });
        }
    });
    let d = distinct.lock().unwrap().len() as u64;
    rep.require("runs ending in an error", errors.load(Ordering::Relaxed), 1000);
    // (the counting allocator must be this process's global allocator, or the allocation oracle sees nothing)
    rep.require("bytes of the largest single allocation the counting allocator saw", largest.load(Ordering::Relaxed), 256);
    rep.require("distinct (state, class, result) triples", d, 100);
    rep.set("evaluations", json!(items.len()));
    rep.set("distinct_nontrivial", json!(d));
    rep.set("states", json!(N_STATES));
    rep.set("exhaustive", json!(true));
    rep.set("rule", json!("one hostile frame per run in each of 11 protocol states (the last: configuration phase, routing slow, the Keep Alive of the 16 s tick unanswered, hostile bytes at 17 s) x configured maximum {1,64,10000,2097151; before the handshake also 0, -1, i32::MIN, which admit no length}: 10 outer length prefixes (alone, and followed by EOF), 8 inner length prefixes per length-prefixed field of every packet legal in the state, truncation of the honest frame at every byte offset + EOF, invalid UTF-8 per string, 4 out-of-range ordinals per enum, RSA ciphertext shapes, valid RSA layers around secrets of 0-100 bytes and verify tokens of 0-117 bytes, 9 well-formed Keep Alive frames with extreme ids in the configuration states, every [len][id][b] frame for id 0..0x20,0x7f and b 0..255 and 256 two-byte bodies; well-formed logins whose locale has multi-byte characters straddling every byte offset up to 40, ending in the no-target and in the timeout Disconnect; transport faults: the connection reset at a frame boundary and inside every legal frame of every state, and every clientbound frame of a status exchange and of a login with slow routing refused by the transport (Ok(0) or BrokenPipe, at once or after two bytes). distinct_nontrivial = distinct (state, class, result)."));
    rep.sample(json!({"item": items[0]}));
    rep.sample(json!({"item": items[items.len() / 2]}));
    rep.sample(json!({"item": items[items.len() - 1]}));
    rep.assume("'every byte sequence' is covered as well-formed transcripts with one mutated frame per run (deviation bound 1) from the stated alphabet");
    rep.assume("the largest single allocation is measured by a counting global allocator armed only while the handler runs (harness transport and adapters excluded); bound 2*max_packet_length + 64 KiB");
    let after = after_final_disconnect(&rep);
    rep.require("cases after the router's final Disconnect (child process)", after, 20);
    rep.set("cases_after_the_final_disconnect", json!(after));
    extra(&rep);
    rep.finish()
}
