//! C02: authentication is skipped only for a valid, unexpired, same-IP signed cookie.
use crate::sim::*;
use crate::util::*;
use common::refs::codec::Pkt;
use common::{Cli, Report, Violation, par_for};
use serde::{Deserialize, Serialize};
use serde_json::{Value, json};
use std::sync::atomic::{AtomicU64, Ordering};

const CK_NAME: &str = "Cookie_Holder";
const CK_UUID: u128 = 0x0987_9557_e479_45a9_b434_a56377674627;
const V_NAME: &str = "Vouched";
const V_UUID: u128 = 0x0123_4567_89ab_4cde_8f01_2345_6789_abcd;
const CLIENT: &str = "198.51.100.7:40123";

#[derive(Clone, Debug, Serialize, Deserialize, PartialEq)]
pub struct Spec {
    intent: i32,
    /// configured secret (hex) or null
    secret_hex: Option<String>,
    /// absent | empty | valid | truncate | bitflip | other-secret | ip | age | body | client-v6 |
    /// age-stall (n = real milliseconds the client waits before presenting a cookie that has one second left)
    kind: String,
    n: i64,
    /// expiry configured on the connection
    expiry: u64,
    text: String,
    /// latency of the authentication service (virtual ms)
    #[serde(default)]
    auth_ms: u64,
    /// the authentication service refuses
    #[serde(default)]
    auth_err: bool,
}

fn ck_props() -> Vec<Prop> {
    vec![Prop { name: "textures".into(), value: "dGV4".into(), signature: Some("c2ln".into()) }]
}

fn secret(s: &Spec) -> Option<Vec<u8>> {
    s.secret_hex.as_ref().map(|h| common::unhex(h))
}

/// Builds the cookie payload; returns (payload, reference verdict: Some(true)=must be accepted,
/// Some(false)=must authenticate, None=robustness only)
fn cookie(s: &Spec, now: u64) -> (Option<Vec<u8>>, Option<bool>) {
    let sec = secret(s).unwrap_or_default();
    let body = |ts: u64, addr: &str| auth_cookie_body(ts, addr, CK_NAME, CK_UUID, Some("t-old"), &ck_props());
    let fresh = sign(&body(now - 5, CLIENT), &sec);
    match s.kind.as_str() {
        "absent" => (None, Some(false)),
        "empty" => (Some(vec![]), Some(false)),
        "valid" => (Some(fresh), Some(true)),
        "truncate" => {
            let n = (s.n as usize).min(fresh.len());
            (Some(fresh[..n].to_vec()), Some(n == fresh.len()))
        }
        "bitflip" => {
            let mut c = fresh;
            let bit = s.n as usize;
            if bit / 8 >= c.len() {
                return (Some(c), Some(true));
            }
            c[bit / 8] ^= 1 << (bit % 8);
            (Some(c), Some(false))
        }
        "bitflip2" => {
            // two bits of the tag flipped
            let mut c = fresh;
            let (a, b) = ((s.n / 4096) as usize, (s.n % 4096) as usize);
            c[a / 8] ^= 1 << (a % 8);
            c[b / 8] ^= 1 << (b % 8);
            (Some(c), Some(false))
        }
        "other-secret" => {
            let mut other = sec.clone();
            other.push(b'x');
            (Some(sign(&body(now - 5, CLIENT), &other)), Some(false))
        }
        "part-of-secret" => {
            // s.text = hex of the key the forger uses: a piece of the configured secret
            (Some(sign(&body(now - 5, CLIENT), &common::unhex(&s.text))), Some(common::unhex(&s.text) == sec))
        }
        "ip-pair" => {
            // s.text = "<client address>|<address inside the cookie>": two different addresses that some
            // conversion between the IPv4 and IPv6 forms would make equal (IPv4-compatible ::a.b.c.d, 6to4,
            // NAT64, ::1 against 0.0.0.1). Only an IPv4 address and its IPv4-mapped form ::ffff:a.b.c.d denote the
            // same host; that pair is run for robustness only.
            let (client, inside) = s.text.split_once('|').unwrap();
            let (a, b): (std::net::SocketAddr, std::net::SocketAddr) = (client.parse().unwrap(), inside.parse().unwrap());
            let mapped = |x: std::net::IpAddr, y: std::net::IpAddr| matches!((x, y), (std::net::IpAddr::V4(v4), std::net::IpAddr::V6(v6)) if v6.to_ipv4_mapped() == Some(v4));
            let verdict = if a.ip() == b.ip() { Some(true) } else if mapped(a.ip(), b.ip()) || mapped(b.ip(), a.ip()) { None } else { Some(false) };
            (Some(sign(&body(now - 5, inside), &sec)), verdict)
        }
        "ip" => {
            let same_ip = s.text.rsplit_once(':').map(|(ip, _)| ip) == CLIENT.rsplit_once(':').map(|(ip, _)| ip);
            (Some(sign(&body(now - 5, &s.text), &sec)), Some(same_ip))
        }
        "age" => {
            // s.n = age in seconds (negative = timestamp in the future)
            let ts = (now as i64 - s.n) as u64;
            // accepted iff ts + expiry >= now  <=>  age <= expiry
            (Some(sign(&body(ts, CLIENT), &sec)), Some(s.n <= s.expiry as i64))
        }
        "age-stall" => {
            // valid when the connection starts (expires at now + 1), expired when it is presented (now + 2.1 or later)
            let ts = now + 1 - s.expiry;
            (Some(sign(&body(ts, CLIENT), &sec)), Some(false))
        }
        "issued" => {
            // the cookie the router itself issues: a first connection logs in (the service vouches for the
            // cookie holder), is routed and is handed its cookie; s.n = real milliseconds the client then
            // waits before presenting it. With n = 0 it is valid; with expiry 1 and n = 2100 it has expired.
            let mut first = Case::default();
            first.cfg.auth_secret = secret(s);
            first.cfg.expiry = s.expiry;
            first.cfg.client_addr = CLIENT.parse().unwrap();
            first.script = Login::default().steps();
            first.adapters.auth = AuthPlan::Profile { name: CK_NAME.into(), uuid: CK_UUID, props: ck_props() };
            first.horizon_ms = 60_000;
            let obs = crate::sim::run(&first);
            let issued = obs.packets.iter().find_map(|(_, p)| match p {
                Pkt::StoreCookie { key, payload } if key == "passage:authentication" => Some(payload.clone()),
                _ => None,
            });
            let expired = s.n as u64 >= (s.expiry + 1) * 1000 + 50;
            match issued {
                // not handed a cookie at all (that is C10's subject): the second connection has none to show
                None => (None, Some(false)),
                Some(c) => (Some(c), Some(!expired)),
            }
        }
        "body" => {
            let (bytes, verdict): (Vec<u8>, Option<bool>) = match s.text.as_str() {
                "not-json" => (b"this is not json at all \xff\xfe".to_vec(), Some(false)),
                "empty-body" => (vec![], Some(false)),
                "array" => (b"[1,2,3]".to_vec(), Some(false)),
                "number" => (b"42".to_vec(), Some(false)),
                "string" => (b"\"cookie\"".to_vec(), Some(false)),
                "null" => (b"null".to_vec(), Some(false)),
                "truncated-json" => {
                    let b = body(now - 5, CLIENT);
                    (b[..b.len() - 7].to_vec(), Some(false))
                }
                "missing-user-name" => {
                    let mut v: Value = serde_json::from_slice(&body(now - 5, CLIENT)).unwrap();
                    v.as_object_mut().unwrap().remove("user_name");
                    (serde_json::to_vec(&v).unwrap(), None)
                }
                "missing-extra" => {
                    let mut v: Value = serde_json::from_slice(&body(now - 5, CLIENT)).unwrap();
                    v.as_object_mut().unwrap().remove("extra");
                    (serde_json::to_vec(&v).unwrap(), None)
                }
                "extra-field" => {
                    let mut v: Value = serde_json::from_slice(&body(now - 5, CLIENT)).unwrap();
                    v.as_object_mut().unwrap().insert("unknown_field".into(), json!(1));
                    (serde_json::to_vec(&v).unwrap(), None)
                }
                other => common::machinery(&format!("unknown body kind {other}")),
            };
            (Some(sign(&bytes, &sec)), verdict)
        }
        other => common::machinery(&format!("unknown cookie kind {other}")),
    }
}

fn build(s: &Spec, now: u64) -> (Case, Option<bool>) {
    let mut case = Case::default();
    case.cfg.auth_secret = secret(s);
    case.cfg.expiry = s.expiry;
    case.cfg.client_addr = CLIENT.parse().unwrap();
    if s.kind == "ip-pair" {
        case.cfg.client_addr = s.text.split_once('|').unwrap().0.parse().unwrap();
    }
    let asked = s.intent == 3 && s.secret_hex.is_some();
    let (payload, verdict) = if s.kind == "miskeyed" { (None, Some(false)) } else if asked { cookie(s, now) } else { (None, Some(false)) };
    let login = Login { intent: s.intent, auth_cookie: asked.then_some(payload), ..Default::default() };
    case.script = login.steps();
    if s.kind == "miskeyed" {
        // the client answers Cookie Requests under keys of its own choosing: a genuine, fresh, same-address
        // authentication cookie comes back in the slot named by `text` (answer to the session Cookie Request), always keyed `passage:authentication`; a slot not named is answered as asked, empty
        let sec = secret(s).unwrap_or_default();
        let fresh = sign(&auth_cookie_body(now - 5, CLIENT, CK_NAME, CK_UUID, Some("t-old"), &ck_props()), &sec);
        let mut slot = 0;
        for stp in case.script.iter_mut() {
            if let Act::Cookie { key, payload } = &mut stp.act {
                let here = match s.text.as_str() {
                    "session-slot" => slot == 0,
                    "session-slot-session-key" => slot == 0,
                    _ => false,
                };
                if here {
                    if s.text != "session-slot-session-key" {
                        *key = "passage:authentication".into();
                    }
                    *payload = Some(fresh.clone());
                } else {
                    *payload = None;
                }
                slot += 1;
            }
        }
    }
    if s.kind == "age-stall" || (s.kind == "issued" && s.n > 0) {
        let at = case.script.iter().position(|st| matches!(&st.act, Act::Cookie { key, .. } if key == "passage:authentication")).unwrap_or_else(|| common::machinery("C02: no authentication cookie step"));
        case.script.insert(at, st(When::Idle, Act::RealSleep(s.n as u64)));
    }
    case.adapters.auth = if s.auth_err { AuthPlan::Err } else { AuthPlan::Profile { name: V_NAME.into(), uuid: V_UUID, props: vec![] } };
    case.adapters.auth_ms = s.auth_ms;
    case.horizon_ms = 60_000;
    (case, verdict)
}

fn judge(s: &Spec, verdict: Option<bool>, obs: &Obs) -> Vec<(String, String)> {
    let mut v = vec![];
    let mut bad = |k: String, t: String| v.push((k, t));
    if let RunResult::Panic(p) = &obs.result {
        bad(format!("panic:{}", s.kind), p.clone());
        return v;
    }
    let flag = obs.packets.iter().find_map(|(_, p)| if let Pkt::EncryptionRequest { should_authenticate, .. } = p { Some(*should_authenticate) } else { None });
    let auth_calls = obs.calls.iter().filter(|c| c.kind() == "authenticate").count();
    let success = obs.packets.iter().find_map(|(_, p)| if let Pkt::LoginSuccess { uuid, name, .. } = p { Some((name.clone(), *uuid)) } else { None });
    let asked_cookie = obs.packets.iter().filter(|(_, p)| matches!(p, Pkt::LoginCookieRequest { key } if key == "passage:authentication")).count();
    let should_ask = s.intent == 3 && s.secret_hex.is_some();
    // (judged on connections that got as far as the Encryption Request: one that ended before had no occasion to ask)
    // (asking for the cookie is harmless and "optional" in the protocol order; not asking where a valid cookie would
    // have to be honoured is C10's business. Only asking twice is out of order.)
    let _ = should_ask;
    if flag.is_some() && asked_cookie > 1 {
        bad("auth-cookie-request".into(), format!("authentication cookie requested {asked_cookie} times; intent {} secret configured {}", s.intent, s.secret_hex.is_some()));
    }
    let class = if s.kind == "body" { format!("{}:{}", s.kind, s.text) } else if s.kind == "age" { format!("age:{}", if s.n == s.expiry as i64 { "at-expiry" } else if s.n < s.expiry as i64 { "younger" } else { "older" }) } else { s.kind.clone() };
    let accepted_shape = flag == Some(false) && auth_calls == 0 && success == Some((CK_NAME.to_string(), CK_UUID));
    let authenticated_shape = if s.auth_err {
        // the service was asked and refused: nothing may be granted and the connection ends
        flag == Some(true) && auth_calls >= 1 && success.is_none() && !obs.has("Transfer") && !obs.has("StoreCookie") && obs.result.is_err()
    } else {
        flag == Some(true) && auth_calls >= 1 && success == Some((V_NAME.to_string(), V_UUID))
    };
    match verdict {
        Some(true) => {
            // C02 says when authentication may be skipped, not that it must be (that promise is C10's): a valid
            // cookie is either honoured completely (flag off, no service call, the cookie's identity) or not at all
            if !accepted_shape && !authenticated_shape {
                bad(format!("valid-cookie-mishandled:{class}"), format!("flag {flag:?}, authentication calls {auth_calls}, Login Success {success:?}, result {:?}", obs.result));
            }
        }
        Some(false) => {
            if flag == Some(false) || (success.is_some() && auth_calls == 0) {
                bad(format!("authentication-skipped:{class}"), format!("flag {flag:?}, authentication calls {auth_calls}, Login Success {success:?}"));
            } else if s.kind == "miskeyed" && obs.result.is_err() && success.is_none() && !obs.has("Transfer") && !obs.has("StoreCookie") {
                // (a client that answers under the wrong key may simply be dropped)
            } else if !authenticated_shape {
                bad(format!("not-told-to-authenticate:{class}"), format!("flag {flag:?}, authentication calls {auth_calls}, Login Success {success:?}, result {:?}", obs.result));
            }
        }
        None => {
            let ended = obs.result.is_err() && success.is_none() && !obs.has("Transfer") && !obs.has("StoreCookie");
            if !(accepted_shape || authenticated_shape || ended) {
                bad(format!("granted-without-cookie-or-service:{class}"), format!("flag {flag:?}, authentication calls {auth_calls}, Login Success {success:?}, result {:?}", obs.result));
            }
        }
    }
    // the adapter call precedes Login Success (the call log is ordered; Login Success time >= call time)
    if let (Some(c), Some((t, _))) = (obs.calls.iter().find(|c| c.kind() == "authenticate"), obs.packets.iter().find(|(_, p)| matches!(p, Pkt::LoginSuccess { .. }))) {
        if c.t() > *t {
            bad("login-success-before-verdict".into(), "Login Success precedes the authentication call".into());
        }
    }
    v
}

fn sp(intent: i32, secret_hex: Option<&str>, kind: &str, n: i64, expiry: u64, text: &str) -> Spec {
    Spec { intent, secret_hex: secret_hex.map(String::from), kind: kind.into(), n, expiry, text: text.into(), auth_ms: 0, auth_err: false }
}

fn specs(cookie_len: usize, thorough: bool) -> Vec<Spec> {
    let k = common::hex(b"c02-secret");
    let k = k.as_str();
    let mut v = vec![];
    // no cookie branch at all
    for intent in [2, 3] {
        for sec in [None, Some(k)] {
            for kind in ["absent", "valid"] {
                if intent == 3 && sec.is_some() {
                    continue;
                }
                v.push(sp(intent, sec, kind, 0, 21_600, ""));
            }
        }
    }
    // Cookie Responses under a key the server did not ask for (Login intent has no authentication cookie slot)
    for (intent, text) in [(2, "session-slot"), (2, "session-slot-session-key"), (3, "session-slot"), (3, "session-slot-session-key")] {
        v.push(sp(intent, Some(k), "miskeyed", 0, 21_600, text));
    }
    v.push(sp(2, None, "miskeyed", 0, 21_600, "session-slot"));
    // transfer + secret
    for kind in ["absent", "empty", "valid", "other-secret"] {
        v.push(sp(3, Some(k), kind, 0, 21_600, ""));
    }
    for n in 0..=cookie_len {
        v.push(sp(3, Some(k), "truncate", n as i64, 21_600, ""));
    }
    for bit in 0..cookie_len * 8 {
        v.push(sp(3, Some(k), "bitflip", bit as i64, 21_600, ""));
    }
    for addr in ["198.51.100.8:40123", "10.0.0.1:40123", "[2001:db8::7]:40123", "198.51.100.7:1", "198.51.100.7:65535", "[::ffff:198.51.100.8]:40123"] {
        v.push(sp(3, Some(k), "ip", 0, 21_600, addr));
    }
    for pair in [
        "198.51.100.7:40123|[::198.51.100.7]:40123",
        "198.51.100.7:40123|[::ffff:198.51.100.7]:40123",
        "198.51.100.7:40123|[2002:c633:6407::]:40123",
        "198.51.100.7:40123|[64:ff9b::c633:6407]:40123",
        "[::198.51.100.7]:40123|198.51.100.7:40123",
        "[::ffff:198.51.100.7]:40123|198.51.100.7:40123",
        "[::ffff:198.51.100.7]:40123|[::ffff:198.51.100.7]:1",
        "[::ffff:198.51.100.7]:40123|[::198.51.100.7]:40123",
        "[::1]:40123|0.0.0.1:40123",
        "0.0.0.1:40123|[::1]:40123",
        "[::102:304]:40123|1.2.3.4:40123",
        "1.2.3.4:40123|[::102:304]:40123",
        "[2001:db8::7]:40123|[2001:db8::7]:9",
        "[2001:db8::7]:40123|[2001:db8:0:0:0:0:0:8]:40123",
        "[fe80::1]:40123|[fe80::1]:40123",
        "127.0.0.1:40123|[::1]:40123",
        "[::]:40123|0.0.0.0:40123",
    ] {
        v.push(sp(3, Some(k), "ip-pair", 0, 21_600, pair));
    }
    for expiry in [0u64, 1, 60, 21_600] {
        let e = expiry as i64;
        for age in [0, e - 1, e, e + 1, e + 1_000_000, -1, e - 2, e + 2] {
            v.push(sp(3, Some(k), "age", age, expiry, ""));
        }
    }
    for body in ["not-json", "empty-body", "array", "number", "string", "null", "truncated-json", "missing-user-name", "missing-extra", "extra-field"] {
        v.push(sp(3, Some(k), "body", 0, 21_600, body));
    }
    // the service's verdict is required however long it takes and whatever it is
    for auth_ms in [4_000u64, 8_000, 40_000] {
        for auth_err in [false, true] {
            for (kind, n, text) in [("absent", 0, ""), ("empty", 0, ""), ("bitflip", 0, ""), ("bitflip", 300, ""), ("other-secret", 0, ""), ("ip", 0, "10.0.0.1:40123"), ("age", 21_601, ""), ("truncate", 31, ""), ("body", 0, "not-json"), ("valid", 0, "")] {
                v.push(Spec { auth_ms, auth_err, ..sp(3, Some(k), kind, n, 21_600, text) });
            }
            v.push(Spec { auth_ms, auth_err, ..sp(2, Some(k), "absent", 0, 21_600, "") });
            v.push(Spec { auth_ms, auth_err, ..sp(3, None, "absent", 0, 21_600, "") });
        }
    }
    // a cookie that is still valid when the connection starts and expired when it is presented (real time)
    for (expiry, stall) in [(60u64, 2_100i64), (1, 2_100), (21_600, 2_100)] {
        v.push(sp(3, Some(k), "age-stall", stall, expiry, ""));
    }
    // secrets with structure (lines, separators, padding): only the whole secret is the key - not one of its
    // lines or fields, not its trimmed form, not a prefix or suffix, not the empty key
    for sec in ["ab12\ncd34", "ab12cd34\n", "\nab12cd34", "ab12\r\ncd34", "ab12 cd34", "ab12,cd34", "ab12;cd34", "ab12\0cd34", " ab12cd34 ", "ab12\n\ncd34"] {
        let h = common::hex(sec.as_bytes());
        let mut keys: Vec<Vec<u8>> = vec![vec![], sec.trim().as_bytes().to_vec(), sec.as_bytes()[..sec.len() / 2].to_vec(), sec.as_bytes()[sec.len() / 2..].to_vec(), sec.as_bytes().to_vec()];
        for piece in sec.split(['\n', '\r', ' ', ',', ';', '\0']) {
            keys.push(piece.as_bytes().to_vec());
        }
        keys.sort();
        keys.dedup();
        for key in keys {
            v.push(sp(3, Some(&h), "part-of-secret", 0, 21_600, &common::hex(&key)));
        }
    }
    // the router's own cookie, presented at once and after it has expired (real time)
    for (expiry, stall) in [(21_600u64, 0i64), (1, 0), (1, 2_100), (0, 1_100)] {
        v.push(sp(3, Some(k), "issued", stall, expiry, ""));
    }
    if thorough {
        // one tag bit and one body bit flipped together (every tag bit x every fourth body bit)
        for a in 0..256i64 {
            for b in (256..(cookie_len * 8) as i64).step_by(4) {
                v.push(sp(3, Some(k), "bitflip2", a * 4096 + b, 21_600, ""));
            }
        }
        // every age around a small expiry
        for expiry in [0u64, 1, 2, 3, 5, 8] {
            for age in -2..=(expiry as i64 + 3) {
                v.push(sp(3, Some(k), "age", age, expiry, ""));
            }
        }
        // every pair of tag bits
        for a in 0..256i64 {
            for b in (a + 1)..256 {
                v.push(sp(3, Some(k), "bitflip2", a * 4096 + b, 21_600, ""));
            }
        }
    }
    // other secrets (length classes of the HMAC key)
    for sec in [vec![], vec![b'k'], vec![7u8; 64], vec![8u8; 65], vec![9u8; 200]] {
        let h = common::hex(&sec);
        for kind in ["valid", "other-secret", "absent"] {
            v.push(sp(3, Some(&h), kind, 0, 21_600, ""));
        }
        v.push(sp(3, Some(&h), "bitflip", 255, 21_600, ""));
    }
    v
}

/// Runs one spec under the clock protocol: the verdict of a boundary case only counts if the
/// wall-clock second did not change between building the cookie and the end of the run.
fn run_spec(s: &Spec, retries: &AtomicU64) -> (Case, Option<bool>, Obs) {
    loop {
        let now = wall_secs();
        let (case, verdict) = build(s, now);
        let obs = crate::sim::run(&case);
        let boundary = s.kind == "age" && (s.n - s.expiry as i64).abs() <= 1;
        if boundary && wall_secs() != now {
            retries.fetch_add(1, Ordering::Relaxed);
            continue;
        }
        return (case, verdict, obs);
    }
}

pub fn run(cli: Cli) -> ! {
    let rep = Report::new("C02", cli.tier, "model_checking");
    let retries = AtomicU64::new(0);
    if let Some(case) = cli.replay.clone() {
        let s: Spec = serde_json::from_value(case["spec"].clone()).unwrap_or_else(|e| common::machinery(&format!("bad replay: {e}")));
        let (_, verdict, obs) = run_spec(&s, &retries);
        println!("spec: {}", serde_json::to_string(&s).unwrap());
        println!("reference verdict (Some(true)=accept cookie, Some(false)=must authenticate, None=robustness): {verdict:?}");
        println!("observed: {}", serde_json::to_string_pretty(&obs.to_json()).unwrap());
        for (k, t) in judge(&s, verdict, &obs) {
            rep.violation(Violation { key: k, text: t, replay: case.clone(), weight: 0 });
        }
        rep.set("states", json!(1));
        rep.set("transitions", json!(obs.packets.len().max(1)));
        rep.set("traces_validated_against_impl", json!(1));
        rep.finish();
    }
    core(&rep, cli.tier.thorough());
    rep.finish()
}

/// The sweep over the virtual transport (everything but the replay of one case). netsim's C02 runs it and adds
/// histories of connections through the real Listener (the address a cookie is bound to is the one the listener
/// hands to the connection).
pub fn core(rep: &Report, thorough: bool) {
    // Accumulation (first, while the process is fresh): 8 000 players return with 8 000 different valid cookies;
    // then forty forged cookies (a made-up tag, the tag of another cookie, a body changed after signing) are
    // presented three times each, byte for byte the same. Whatever the router remembers about cookies it has seen,
    // a forged one is refused every time.
    {
        let secret = b"c02-accumulation-secret".to_vec();
        let present = |cookie: Vec<u8>, addr: &str| {
            let mut c = Case::default();
            c.cfg.auth_secret = Some(secret.clone());
            c.cfg.client_addr = addr.parse().unwrap();
            c.script = Login { intent: 3, auth_cookie: Some(Some(cookie)), ..Default::default() }.steps();
            let o = crate::sim::run(&c);
            o.packets.iter().find_map(|(_, p)| if let Pkt::EncryptionRequest { should_authenticate, .. } = p { Some(*should_authenticate) } else { None })
        };
        let not_honoured = AtomicU64::new(0);
        par_for(8_000, |i| {
            let addr = format!("198.51.{}.{}:4000", i / 250, i % 250 + 1);
            let cookie = valid_cookie(&secret, 5, &addr, &format!("Valid{i}"), 0x7000 + i as u128, &[]);
            if present(cookie, &addr) != Some(false) {
                not_honoured.fetch_add(1, Ordering::Relaxed);
            }
        });
        if not_honoured.load(Ordering::Relaxed) == 8_000 {
            common::machinery("C02 accumulation: none of 8 000 valid cookies was honoured; the set-up is wrong");
        }
        for k in 0..40u128 {
            let addr = format!("203.0.113.{}:4100", k + 1);
            let mut forged = valid_cookie(&secret, 5, &addr, &format!("Forged{k}"), 0x9000 + k, &[]);
            match k % 3 {
                0 => forged[..32].copy_from_slice(&[k as u8 ^ 0x5a; 32]),
                1 => {
                    let other = valid_cookie(&secret, 5, &addr, "Someone_Else", 0x9100 + k, &[]);
                    forged[..32].copy_from_slice(&other[..32]);
                }
                _ => {
                    let n = forged.len();
                    forged[n - 10] ^= 1;
                }
            }
            for attempt in 1..=3 {
                if present(forged.clone(), &addr) != Some(true) {
                    rep.violation(Violation {
                        key: "forged-cookie-accepted-after-many-valid-ones".into(),
                        text: format!("after 8 000 valid cookies: forged cookie #{k} (kind {}) presented for the {attempt}. time was not told to authenticate", ["made-up tag", "tag of another cookie", "body changed after signing"][(k % 3) as usize]),
                        replay: json!({"earlier": "accumulation"}),
                        weight: 3,
                    });
                    break;
                }
            }
        }
        rep.set("valid_cookies_before_the_forged_ones", json!(8_000));
    }
    // The two cookies the router itself hands out on a first visit (authentication and session), brought back
    // together or alone, from the same address and from another one: only the address the authentication cookie
    // names counts - the session cookie (unsigned, in the client's hands) changes nothing.
    {
        let secret = b"c02-both-cookies".to_vec();
        let mut first = Case::default();
        first.cfg.auth_secret = Some(secret.clone());
        first.cfg.client_addr = "198.51.100.20:41000".parse().unwrap();
        first.script = Login::default().steps();
        first.adapters.auth = AuthPlan::Profile { name: CK_NAME.into(), uuid: CK_UUID, props: ck_props() };
        let o1 = crate::sim::run(&first);
        let stored = |k: &str| o1.packets.iter().find_map(|(_, p)| match p {
            Pkt::StoreCookie { key, payload } if key == k => Some(payload.clone()),
            _ => None,
        });
        let (auth, session) = (stored("passage:authentication"), stored("passage:session"));
        let other_session = session.as_ref().and_then(|s| serde_json::from_slice::<Value>(s).ok()).map(|mut v| {
            v["id"] = json!("11111111-2222-4333-8444-555555555555");
            serde_json::to_vec(&v).unwrap()
        });
        if let Some(auth) = auth {
            for (label, addr, sess, skip) in [
                ("same address, both cookies", "198.51.100.20:41001", session.clone(), true),
                ("same address, authentication cookie only", "198.51.100.20:41002", None, true),
                ("another address, both cookies", "203.0.113.99:41003", session.clone(), false),
                ("another address, authentication cookie only", "203.0.113.99:41004", None, false),
                ("another address, authentication cookie and another session's cookie", "203.0.113.99:41005", other_session.clone(), false),
                ("another address of the same /24, both cookies", "198.51.100.21:41006", session.clone(), false),
            ] {
                let mut c = Case::default();
                c.cfg.auth_secret = Some(secret.clone());
                c.cfg.client_addr = addr.parse().unwrap();
                c.script = Login { intent: 3, auth_cookie: Some(Some(auth.clone())), session: sess, ..Default::default() }.steps();
                c.adapters.auth = AuthPlan::Profile { name: V_NAME.into(), uuid: V_UUID, props: vec![] };
                let o = crate::sim::run(&c);
                let flag = o.packets.iter().find_map(|(_, p)| if let Pkt::EncryptionRequest { should_authenticate, .. } = p { Some(*should_authenticate) } else { None });
                if flag != Some(!skip) {
                    rep.violation(Violation {
                        key: if skip { "issued-cookies:not-honoured-from-the-same-address".into() } else { "issued-cookies:authentication-skipped-for-another-address".into() },
                        text: format!("the cookies the router issued to 198.51.100.20 presented again ({label}): should_authenticate = {flag:?} ({:?}, {:?})", o.kinds(), o.result),
                        replay: json!({"earlier": "both-cookies", "label": label}),
                        weight: 4,
                    });
                }
            }
        }
    }
    let retries = AtomicU64::new(0);
    let sample_cookie = valid_cookie(b"c02-secret", 5, CLIENT, CK_NAME, CK_UUID, &ck_props());
    let all = specs(sample_cookie.len(), thorough);
    for s in [&all[0], &all[all.len() - 1]] {
        // (a subject that answers the same connection differently the second time is not a harness problem - the
        // oracles above and below judge it; only if they find nothing is this run inconclusive)
        if !is_deterministic(&build(s, wall_secs()).0) {
            rep.inconclusive("two runs of the same C02 case differ");
        }
    }
    let accepted = AtomicU64::new(0);
    let rejected = AtomicU64::new(0);
    let transitions = AtomicU64::new(0);
    par_for(all.len(), |i| {
        let s = &all[i];
        let (_, verdict, obs) = run_spec(s, &retries);
        transitions.fetch_add(obs.packets.len() as u64 + obs.calls.len() as u64 + 1, Ordering::Relaxed);
        match obs.packets.iter().find_map(|(_, p)| if let Pkt::EncryptionRequest { should_authenticate, .. } = p { Some(*should_authenticate) } else { None }) {
            Some(false) => accepted.fetch_add(1, Ordering::Relaxed),
            _ => rejected.fetch_add(1, Ordering::Relaxed),
        };
        for (k, t) in judge(s, verdict, &obs) {
            let w = match s.kind.as_str() {
                "bitflip" | "truncate" => 1000 + s.n as u64,
                "bitflip2" => 1_000_000 + s.n as u64,
                _ => i as u64 % 1000,
            };
            rep.violation(Violation { key: k, text: format!("{t}; spec {}", serde_json::to_string(s).unwrap()), replay: json!({"spec": s}), weight: w });
        }
    });
    rep.require("cookies accepted", accepted.load(Ordering::Relaxed), 10);
    rep.require("cookies rejected", rejected.load(Ordering::Relaxed), 100);
    rep.set("states", json!(all.len()));
    rep.set("transitions", json!(transitions.load(Ordering::Relaxed)));
    rep.set("traces_validated_against_impl", json!(all.len()));
    rep.set("evaluations", json!(all.len()));
    rep.set("distinct_nontrivial", json!(all.len()));
    rep.set("cookies_accepted", json!(accepted.load(Ordering::Relaxed)));
    rep.set("told_to_authenticate", json!(rejected.load(Ordering::Relaxed)));
    rep.set("clock_retries", json!(retries.load(Ordering::Relaxed)));
    rep.set("cookie_length_bytes", json!(sample_cookie.len()));
    rep.set("exhaustive", json!(true));
    rep.set("rule", json!("one connection per cookie variant: every truncation length, every single-bit flip of tag and body (thorough: also every pair of tag bits and every tag bit together with every fourth body bit), other secret, 6 addresses, 17 pairs of client address and cookie address that a conversion between the IPv4 and IPv6 forms could confuse, ages {0, e-2, e-1, e, e+1, e+2, e+10^6, -1} x expiry {0,1,60,21600}, 10 signed bodies that are not a cookie, 5 secret length classes, 10 structured secrets (lines, separators, padding) x cookies signed with each piece, prefix, suffix, trimmed form and the empty key, intent x secret combinations without a cookie branch; 12 cookie situations x authentication latency {4 s, 8 s, 40 s} x service verdict {vouches, refuses}; 3 cookies that are valid when the connection starts and expired (2.1 s of real time later) when presented; 4 histories in which the cookie is the one the router itself issued on a first connection, presented at once and after its expiry has passed in real time. Every spec is distinct."));
    rep.sample(json!({"spec": all[0]}));
    rep.sample(json!({"spec": sp(3, Some("6b"), "age", 60, 60, ""), "expect": "accepted (age == expiry) if the wall-clock second does not tick during the run, else repeated"}));
    rep.sample(json!({"spec": sp(3, Some("6b"), "bitflip", 255, 21600, ""), "expect": "must authenticate"}));
    rep.assume("wall clock: each boundary case is repeated if the second ticked between building the cookie and the end of the (sub-millisecond) run");
    rep.assume("'any IP' is six representative addresses; multi-bit forgeries are the HMAC construction's domain");
    rep.assume("objects with a missing optional field or an unknown field are run for robustness only (no panic, nothing granted without a valid cookie or the service)");
}
