//! Helpers shared by the E1 checks: cookie forging with the independent HMAC, wall clock,
//! cookie inspection.
#![allow(dead_code)]
use crate::sim::Prop;
use common::refs::sha::hmac_sha256;
use serde_json::{Value, json};
use std::time::{SystemTime, UNIX_EPOCH};

pub fn wall_secs() -> u64 {
    SystemTime::now().duration_since(UNIX_EPOCH).expect("clock").as_secs()
}

pub fn uuid_text(u: u128) -> String {
    let h = format!("{u:032x}");
    format!("{}-{}-{}-{}-{}", &h[0..8], &h[8..12], &h[12..16], &h[16..20], &h[20..32])
}

pub fn props_json(props: &[Prop]) -> Value {
    Value::Array(props.iter().map(|p| json!({"name": p.name, "value": p.value, "signature": p.signature})).collect())
}

/// The JSON body of an authentication cookie.
pub fn auth_cookie_body(timestamp: u64, client_addr: &str, name: &str, uuid: u128, target: Option<&str>, props: &[Prop]) -> Vec<u8> {
    serde_json::to_vec(&json!({
        "timestamp": timestamp,
        "client_addr": client_addr,
        "user_name": name,
        "user_id": uuid_text(uuid),
        "target": target,
        "profile_properties": props_json(props),
        "extra": {},
    }))
    .unwrap()
}

/// tag || body with the independent HMAC-SHA-256
pub fn sign(body: &[u8], secret: &[u8]) -> Vec<u8> {
    let mut out = hmac_sha256(secret, body).to_vec();
    out.extend_from_slice(body);
    out
}

pub fn valid_cookie(secret: &[u8], age_s: i64, client_addr: &str, name: &str, uuid: u128, props: &[Prop]) -> Vec<u8> {
    let ts = (wall_secs() as i64 - age_s).max(0) as u64;
    sign(&auth_cookie_body(ts, client_addr, name, uuid, Some("t-old"), props), secret)
}

/// Splits a stored authentication cookie: (tag ok under `secret`, parsed body)
pub fn open_cookie(payload: &[u8], secret: &[u8]) -> (bool, Option<Value>) {
    if payload.len() < 32 {
        return (false, None);
    }
    let ok = hmac_sha256(secret, &payload[32..])[..] == payload[..32];
    (ok, serde_json::from_slice(&payload[32..]).ok())
}

pub fn parse_uuid_text(s: &str) -> Option<u128> {
    let h: String = s.chars().filter(|c| *c != '-').collect();
    u128::from_str_radix(&h, 16).ok()
}
