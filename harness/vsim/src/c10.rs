//! C10: issued cookies are verifiable, complete, and accepted on the next transfer.
//!
//! Two-connection histories: authenticate and get transferred, then reconnect presenting what
//! the first connection stored.
use crate::sim::*;
use crate::util::*;
use common::refs::codec::Pkt;
use common::{Cli, Report, Violation, par_for};
use serde::{Deserialize, Serialize};
use serde_json::{Value, json};
use std::collections::HashSet;
use std::net::SocketAddr;
use std::sync::Mutex;
use std::sync::atomic::{AtomicU64, Ordering};

#[derive(Clone, Debug, Serialize, Deserialize, PartialEq)]
pub struct Spec {
    ident: String,   // ascii | unicode | nil-uuid | long-name
    props: usize,    // 0 | 1 | 2
    target: String,  // empty | t | long | unicode
    addr: String,    // v4 | v6 | v4-mapped
    secret: String,  // none | empty | 1 | 64 | 65 | 200
    session: bool,   // a prior session cookie is presented
    host: String,    // empty | name | port0
    second: String,  // same | other-port | other-ip | login-intent | after-expiry
    /// real milliseconds the client of the first connection waits before Client Information (the cookie
    /// must be stamped with the time of issue, not with the time the connection started)
    #[serde(default)]
    stall_ms: u64,
    /// the second connection presents its authentication cookie but no session cookie (the client lost it, or
    /// never kept it): being routed, it must be given one
    #[serde(default)]
    second_without_session: bool,
    /// the transport of the first connection takes at most this many bytes per write (the long Store Cookie frame
    /// goes out in pieces)
    #[serde(default)]
    write_chunk: Option<usize>,
}

fn ident(s: &Spec) -> (String, u128) {
    match s.ident.as_str() {
        "unicode" => ("Zoë_ß😀".into(), 0x1111_2222_3333_4444_8555_6666_7777_8888),
        "nil-uuid" => ("Nil".into(), 0),
        "long-name" => ("N".repeat(100), u128::MAX),
        _ => ("Vouched_Name".into(), 0x0123_4567_89ab_4cde_8f01_2345_6789_abcd),
    }
}
fn props(n: usize) -> Vec<Prop> {
    let all = vec![
        Prop { name: "textures".into(), value: "dGV4dHVyZXM=".into(), signature: Some("c2ln".into()) },
        Prop { name: "cape".into(), value: "Y2FwZQ==".into(), signature: Some("c2lnMg==".into()) },
    ];
    match n {
        0 => vec![],
        1 => vec![Prop { name: "textures".into(), value: "dQ==".into(), signature: None }],
        // a realistic signed textures property: the Store Cookie frame that carries it is several KiB long
        3 => vec![Prop { name: "textures".into(), value: "ewogICJ0aW1lc3RhbXAiIDogMTcwMDAwMDAwMDAwMCwK".repeat(40), signature: Some("c2lnbmF0dXJlLWJ5dGVzLWJhc2U2NA==".repeat(22)) }],
        // six properties of 1000 bytes: the cookie that records them is longer than 5 KiB
        7 => (0..6).map(|k| Prop { name: format!("property-{k}"), value: format!("{k}").repeat(1000), signature: (k % 2 == 0).then(|| "c2ln".repeat(30)) }).collect(),
        // a dozen properties of 300 bytes
        8 => (0..12).map(|k| Prop { name: format!("p{k}"), value: "v".repeat(300), signature: None }).collect(),
        _ => all,
    }
}
fn target_id(s: &Spec) -> String {
    match s.target.as_str() {
        "empty" => "".into(),
        "long" => "T".repeat(200),
        "unicode" => "zürich-😀-1".into(),
        _ => "t".into(),
    }
}
fn addr(s: &Spec) -> SocketAddr {
    match s.addr.as_str() {
        "v6" => "[2001:db8::77]:40123".parse().unwrap(),
        "v4-mapped" => "[::ffff:198.51.100.7]:40123".parse().unwrap(),
        _ => "198.51.100.7:40123".parse().unwrap(),
    }
}
fn secret(s: &Spec) -> Option<Vec<u8>> {
    match s.secret.as_str() {
        "none" => None,
        "empty" => Some(vec![]),
        n => Some((0..n.parse::<usize>().unwrap()).map(|i| (i * 11 + 1) as u8).collect()),
    }
}
fn host(s: &Spec) -> (String, u16) {
    match s.host.as_str() {
        "empty" => ("".into(), 25565),
        "port0" => ("mc.example".into(), 0),
        _ => ("play.mc.example".into(), 65535),
    }
}

const SESSION_JSON: &[u8] = br#"{"id":"116934ee-8b5a-49d4-8b54-af0b4d6dbe5f","server_address":"old.example","server_port":1234}"#;

fn first_case(s: &Spec) -> Case {
    let (name, uuid) = ident(s);
    let (h, p) = host(s);
    let mut case = Case::default();
    case.cfg.auth_secret = secret(s);
    case.cfg.client_addr = addr(s);
    case.script = Login { host: h, port: p, session: s.session.then(|| SESSION_JSON.to_vec()), ..Default::default() }.steps();
    if s.stall_ms > 0 {
        let at = case.script.iter().position(|st| matches!(st.act, Act::ClientInfo { .. })).unwrap_or_else(|| common::machinery("C10: no Client Information step"));
        case.script.insert(at, st(When::Idle, Act::RealSleep(s.stall_ms)));
    }
    case.adapters.auth = AuthPlan::Profile { name, uuid, props: props(s.props) };
    case.transport.write_chunk = s.write_chunk;
    case.adapters.disc = DiscPlan::Targets(vec![TargetSpec::new("decoy", "10.0.0.9:1"), TargetSpec::new(&target_id(s), "10.1.2.3:25565")]);
    case.adapters.strat = StratPlan::Pick(1);
    case.horizon_ms = 60_000;
    case
}

fn second_case(s: &Spec, stored_auth: Option<Vec<u8>>, stored_session: Option<Vec<u8>>) -> Case {
    let (h, p) = host(s);
    let mut case = first_case(s);
    let mut a = addr(s);
    match s.second.as_str() {
        "other-port" => a.set_port(50_001),
        "other-ip" => a = if a.is_ipv4() { "198.51.100.8:40123".parse().unwrap() } else { "[2001:db8::78]:40123".parse().unwrap() },
        _ => {}
    }
    case.cfg.client_addr = a;
    if s.second == "after-expiry" {
        case.cfg.expiry = 0;
    }
    if s.second == "at-expiry" {
        // presented in the very second in which its age equals the expiry: "not older than the expiry" still holds
        case.cfg.expiry = 2;
    }
    if s.second == "same-huge-expiry" {
        // the largest configurable expiry: the cookie can never be too old
        case.cfg.expiry = u64::MAX;
    }
    let intent = if s.second == "login-intent" { 2 } else { 3 };
    let asked = intent == 3 && secret(s).is_some();
    // the verdict of the second connection's own authentication differs from the first one's
    case.adapters.auth = AuthPlan::Profile { name: "Second_Verdict".into(), uuid: 0x2222_0000_0000_4000_8000_0000_0000_2222, props: vec![] };
    case.script = Login { intent, host: h, port: p, session: stored_session, auth_cookie: asked.then_some(stored_auth), name: "Claim2".into(), uuid: 0x3333_0000_0000_4000_8000_0000_0000_3333, ..Default::default() }.steps();
    case
}

fn store_cookies(obs: &Obs) -> (Vec<Vec<u8>>, Vec<Vec<u8>>, Vec<String>) {
    let mut auth = vec![];
    let mut sess = vec![];
    let mut other = vec![];
    for (_, p) in &obs.packets {
        if let Pkt::StoreCookie { key, payload } = p {
            match key.as_str() {
                "passage:authentication" => auth.push(payload.clone()),
                "passage:session" => sess.push(payload.clone()),
                k => other.push(k.to_string()),
            }
        }
    }
    (auth, sess, other)
}

/// checks an issued authentication cookie
fn check_auth_cookie(bad: &mut dyn FnMut(&str, String), payload: &[u8], sec: &[u8], client: SocketAddr, name: &str, uuid: u128, props: &[Prop], target: &str, bracket: (u64, u64)) {
    let (ok, body) = open_cookie(payload, sec);
    if !ok {
        bad("auth-cookie-tag", format!("the first 32 bytes are not HMAC-SHA256(secret, rest); payload {} bytes", payload.len()));
    }
    let Some(b) = body else {
        bad("auth-cookie-body-not-json", format!("{}", String::from_utf8_lossy(&payload[32.min(payload.len())..])));
        return;
    };
    let got_addr: Option<SocketAddr> = b["client_addr"].as_str().and_then(|a| a.parse().ok());
    if got_addr != Some(client) {
        let fam = if client.is_ipv4() { "ipv4" } else if client.ip().to_string().contains("ffff") { "ipv4-mapped" } else { "ipv6" };
        bad(&format!("auth-cookie-client-address:{fam}"), format!("cookie records {:?}, the client address is {client}", b["client_addr"]));
    }
    if b["user_name"].as_str() != Some(name) || b["user_id"].as_str().and_then(parse_uuid_text) != Some(uuid) {
        bad("auth-cookie-identity", format!("cookie records ({}, {}), the authenticated identity is ({name}, {})", b["user_name"], b["user_id"], uuid_text(uuid)));
    }
    if b["profile_properties"] != props_json(props) {
        bad("auth-cookie-properties", format!("cookie records {}, the authenticated profile has {}", b["profile_properties"], props_json(props)));
    }
    if b["target"].as_str() != Some(target) {
        bad("auth-cookie-target", format!("cookie records target {}, the chosen target is {target:?}", b["target"]));
    }
    match b["timestamp"].as_u64() {
        Some(t) if t >= bracket.0 && t <= bracket.1 => {}
        other => bad("auth-cookie-timestamp", format!("timestamp {other:?} outside the run's wall-clock bracket {bracket:?}")),
    }
}

fn judge(s: &Spec, c1: &Case, o1: &Obs, o2: &Obs, o1b: &Obs, bracket: (u64, u64), bracket2: (u64, u64)) -> Vec<(String, String)> {
    let mut v = vec![];
    let mut bad = |k: &str, t: String| v.push((k.to_string(), t));
    for o in [o1, o2] {
        if let RunResult::Panic(p) = &o.result {
            bad("panic", p.clone());
            return v;
        }
        if o.garbled.is_some() || o.has("Unknown") || o.partial_tail > 0 {
            bad("undecodable-clientbound", format!("{:?} {:?}", o.garbled, o.kinds()));
            return v;
        }
    }
    let (name, uuid) = ident(s);
    let sec = secret(s);
    let (h, p) = host(s);
    // ---------------- first connection
    if !matches!(o1.packets.last(), Some((_, Pkt::Transfer { .. }))) || o1.result != RunResult::Ok {
        bad("first-connection-not-transferred", format!("{:?} {:?}", o1.kinds(), o1.result));
        return v;
    }
    let (auth1, sess1, other1) = store_cookies(o1);
    if !other1.is_empty() {
        bad("unknown-cookie-stored", format!("{other1:?}"));
    }
    match &sec {
        Some(sec) => {
            if auth1.len() != 1 {
                bad("auth-cookie-not-issued", format!("{} authentication cookies stored after a fresh authentication with a secret configured; packets {:?}", auth1.len(), o1.kinds()));
            } else {
                check_auth_cookie(&mut bad, &auth1[0], sec, c1.cfg.client_addr, &name, uuid, &props(s.props), &target_id(s), bracket);
            }
        }
        None => {
            if !auth1.is_empty() {
                bad("auth-cookie-issued-without-secret", format!("{} authentication cookies stored although no secret is configured", auth1.len()));
            }
        }
    }
    // session cookie exactly when none was presented
    if s.session && !sess1.is_empty() {
        bad("session-cookie-overwritten", "a session cookie was stored although the client presented one".into());
    }
    if !s.session {
        if sess1.len() != 1 {
            bad("session-cookie-not-issued", format!("{} session cookies stored; packets {:?}", sess1.len(), o1.kinds()));
        } else {
            let b: Value = serde_json::from_slice(&sess1[0]).unwrap_or(Value::Null);
            if b["server_address"].as_str() != Some(h.as_str()) || b["server_port"].as_u64() != Some(p as u64) {
                bad("session-cookie-host-port", format!("session cookie {b} but the handshake said {h:?}:{p}"));
            }
            let id = b["id"].as_str().and_then(parse_uuid_text);
            match id {
                Some(u) if (u >> 76) & 0xf == 4 => {}
                other => bad("session-cookie-id", format!("id {other:?} is not a version-4 UUID ({})", b["id"])),
            }
            // fresh: the same history run again yields another id
            let (_, sess1b, _) = store_cookies(o1b);
            if sess1b.len() == 1 {
                let b2: Value = serde_json::from_slice(&sess1b[0]).unwrap_or(Value::Null);
                if b2["id"] == b["id"] {
                    bad("session-cookie-id-not-fresh", format!("two connections were given the same session id {}", b["id"]));
                }
            }
        }
    }
    // ordering: cookies precede the Transfer (Transfer is last, checked above); nothing stored before Login Success
    // ---------------- second connection
    let flag = o2.packets.iter().find_map(|(_, p)| if let Pkt::EncryptionRequest { should_authenticate, .. } = p { Some(*should_authenticate) } else { None });
    let auth_calls = o2.calls.iter().filter(|c| c.kind() == "authenticate").count();
    let success = o2.packets.iter().find_map(|(_, p)| if let Pkt::LoginSuccess { uuid, name, .. } = p { Some((name.clone(), *uuid)) } else { None });
    let presented = sec.is_some() && auth1.len() == 1 && s.second != "login-intent";
    let accept = presented && matches!(s.second.as_str(), "same" | "other-port" | "same-huge-expiry" | "at-expiry");
    if accept {
        if flag != Some(false) || auth_calls != 0 || success != Some((name.clone(), uuid)) {
            let fam = if c1.cfg.client_addr.is_ipv4() { "ipv4" } else if s.addr == "v4-mapped" { "ipv4-mapped" } else { "ipv6" };
            bad(&format!("stored-cookie-not-accepted:{}:{fam}", s.second), format!("second connection: flag {flag:?}, authentication calls {auth_calls}, Login Success {success:?}; expected to be admitted as ({name}, {}) without re-authentication", uuid_text(uuid)));
            return v;
        }
        // routing sees the cookie's identity
        for c in &o2.calls {
            if let Call::Filter { name: n, uuid: u, .. } | Call::Select { name: n, uuid: u, .. } = c {
                if *n != name || *u != uuid {
                    bad("second-connection-routing-identity", format!("{} asked about ({n}, {u:032x})", c.kind()));
                }
            }
        }
        // if a refreshed cookie is issued it must verify and carry the cookie's identity (its time stamp may be the
        // original cookie's - which does not prolong anything - or the time of the refresh)
        let (auth2, _, _) = store_cookies(o2);
        for a in &auth2 {
            check_auth_cookie(&mut |k, t| bad(&format!("refreshed-{k}"), t), a, sec.as_ref().unwrap(), second_case(s, None, None).cfg.client_addr, &name, uuid, &props(s.props), &target_id(s), (bracket.0, bracket2.1));
        }
    } else {
        if flag != Some(true) || auth_calls == 0 || success != Some(("Second_Verdict".to_string(), 0x2222_0000_0000_4000_8000_0000_0000_2222)) {
            bad(&format!("stored-cookie-wrongly-accepted:{}", s.second), format!("second connection: flag {flag:?}, authentication calls {auth_calls}, Login Success {success:?}; expected re-authentication"));
        }
        // the second connection is itself freshly authenticated and routed
        let (auth2, _, _) = store_cookies(o2);
        match &sec {
            Some(sec) => {
                if auth2.len() != 1 {
                    bad(&format!("auth-cookie-not-reissued:{}", s.second), format!("second connection was re-authenticated and routed but {} authentication cookies were stored; packets {:?}", auth2.len(), o2.kinds()));
                } else {
                    check_auth_cookie(&mut |k, t| bad(&format!("second-{k}"), t), &auth2[0], sec, second_case(s, None, None).cfg.client_addr, "Second_Verdict", 0x2222_0000_0000_4000_8000_0000_0000_2222, &[], &target_id(s), bracket2);
                }
            }
            None => {
                if !auth2.is_empty() {
                    bad("auth-cookie-issued-without-secret", "second connection".into());
                }
            }
        }
    }
    if !matches!(o2.packets.last(), Some((_, Pkt::Transfer { .. }))) {
        bad("second-connection-not-transferred", format!("{:?} {:?}", o2.kinds(), o2.result));
    }
    // the second connection is routed as well: a session cookie exactly when it presented none
    let (_, sess2, _) = store_cookies(o2);
    let second_presented = !s.second_without_session && (s.session || !sess1.is_empty());
    if second_presented && !sess2.is_empty() {
        bad("second-connection-session-cookie-overwritten", "the second connection presented a session cookie and was stored another".into());
    }
    if !second_presented && sess2.len() != 1 {
        bad(&format!("second-connection-session-cookie-not-issued:{}", s.second), format!("the second connection ({}) presented no session cookie and was routed, but {} session cookies were stored; packets {:?}", s.second, sess2.len(), o2.kinds()));
    }
    v
}

fn specs(thorough: bool) -> Vec<Spec> {
    let idents = ["ascii", "unicode", "nil-uuid", "long-name"];
    let targets = ["t", "empty", "long", "unicode"];
    let hosts = ["name", "empty", "port0"];
    let addrs = ["v4", "v6", "v4-mapped"];
    let secrets = ["none", "empty", "1", "64", "65", "200"];
    let seconds = ["same", "other-port", "other-ip", "login-intent", "same-huge-expiry"];
    let mut v = vec![];
    let mut k = 0usize;
    for a in addrs {
        for sc in secrets {
            for sess in [false, true] {
                for snd in seconds {
                    if thorough {
                        for i in idents {
                            for pr in 0..3 {
                                for t in targets {
                                    for h in hosts {
                                        v.push(Spec { ident: i.into(), props: pr, target: t.into(), addr: a.into(), secret: sc.into(), session: sess, host: h.into(), second: snd.into(), stall_ms: 0, second_without_session: false, write_chunk: None });
                                    }
                                }
                            }
                        }
                    } else {
                        // the large domains are rotated against the complete small product
                        for r in 0..3 {
                            let j = k + r * 5;
                            v.push(Spec { ident: idents[j % 4].into(), props: j % 3, target: targets[(j / 2) % 4].into(), addr: a.into(), secret: sc.into(), session: sess, host: hosts[(j / 3) % 3].into(), second: snd.into(), stall_ms: 0, second_without_session: false, write_chunk: None });
                        }
                        k += 1;
                    }
                }
            }
        }
    }
    // one history per address family whose second connection comes after the cookie expired (costs real time)
    // a profile with a realistic signed textures property (the Store Cookie frame is several KiB) over transports
    // that take the frame whole, 1 KiB at a time, 100 bytes at a time and byte by byte
    for chunk in [None, Some(1024usize), Some(100), Some(1)] {
        for snd in ["same", "other-ip"] {
            for a in addrs {
                v.push(Spec { ident: "ascii".into(), props: 3, target: "t".into(), addr: a.into(), secret: "64".into(), session: false, host: "name".into(), second: snd.into(), stall_ms: 0, second_without_session: false, write_chunk: chunk });
            }
        }
    }
    // profiles with many or large properties (whatever their size, the cookie records all of them; the second visit
    // comes from another address, so nothing depends on whether a client can hand so large a cookie back)
    for pr in [7usize, 8] {
        for a in addrs {
            v.push(Spec { ident: "ascii".into(), props: pr, target: "t".into(), addr: a.into(), secret: "64".into(), session: false, host: "name".into(), second: "other-ip".into(), stall_ms: 0, second_without_session: false, write_chunk: None });
        }
    }
    // presented in the second in which its age equals the expiry (2 s, real time)
    for a in addrs {
        v.push(Spec { ident: "ascii".into(), props: 1, target: "t".into(), addr: a.into(), secret: "64".into(), session: false, host: "name".into(), second: "at-expiry".into(), stall_ms: 0, second_without_session: false, write_chunk: None });
    }
    // the second connection comes without a session cookie
    for snd in seconds {
        for sc in ["none", "64"] {
            for sess in [false, true] {
                v.push(Spec { ident: "ascii".into(), props: 1, target: "t".into(), addr: "v4".into(), secret: sc.into(), session: sess, host: "name".into(), second: snd.into(), stall_ms: 0, second_without_session: true, write_chunk: None });
            }
        }
    }
    for a in addrs {
        v.push(Spec { ident: "ascii".into(), props: 1, target: "t".into(), addr: a.into(), secret: "64".into(), session: false, host: "name".into(), second: "after-expiry".into(), stall_ms: 0, second_without_session: false, write_chunk: None });
    }
    // first connections on which real time passes before the cookie is issued
    for (a, sc) in [("v4", "64"), ("v6", "1")] {
        v.push(Spec { ident: "ascii".into(), props: 1, target: "t".into(), addr: a.into(), secret: sc.into(), session: false, host: "name".into(), second: "same".into(), stall_ms: 2_100, second_without_session: false, write_chunk: None });
    }
    v
}

fn run_history(s: &Spec) -> (Case, Obs, Obs, Obs, (u64, u64), (u64, u64)) {
    let c1 = first_case(s);
    // the cookie is issued after the client's real-time stall, which starts after t0
    let t0 = wall_secs() + s.stall_ms / 1000;
    let o1 = crate::sim::run(&c1);
    let t1 = wall_secs();
    let o1b = crate::sim::run(&c1);
    let (auth1, sess1, _) = store_cookies(&o1);
    if s.second == "after-expiry" {
        // expiry 0: the cookie is too old as soon as the wall clock has moved on by a second
        std::thread::sleep(std::time::Duration::from_millis(2100));
    }
    if s.second == "at-expiry" {
        // wait for the wall-clock second in which the cookie is exactly two seconds old (the verdict only counts
        // if that second has not passed when the second connection is over: see the retry in run_history)
        if let Some(ts) = auth1.first().and_then(|c| serde_json::from_slice::<Value>(&c[32.min(c.len())..]).ok()).and_then(|v| v["timestamp"].as_u64()) {
            while wall_secs() < ts + 2 {
                std::thread::sleep(std::time::Duration::from_millis(5));
            }
        }
    }
    let stored_session = if s.second_without_session { None } else if s.session { Some(SESSION_JSON.to_vec()) } else { sess1.first().cloned() };
    let c2 = second_case(s, auth1.first().cloned(), stored_session);
    let t2 = wall_secs();
    let o2 = crate::sim::run(&c2);
    let t3 = wall_secs();
    if s.second == "at-expiry" && t3 != t2 {
        // the second ticked while the second connection ran: the cookie's age is not known to be exactly the expiry
        return run_history(s);
    }
    (c1, o1, o2, o1b, (t0, t1), (t2, t3))
}

pub fn run(cli: Cli) -> ! {
    run_with(cli, &|_| {})
}

/// `extra` adds to the same report (netsim hosts this check and adds whole connections through the assembled router)
pub fn run_with(cli: Cli, extra: &dyn Fn(&Report)) -> ! {
    let rep = Report::new("C10", cli.tier, "model_checking");
    if let Some(case) = cli.replay.clone() {
        let s: Spec = serde_json::from_value(case["spec"].clone()).unwrap_or_else(|e| common::machinery(&format!("bad replay: {e}")));
        let (c1, o1, o2, o1b, b1, b2) = run_history(&s);
        println!("spec: {}", serde_json::to_string(&s).unwrap());
        println!("first connection: {}", serde_json::to_string_pretty(&o1.to_json()).unwrap());
        println!("second connection: {}", serde_json::to_string_pretty(&o2.to_json()).unwrap());
        for (k, t) in judge(&s, &c1, &o1, &o2, &o1b, b1, b2) {
            rep.violation(Violation { key: k, text: t, replay: case.clone(), weight: 0 });
        }
        rep.set("states", json!(2));
        rep.set("transitions", json!(2));
        rep.set("traces_validated_against_impl", json!(1));
        rep.finish();
    }
    let all = specs(cli.tier.thorough());
    for s in [&all[0], &all[all.len() / 2]] {
        assert_deterministic(&first_case(s), "C10");
    }
    let distinct: Mutex<HashSet<String>> = Mutex::new(HashSet::new());
    let (accepted, reauth, issued) = (AtomicU64::new(0), AtomicU64::new(0), AtomicU64::new(0));
    par_for(all.len(), |i| {
        // the slow (real-time) histories are at the end of the list; start them first
        let s = &all[all.len() - 1 - i];
        let (c1, o1, o2, o1b, b1, b2) = run_history(s);
        if store_cookies(&o1).0.len() == 1 {
            issued.fetch_add(1, Ordering::Relaxed);
        }
        match o2.packets.iter().find_map(|(_, p)| if let Pkt::EncryptionRequest { should_authenticate, .. } = p { Some(*should_authenticate) } else { None }) {
            Some(false) => accepted.fetch_add(1, Ordering::Relaxed),
            _ => reauth.fetch_add(1, Ordering::Relaxed),
        };
        distinct.lock().unwrap().insert(format!("{:?}|{:?}|{}", o1.kinds(), o2.kinds(), o2.calls.len()));
        for (k, t) in judge(s, &c1, &o1, &o2, &o1b, b1, b2) {
            rep.violation(Violation { key: k, text: format!("{t}; spec {}", serde_json::to_string(s).unwrap()), replay: json!({"spec": s}), weight: i as u64 });
        }
    });
    let d = distinct.lock().unwrap().len() as u64;
    rep.require("first connections with an issued cookie", issued.load(Ordering::Relaxed), 50);
    rep.require("second connections admitted by cookie", accepted.load(Ordering::Relaxed), 20);
    rep.require("second connections re-authenticated", reauth.load(Ordering::Relaxed), 20);
    rep.set("states", json!(all.len() * 3));
    rep.set("transitions", json!(all.len() * 3));
    rep.set("traces_validated_against_impl", json!(all.len()));
    rep.set("evaluations", json!(all.len()));
    rep.set("distinct_nontrivial", json!(d));
    rep.set("histories", json!(all.len()));
    rep.set("second_admitted_by_cookie", json!(accepted.load(Ordering::Relaxed)));
    rep.set("second_reauthenticated", json!(reauth.load(Ordering::Relaxed)));
    rep.set("exhaustive", json!(true));
    rep.set("rule", json!("two-connection histories (the first one run twice for the freshness of the session id): client address family(3) x secret(6) x prior session cookie(2) x second connection(same, other port, other IP, Login intent, same under the largest configurable expiry) complete; identity(4) x properties(3) x target identifier(4) x handshake host/port(3) complete in thorough, rotated in quick; plus three histories whose second connection comes after the expiry and three in the very second in which the cookie's age equals the expiry (real time) 20 whose second connection presents no session cookie (it is routed too and must be given one), and 24 with a several-KiB signed textures property over transports that take 1024, 100 or 1 byte per write. distinct_nontrivial = distinct (first trace, second trace, calls)."));
    rep.sample(json!({"spec": all[0]}));
    rep.sample(json!({"spec": all[all.len() - 1], "note": "second connection after expiry (2.1 s of real time, expiry 0)"}));
    rep.assume("on the cookie-authenticated path the presence of a refreshed cookie is not judged (if one is issued it must verify and carry the cookie's identity)");
    rep.assume("timestamps are checked against the wall-clock bracket of the run");
    // the n-th connection of a process is served like the first (5 000 logins one after the other; the ones around
    // powers of two and the last are judged)
    {
        let keep: Vec<usize> = vec![0, 1, 2, 3, 62, 63, 64, 65, 254, 255, 256, 257, 258, 1022, 1023, 1024, 1025, 4094, 4095, 4096, 4097, 4998, 4999];
        let many = crate::sim::after_many_connections(5_000, &keep, b"many-connections-secret");
        for (i, case, obs) in &many {
            for (aspect, text) in crate::sim::many_connections_faults(*i, case, obs, b"many-connections-secret") {
                if aspect == "cookie" {
                    rep.violation(Violation { key: "cookie-of-the-nth-connection".into(), text, replay: json!({"earlier": "many-connections", "index": i}), weight: 9 });
                }
            }
        }
        rep.set("connections_of_one_process_one_after_the_other", json!(5_000));
    }
    // "a session cookie with a fresh id": the ids handed out by one process never repeat - also not 256, 4 096 or
    // 65 536 connections later (cookie-less logins as connection #1, #3, #259, #4 099 and #65 537 of a run of status
    // exchanges; sequential section: nothing else runs in the process meanwhile)
    {
        let login = || {
            let mut c = Case::default();
            c.cfg.auth_secret = Some(b"session-id-secret".to_vec());
            c.script = Login::default().steps();
            let o = crate::sim::run(&c);
            o.packets.iter().find_map(|(_, p)| match p {
                Pkt::StoreCookie { key, payload } if key == "passage:session" => serde_json::from_slice::<Value>(payload).ok().and_then(|v| v["id"].as_str().map(String::from)),
                _ => None,
            })
        };
        let ping = |_: usize| {
            let mut c = Case::default();
            c.script = vec![st(When::Idle, Act::Handshake { proto: 769, host: "h".into(), port: 1, next: 1 }), st(When::Idle, Act::StatusRequest)];
            let _ = crate::sim::run(&c);
        };
        let mut ids: Vec<(usize, Option<String>)> = vec![(1, login())];
        let mut at = 1usize;
        for next in [3usize, 259, 4_099, 65_537] {
            par_for(next - at - 1, ping);
            ids.push((next, login()));
            at = next;
        }
        for (k, (n, id)) in ids.iter().enumerate() {
            if id.is_none() {
                rep.violation(Violation { key: "session-cookie-missing".into(), text: format!("connection #{n} of the process, a cookie-less login, was given no session cookie"), replay: json!({"earlier": "session-ids"}), weight: 9 });
            }
            if let Some((m, _)) = ids[..k].iter().find(|(_, other)| other.is_some() && other == id) {
                rep.violation(Violation { key: "session-id-not-fresh".into(), text: format!("connection #{n} of the process started a session with the id {id:?}, which connection #{m} had already been given"), replay: json!({"earlier": "session-ids"}), weight: 9 });
            }
        }
        rep.set("connections_between_the_first_and_the_last_session_id", json!(65_536));
    }
    extra(&rep);
    rep.finish()
}
