//! Independent reference primitives, written from the protocol description and the
//! FIPS texts. They deliberately share no code with passage-packets / passage-protocol /
//! the sha1, sha2, hmac, cfb8, num-bigint crates used by the implementation. The only
//! borrowed primitive is the raw AES-128 block function (`aes::Aes128`).

pub mod cfb8;
pub mod codec;
pub mod sha;
