//! AES-128-CFB8 with key = IV, one continuous shift register.
use aes::Aes128;
use aes::cipher::{BlockEncrypt, KeyInit, generic_array::GenericArray};

#[derive(Clone)]
pub struct Cfb8 {
    aes: Aes128,
    reg: [u8; 16],
}

impl Cfb8 {
    pub fn new(secret: &[u8; 16]) -> Self {
        Self { aes: Aes128::new(GenericArray::from_slice(secret)), reg: *secret }
    }

    fn keystream_byte(&self) -> u8 {
        let mut block = GenericArray::clone_from_slice(&self.reg);
        self.aes.encrypt_block(&mut block);
        block[0]
    }

    fn shift(&mut self, cipher_byte: u8) {
        self.reg.copy_within(1..16, 0);
        self.reg[15] = cipher_byte;
    }

    pub fn encrypt_byte(&mut self, p: u8) -> u8 {
        let c = p ^ self.keystream_byte();
        self.shift(c);
        c
    }

    pub fn decrypt_byte(&mut self, c: u8) -> u8 {
        let p = c ^ self.keystream_byte();
        self.shift(c);
        p
    }

    pub fn encrypt(&mut self, data: &[u8]) -> Vec<u8> {
        data.iter().map(|b| self.encrypt_byte(*b)).collect()
    }

    pub fn decrypt(&mut self, data: &[u8]) -> Vec<u8> {
        data.iter().map(|b| self.decrypt_byte(*b)).collect()
    }
}

#[cfg(test)]
mod tests {
    use super::*;
    #[test]
    fn roundtrip() {
        let k = *b"verysecuresecret";
        let mut e = Cfb8::new(&k);
        let mut d = Cfb8::new(&k);
        let msg = b"hello world, this is a longer message than one block";
        let c = e.encrypt(msg);
        assert_ne!(&c[..], &msg[..]);
        assert_eq!(d.decrypt(&c), msg);
    }
}
