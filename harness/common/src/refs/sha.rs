//! SHA-1, SHA-256 and HMAC-SHA-256 written from FIPS 180-4 / RFC 2104.

pub fn sha1(data: &[u8]) -> [u8; 20] {
    let mut h: [u32; 5] = [0x67452301, 0xEFCDAB89, 0x98BADCFE, 0x10325476, 0xC3D2E1F0];
    let mut msg = data.to_vec();
    let bitlen = (data.len() as u64).wrapping_mul(8);
    msg.push(0x80);
    while msg.len() % 64 != 56 {
        msg.push(0);
    }
    msg.extend_from_slice(&bitlen.to_be_bytes());
    for chunk in msg.chunks(64) {
        let mut w = [0u32; 80];
        for i in 0..16 {
            w[i] = u32::from_be_bytes([chunk[4 * i], chunk[4 * i + 1], chunk[4 * i + 2], chunk[4 * i + 3]]);
        }
        for i in 16..80 {
            w[i] = (w[i - 3] ^ w[i - 8] ^ w[i - 14] ^ w[i - 16]).rotate_left(1);
        }
        let (mut a, mut b, mut c, mut d, mut e) = (h[0], h[1], h[2], h[3], h[4]);
        for (i, wi) in w.iter().enumerate() {
            let (f, k) = match i {
                0..=19 => ((b & c) | ((!b) & d), 0x5A827999u32),
                20..=39 => (b ^ c ^ d, 0x6ED9EBA1),
                40..=59 => ((b & c) | (b & d) | (c & d), 0x8F1BBCDC),
                _ => (b ^ c ^ d, 0xCA62C1D6),
            };
            let t = a.rotate_left(5).wrapping_add(f).wrapping_add(e).wrapping_add(k).wrapping_add(*wi);
            e = d;
            d = c;
            c = b.rotate_left(30);
            b = a;
            a = t;
        }
        h[0] = h[0].wrapping_add(a);
        h[1] = h[1].wrapping_add(b);
        h[2] = h[2].wrapping_add(c);
        h[3] = h[3].wrapping_add(d);
        h[4] = h[4].wrapping_add(e);
    }
    let mut out = [0u8; 20];
    for i in 0..5 {
        out[4 * i..4 * i + 4].copy_from_slice(&h[i].to_be_bytes());
    }
    out
}

const K256: [u32; 64] = [
    0x428a2f98, 0x71374491, 0xb5c0fbcf, 0xe9b5dba5, 0x3956c25b, 0x59f111f1, 0x923f82a4, 0xab1c5ed5,
    0xd807aa98, 0x12835b01, 0x243185be, 0x550c7dc3, 0x72be5d74, 0x80deb1fe, 0x9bdc06a7, 0xc19bf174,
    0xe49b69c1, 0xefbe4786, 0x0fc19dc6, 0x240ca1cc, 0x2de92c6f, 0x4a7484aa, 0x5cb0a9dc, 0x76f988da,
    0x983e5152, 0xa831c66d, 0xb00327c8, 0xbf597fc7, 0xc6e00bf3, 0xd5a79147, 0x06ca6351, 0x14292967,
    0x27b70a85, 0x2e1b2138, 0x4d2c6dfc, 0x53380d13, 0x650a7354, 0x766a0abb, 0x81c2c92e, 0x92722c85,
    0xa2bfe8a1, 0xa81a664b, 0xc24b8b70, 0xc76c51a3, 0xd192e819, 0xd6990624, 0xf40e3585, 0x106aa070,
    0x19a4c116, 0x1e376c08, 0x2748774c, 0x34b0bcb5, 0x391c0cb3, 0x4ed8aa4a, 0x5b9cca4f, 0x682e6ff3,
    0x748f82ee, 0x78a5636f, 0x84c87814, 0x8cc70208, 0x90befffa, 0xa4506ceb, 0xbef9a3f7, 0xc67178f2,
];

pub fn sha256(data: &[u8]) -> [u8; 32] {
    let mut h: [u32; 8] = [
        0x6a09e667, 0xbb67ae85, 0x3c6ef372, 0xa54ff53a, 0x510e527f, 0x9b05688c, 0x1f83d9ab, 0x5be0cd19,
    ];
    let mut msg = data.to_vec();
    let bitlen = (data.len() as u64).wrapping_mul(8);
    msg.push(0x80);
    while msg.len() % 64 != 56 {
        msg.push(0);
    }
    msg.extend_from_slice(&bitlen.to_be_bytes());
    for chunk in msg.chunks(64) {
        let mut w = [0u32; 64];
        for i in 0..16 {
            w[i] = u32::from_be_bytes([chunk[4 * i], chunk[4 * i + 1], chunk[4 * i + 2], chunk[4 * i + 3]]);
        }
        for i in 16..64 {
            let s0 = w[i - 15].rotate_right(7) ^ w[i - 15].rotate_right(18) ^ (w[i - 15] >> 3);
            let s1 = w[i - 2].rotate_right(17) ^ w[i - 2].rotate_right(19) ^ (w[i - 2] >> 10);
            w[i] = w[i - 16].wrapping_add(s0).wrapping_add(w[i - 7]).wrapping_add(s1);
        }
        let mut v = h;
        for i in 0..64 {
            let s1 = v[4].rotate_right(6) ^ v[4].rotate_right(11) ^ v[4].rotate_right(25);
            let ch = (v[4] & v[5]) ^ ((!v[4]) & v[6]);
            let t1 = v[7].wrapping_add(s1).wrapping_add(ch).wrapping_add(K256[i]).wrapping_add(w[i]);
            let s0 = v[0].rotate_right(2) ^ v[0].rotate_right(13) ^ v[0].rotate_right(22);
            let maj = (v[0] & v[1]) ^ (v[0] & v[2]) ^ (v[1] & v[2]);
            let t2 = s0.wrapping_add(maj);
            v[7] = v[6];
            v[6] = v[5];
            v[5] = v[4];
            v[4] = v[3].wrapping_add(t1);
            v[3] = v[2];
            v[2] = v[1];
            v[1] = v[0];
            v[0] = t1.wrapping_add(t2);
        }
        for i in 0..8 {
            h[i] = h[i].wrapping_add(v[i]);
        }
    }
    let mut out = [0u8; 32];
    for i in 0..8 {
        out[4 * i..4 * i + 4].copy_from_slice(&h[i].to_be_bytes());
    }
    out
}

pub fn hmac_sha256(key: &[u8], msg: &[u8]) -> [u8; 32] {
    let mut k = [0u8; 64];
    if key.len() > 64 {
        k[..32].copy_from_slice(&sha256(key));
    } else {
        k[..key.len()].copy_from_slice(key);
    }
    let mut inner = Vec::with_capacity(64 + msg.len());
    inner.extend(k.iter().map(|b| b ^ 0x36));
    inner.extend_from_slice(msg);
    let ih = sha256(&inner);
    let mut outer = Vec::with_capacity(96);
    outer.extend(k.iter().map(|b| b ^ 0x5c));
    outer.extend_from_slice(&ih);
    sha256(&outer)
}

/// Minecraft's server hash: SHA-1 digest read as signed big-endian two's complement,
/// lowercase hex, no leading zeros, '-' when negative.
pub fn minecraft_hex(digest: &[u8; 20]) -> String {
    let negative = digest[0] & 0x80 != 0;
    let mut mag = *digest;
    if negative {
        // two's complement negate: invert, add one
        let mut carry = 1u16;
        for b in mag.iter_mut().rev() {
            let v = (!*b) as u16 + carry;
            *b = v as u8;
            carry = v >> 8;
        }
    }
    let mut s = String::new();
    for b in mag {
        s.push_str(&format!("{b:02x}"));
    }
    let t = s.trim_start_matches('0');
    let t = if t.is_empty() { "0" } else { t };
    if negative { format!("-{t}") } else { t.to_string() }
}

#[cfg(test)]
mod tests {
    use super::*;
    fn hx(b: &[u8]) -> String {
        b.iter().map(|x| format!("{x:02x}")).collect()
    }
    #[test]
    fn vectors() {
        assert_eq!(hx(&sha1(b"abc")), "a9993e364706816aba3e25717850c26c9cd0d89d");
        assert_eq!(hx(&sha256(b"abc")), "ba7816bf8f01cfea414140de5dae2223b00361a396177a9cb410ff61f20015ad");
        assert_eq!(
            hx(&hmac_sha256(b"key", b"The quick brown fox jumps over the lazy dog")),
            "f7bc83f430538424b13298e6aa6fb143ef4d59a14946175997479dbc2d1a3cd8"
        );
        assert_eq!(minecraft_hex(&sha1(b"Notch")), "4ed1f46bbe04bc756bcb17c0c7ce3e4632f06a48");
        assert_eq!(minecraft_hex(&sha1(b"jeb_")), "-7c9d5b0044c130109a5d7b5fb5c317c02b4e28c1");
        assert_eq!(minecraft_hex(&sha1(b"simon")), "88e16a1019277b15d58faf0541e11910eb756f6");
    }
}
