//! Independent Minecraft Java protocol codec (written from the protocol documentation;
//! shares nothing with passage-packets).

use serde_json::{Value, json};

#[derive(Debug, Clone, PartialEq, Eq)]
pub enum DecodeError {
    Short,
    VarIntTooLong,
    Utf8,
    Trailing(usize),
    Other(String),
}

pub fn put_varint(out: &mut Vec<u8>, v: i32) {
    let mut u = v as u32;
    loop {
        let b = (u & 0x7f) as u8;
        u >>= 7;
        if u == 0 {
            out.push(b);
            return;
        }
        out.push(b | 0x80);
    }
}

pub fn put_varlong(out: &mut Vec<u8>, v: i64) {
    let mut u = v as u64;
    loop {
        let b = (u & 0x7f) as u8;
        u >>= 7;
        if u == 0 {
            out.push(b);
            return;
        }
        out.push(b | 0x80);
    }
}

pub fn varint(v: i32) -> Vec<u8> {
    let mut o = vec![];
    put_varint(&mut o, v);
    o
}

pub fn varlong(v: i64) -> Vec<u8> {
    let mut o = vec![];
    put_varlong(&mut o, v);
    o
}

/// Returns (value, bytes consumed).
pub fn get_varint(b: &[u8]) -> Result<(i32, usize), DecodeError> {
    let mut v: u32 = 0;
    for i in 0..5 {
        let Some(x) = b.get(i) else { return Err(DecodeError::Short) };
        v |= ((x & 0x7f) as u32) << (7 * i);
        if x & 0x80 == 0 {
            return Ok((v as i32, i + 1));
        }
    }
    Err(DecodeError::VarIntTooLong)
}

pub fn get_varlong(b: &[u8]) -> Result<(i64, usize), DecodeError> {
    let mut v: u64 = 0;
    for i in 0..10 {
        let Some(x) = b.get(i) else { return Err(DecodeError::Short) };
        v |= ((x & 0x7f) as u64) << (7 * i);
        if x & 0x80 == 0 {
            return Ok((v as i64, i + 1));
        }
    }
    Err(DecodeError::VarIntTooLong)
}

#[derive(Default, Clone)]
pub struct W(pub Vec<u8>);

impl W {
    pub fn new() -> Self {
        W(vec![])
    }
    pub fn varint(mut self, v: i32) -> Self {
        put_varint(&mut self.0, v);
        self
    }
    pub fn varlong(mut self, v: i64) -> Self {
        put_varlong(&mut self.0, v);
        self
    }
    pub fn string(mut self, s: &str) -> Self {
        put_varint(&mut self.0, s.len() as i32);
        self.0.extend_from_slice(s.as_bytes());
        self
    }
    pub fn bytes(mut self, b: &[u8]) -> Self {
        put_varint(&mut self.0, b.len() as i32);
        self.0.extend_from_slice(b);
        self
    }
    pub fn raw(mut self, b: &[u8]) -> Self {
        self.0.extend_from_slice(b);
        self
    }
    pub fn u8(mut self, v: u8) -> Self {
        self.0.push(v);
        self
    }
    pub fn bool(self, v: bool) -> Self {
        self.u8(if v { 1 } else { 0 })
    }
    pub fn u16(mut self, v: u16) -> Self {
        self.0.extend_from_slice(&v.to_be_bytes());
        self
    }
    pub fn i32(mut self, v: i32) -> Self {
        self.0.extend_from_slice(&v.to_be_bytes());
        self
    }
    pub fn u64(mut self, v: u64) -> Self {
        self.0.extend_from_slice(&v.to_be_bytes());
        self
    }
    pub fn u128(mut self, v: u128) -> Self {
        self.0.extend_from_slice(&v.to_be_bytes());
        self
    }
    pub fn done(self) -> Vec<u8> {
        self.0
    }
}

pub struct R<'a> {
    pub b: &'a [u8],
    pub pos: usize,
}

impl<'a> R<'a> {
    pub fn new(b: &'a [u8]) -> Self {
        R { b, pos: 0 }
    }
    pub fn rest(&self) -> &'a [u8] {
        &self.b[self.pos..]
    }
    pub fn take(&mut self, n: usize) -> Result<&'a [u8], DecodeError> {
        if self.b.len() - self.pos < n {
            return Err(DecodeError::Short);
        }
        let s = &self.b[self.pos..self.pos + n];
        self.pos += n;
        Ok(s)
    }
    pub fn varint(&mut self) -> Result<i32, DecodeError> {
        let (v, n) = get_varint(self.rest())?;
        self.pos += n;
        Ok(v)
    }
    pub fn u8(&mut self) -> Result<u8, DecodeError> {
        Ok(self.take(1)?[0])
    }
    pub fn bool(&mut self) -> Result<bool, DecodeError> {
        Ok(self.u8()? != 0)
    }
    pub fn u16(&mut self) -> Result<u16, DecodeError> {
        let s = self.take(2)?;
        Ok(u16::from_be_bytes([s[0], s[1]]))
    }
    pub fn i32(&mut self) -> Result<i32, DecodeError> {
        let s = self.take(4)?;
        Ok(i32::from_be_bytes([s[0], s[1], s[2], s[3]]))
    }
    pub fn u64(&mut self) -> Result<u64, DecodeError> {
        let s = self.take(8)?;
        Ok(u64::from_be_bytes(s.try_into().unwrap()))
    }
    pub fn u128(&mut self) -> Result<u128, DecodeError> {
        let s = self.take(16)?;
        Ok(u128::from_be_bytes(s.try_into().unwrap()))
    }
    pub fn bytes(&mut self) -> Result<&'a [u8], DecodeError> {
        let n = self.varint()?;
        if n < 0 {
            return Err(DecodeError::Other(format!("negative length {n}")));
        }
        self.take(n as usize)
    }
    pub fn string(&mut self) -> Result<String, DecodeError> {
        let b = self.bytes()?;
        String::from_utf8(b.to_vec()).map_err(|_| DecodeError::Utf8)
    }
    pub fn end(&self) -> Result<(), DecodeError> {
        if self.pos == self.b.len() { Ok(()) } else { Err(DecodeError::Trailing(self.b.len() - self.pos)) }
    }
}

/// `[length][id][body]`
pub fn frame(id: i32, body: &[u8]) -> Vec<u8> {
    let mut inner = varint(id);
    inner.extend_from_slice(body);
    let mut out = varint(inner.len() as i32);
    out.extend_from_slice(&inner);
    out
}

/// Splits complete frames off the front of `buf`: returns (frames as (id, body), bytes consumed).
/// Stops at the first incomplete or undecodable frame; `Err` describes an undecodable prefix.
pub fn split_frames(buf: &[u8]) -> (Vec<(i32, Vec<u8>)>, usize, Option<DecodeError>) {
    let mut out = vec![];
    let mut pos = 0;
    loop {
        if pos == buf.len() {
            return (out, pos, None);
        }
        let (len, n) = match get_varint(&buf[pos..]) {
            Ok(x) => x,
            Err(DecodeError::Short) => return (out, pos, None),
            Err(e) => return (out, pos, Some(e)),
        };
        if len <= 0 {
            return (out, pos, Some(DecodeError::Other(format!("frame length {len}"))));
        }
        let len = len as usize;
        if buf.len() - pos - n < len {
            return (out, pos, None);
        }
        let body = &buf[pos + n..pos + n + len];
        let (id, m) = match get_varint(body) {
            Ok(x) => x,
            Err(e) => return (out, pos, Some(e)),
        };
        out.push((id, body[m..].to_vec()));
        pos += n + len;
    }
}

// ------------------------------------------------------------------------------------
// serverbound packet builders (the client side)
// ------------------------------------------------------------------------------------

pub fn sb_handshake(protocol: i32, host: &str, port: u16, next_state: i32) -> Vec<u8> {
    frame(0x00, &W::new().varint(protocol).string(host).u16(port).varint(next_state).done())
}
pub fn sb_status_request() -> Vec<u8> {
    frame(0x00, &[])
}
pub fn sb_ping(payload: u64) -> Vec<u8> {
    frame(0x01, &W::new().u64(payload).done())
}
pub fn sb_login_start(name: &str, uuid: u128) -> Vec<u8> {
    frame(0x00, &W::new().string(name).u128(uuid).done())
}
pub fn sb_encryption_response(secret_ct: &[u8], token_ct: &[u8]) -> Vec<u8> {
    frame(0x01, &W::new().bytes(secret_ct).bytes(token_ct).done())
}
pub fn sb_login_plugin_response() -> Vec<u8> {
    frame(0x02, &W::new().varint(0).bool(false).done())
}
pub fn sb_login_ack() -> Vec<u8> {
    frame(0x03, &[])
}
pub fn sb_login_cookie_response(key: &str, payload: Option<&[u8]>) -> Vec<u8> {
    let w = W::new().string(key).bool(payload.is_some());
    let w = match payload {
        Some(p) => w.bytes(p),
        None => w,
    };
    frame(0x04, &w.done())
}
#[allow(clippy::too_many_arguments)]
pub fn sb_client_information_body(
    locale: &str,
    view_distance: i8,
    chat_mode: i32,
    chat_colors: bool,
    skin: u8,
    main_hand: i32,
    text_filtering: bool,
    server_listing: bool,
    particle: i32,
) -> Vec<u8> {
    W::new()
        .string(locale)
        .u8(view_distance as u8)
        .varint(chat_mode)
        .bool(chat_colors)
        .u8(skin)
        .varint(main_hand)
        .bool(text_filtering)
        .bool(server_listing)
        .varint(particle)
        .done()
}
pub fn sb_client_information(locale: &str) -> Vec<u8> {
    frame(0x00, &sb_client_information_body(locale, 10, 0, true, 0x7f, 1, false, true, 0))
}
pub fn sb_conf_cookie_response(key: &str, payload: Option<&[u8]>) -> Vec<u8> {
    let w = W::new().string(key).bool(payload.is_some());
    let w = match payload {
        Some(p) => w.bytes(p),
        None => w,
    };
    frame(0x01, &w.done())
}
pub fn sb_plugin_message(channel: &str, data: &[u8]) -> Vec<u8> {
    frame(0x02, &W::new().string(channel).raw(data).done())
}
pub fn sb_ack_finish_configuration() -> Vec<u8> {
    frame(0x03, &[])
}
pub fn sb_keep_alive(id: u64) -> Vec<u8> {
    frame(0x04, &W::new().u64(id).done())
}
pub fn sb_pong(id: i32) -> Vec<u8> {
    frame(0x05, &W::new().i32(id).done())
}
pub fn sb_resource_pack_response(uuid: u128, result: i32) -> Vec<u8> {
    frame(0x06, &W::new().u128(uuid).varint(result).done())
}
pub fn sb_known_packs() -> Vec<u8> {
    frame(0x07, &W::new().varint(0).done())
}

// ------------------------------------------------------------------------------------
// clientbound packet decoding (what the client sees)
// ------------------------------------------------------------------------------------

#[derive(Debug, Clone, Copy, PartialEq, Eq, serde::Serialize, serde::Deserialize)]
pub enum Phase {
    Handshake,
    Status,
    Login,
    Configuration,
}

#[derive(Debug, Clone, PartialEq)]
pub enum Pkt {
    StatusResponse { body: String },
    Pong { payload: u64 },
    LoginDisconnect { reason: String },
    EncryptionRequest { server_id: String, public_key: Vec<u8>, verify_token: Vec<u8>, should_authenticate: bool },
    LoginSuccess { uuid: u128, name: String, properties: i32 },
    LoginCookieRequest { key: String },
    ConfCookieRequest { key: String },
    ConfDisconnect { reason: Value },
    KeepAlive { id: u64 },
    ConfPing { id: i32 },
    StoreCookie { key: String, payload: Vec<u8> },
    Transfer { host: String, port: i32 },
    /// a frame that decodes as a frame but not as a packet the router may send in this phase
    Unknown { phase: Phase, id: i32, body: Vec<u8>, why: String },
}

impl Pkt {
    pub fn kind(&self) -> &'static str {
        match self {
            Pkt::StatusResponse { .. } => "StatusResponse",
            Pkt::Pong { .. } => "Pong",
            Pkt::LoginDisconnect { .. } => "LoginDisconnect",
            Pkt::EncryptionRequest { .. } => "EncryptionRequest",
            Pkt::LoginSuccess { .. } => "LoginSuccess",
            Pkt::LoginCookieRequest { .. } => "LoginCookieRequest",
            Pkt::ConfCookieRequest { .. } => "ConfCookieRequest",
            Pkt::ConfDisconnect { .. } => "ConfDisconnect",
            Pkt::KeepAlive { .. } => "KeepAlive",
            Pkt::ConfPing { .. } => "ConfPing",
            Pkt::StoreCookie { .. } => "StoreCookie",
            Pkt::Transfer { .. } => "Transfer",
            Pkt::Unknown { .. } => "Unknown",
        }
    }

    pub fn to_json(&self) -> Value {
        match self {
            Pkt::StatusResponse { body } => json!({"StatusResponse": body}),
            Pkt::Pong { payload } => json!({"Pong": payload}),
            Pkt::LoginDisconnect { reason } => json!({"LoginDisconnect": reason}),
            Pkt::EncryptionRequest { server_id, public_key, verify_token, should_authenticate } => json!({
                "EncryptionRequest": {"server_id": server_id, "public_key_len": public_key.len(),
                 "verify_token_len": verify_token.len(), "should_authenticate": should_authenticate}}),
            Pkt::LoginSuccess { uuid, name, properties } => {
                json!({"LoginSuccess": {"uuid": format!("{uuid:032x}"), "name": name, "properties": properties}})
            }
            Pkt::LoginCookieRequest { key } => json!({"LoginCookieRequest": key}),
            Pkt::ConfCookieRequest { key } => json!({"ConfCookieRequest": key}),
            Pkt::ConfDisconnect { reason } => json!({"ConfDisconnect": reason}),
            Pkt::KeepAlive { id } => json!({"KeepAlive": id}),
            Pkt::ConfPing { id } => json!({"ConfPing": id}),
            Pkt::StoreCookie { key, payload } => {
                json!({"StoreCookie": {"key": key, "payload_hex": crate::hex(payload)}})
            }
            Pkt::Transfer { host, port } => json!({"Transfer": {"host": host, "port": port}}),
            Pkt::Unknown { phase, id, body, why } => {
                json!({"Unknown": {"phase": format!("{phase:?}"), "id": id, "body_hex": crate::hex(body), "why": why}})
            }
        }
    }
}

pub fn decode_clientbound(phase: Phase, id: i32, body: &[u8]) -> Pkt {
    let r = (|| -> Result<Pkt, DecodeError> {
        let mut r = R::new(body);
        let p = match (phase, id) {
            (Phase::Status, 0x00) => Pkt::StatusResponse { body: r.string()? },
            (Phase::Status, 0x01) => Pkt::Pong { payload: r.u64()? },
            (Phase::Login, 0x00) => Pkt::LoginDisconnect { reason: r.string()? },
            (Phase::Login, 0x01) => Pkt::EncryptionRequest {
                server_id: r.string()?,
                public_key: r.bytes()?.to_vec(),
                verify_token: r.bytes()?.to_vec(),
                should_authenticate: r.bool()?,
            },
            (Phase::Login, 0x02) => {
                let uuid = r.u128()?;
                let name = r.string()?;
                let n = r.varint()?;
                // properties themselves (if any) are left in the remainder
                let p = Pkt::LoginSuccess { uuid, name, properties: n };
                if n == 0 {
                    r.end()?;
                }
                return Ok(p);
            }
            (Phase::Login, 0x05) => Pkt::LoginCookieRequest { key: r.string()? },
            (Phase::Configuration, 0x00) => Pkt::ConfCookieRequest { key: r.string()? },
            (Phase::Configuration, 0x02) => {
                let v = nbt_network(r.rest())?;
                return Ok(Pkt::ConfDisconnect { reason: v });
            }
            (Phase::Configuration, 0x04) => Pkt::KeepAlive { id: r.u64()? },
            (Phase::Configuration, 0x05) => Pkt::ConfPing { id: r.i32()? },
            (Phase::Configuration, 0x0A) => Pkt::StoreCookie { key: r.string()?, payload: r.bytes()?.to_vec() },
            (Phase::Configuration, 0x0B) => Pkt::Transfer { host: r.string()?, port: r.varint()? },
            _ => return Err(DecodeError::Other("packet id not expected from a router in this phase".into())),
        };
        r.end()?;
        Ok(p)
    })();
    match r {
        Ok(p) => p,
        Err(e) => Pkt::Unknown { phase, id, body: body.to_vec(), why: format!("{e:?}") },
    }
}

// ------------------------------------------------------------------------------------
// minimal network-NBT reader (nameless root), enough for text components
// ------------------------------------------------------------------------------------

pub fn nbt_network(b: &[u8]) -> Result<Value, DecodeError> {
    let mut r = R::new(b);
    let tag = r.u8()?;
    let v = nbt_payload(&mut r, tag, 0)?;
    r.end()?;
    Ok(v)
}

fn nbt_str(r: &mut R) -> Result<String, DecodeError> {
    let n = r.u16()? as usize;
    let s = r.take(n)?;
    // modified UTF-8 differs from UTF-8 only for NUL and supplementary characters;
    // decode CESU-8 surrogate pairs so that such text compares equal to the configured text
    Ok(decode_mutf8(s))
}

fn decode_mutf8(b: &[u8]) -> String {
    if let Ok(s) = std::str::from_utf8(b) {
        return s.to_string();
    }
    // decode to UTF-16 code units then to a string
    let mut units: Vec<u16> = vec![];
    let mut i = 0;
    while i < b.len() {
        let x = b[i];
        if x < 0x80 {
            units.push(x as u16);
            i += 1;
        } else if x & 0xE0 == 0xC0 && i + 1 < b.len() {
            units.push((((x & 0x1f) as u16) << 6) | (b[i + 1] & 0x3f) as u16);
            i += 2;
        } else if x & 0xF0 == 0xE0 && i + 2 < b.len() {
            units.push((((x & 0x0f) as u16) << 12) | (((b[i + 1] & 0x3f) as u16) << 6) | (b[i + 2] & 0x3f) as u16);
            i += 3;
        } else {
            units.push(0xFFFD);
            i += 1;
        }
    }
    String::from_utf16_lossy(&units)
}

fn nbt_payload(r: &mut R, tag: u8, depth: usize) -> Result<Value, DecodeError> {
    if depth > 32 {
        return Err(DecodeError::Other("nbt too deep".into()));
    }
    Ok(match tag {
        1 => json!(r.u8()? as i8),
        2 => json!(r.u16()? as i16),
        3 => json!(r.i32()?),
        4 => json!(r.u64()? as i64),
        5 => json!(f32::from_bits(r.i32()? as u32)),
        6 => json!(f64::from_bits(r.u64()?)),
        7 => {
            let n = r.i32()?.max(0) as usize;
            json!(r.take(n)?.to_vec())
        }
        8 => json!(nbt_str(r)?),
        9 => {
            let t = r.u8()?;
            let n = r.i32()?.max(0) as usize;
            let mut v = vec![];
            for _ in 0..n {
                v.push(nbt_payload(r, t, depth + 1)?);
            }
            Value::Array(v)
        }
        10 => {
            let mut m = serde_json::Map::new();
            loop {
                let t = r.u8()?;
                if t == 0 {
                    break;
                }
                let name = nbt_str(r)?;
                m.insert(name, nbt_payload(r, t, depth + 1)?);
            }
            Value::Object(m)
        }
        11 => {
            let n = r.i32()?.max(0) as usize;
            let mut v = vec![];
            for _ in 0..n {
                v.push(json!(r.i32()?));
            }
            Value::Array(v)
        }
        12 => {
            let n = r.i32()?.max(0) as usize;
            let mut v = vec![];
            for _ in 0..n {
                v.push(json!(r.u64()? as i64));
            }
            Value::Array(v)
        }
        t => return Err(DecodeError::Other(format!("nbt tag {t}"))),
    })
}

#[cfg(test)]
mod tests {
    use super::*;
    #[test]
    fn varints() {
        assert_eq!(varint(0), vec![0]);
        assert_eq!(varint(127), vec![0x7f]);
        assert_eq!(varint(128), vec![0x80, 0x01]);
        assert_eq!(varint(25565), vec![0xdd, 0xc7, 0x01]);
        assert_eq!(varint(2147483647), vec![0xff, 0xff, 0xff, 0xff, 0x07]);
        assert_eq!(varint(-1), vec![0xff, 0xff, 0xff, 0xff, 0x0f]);
        assert_eq!(varint(-2147483648), vec![0x80, 0x80, 0x80, 0x80, 0x08]);
        assert_eq!(varlong(-1), vec![0xff, 0xff, 0xff, 0xff, 0xff, 0xff, 0xff, 0xff, 0xff, 0x01]);
        assert_eq!(
            varlong(-9223372036854775808),
            vec![0x80, 0x80, 0x80, 0x80, 0x80, 0x80, 0x80, 0x80, 0x80, 0x01]
        );
        assert_eq!(get_varlong(&varlong(-1)).unwrap(), (-1, 10));
    }
}
