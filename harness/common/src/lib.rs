//! Shared runner pieces: evidence writer, known-findings matcher, violation reporting,
//! parallel map, and the independent reference primitives (`refs`).

pub mod refs;

use serde_json::{Value, json};
use std::collections::BTreeMap;
use std::io::Write;
use std::path::PathBuf;
use std::sync::Mutex;
use std::sync::atomic::{AtomicUsize, Ordering};
use std::time::Instant;

pub const VERIF_ROOT: &str = "/verif";

/// Exit codes shared by all engines.
pub const EXIT_OK: i32 = 0;
pub const EXIT_VIOLATION: i32 = 1;
pub const EXIT_MACHINERY: i32 = 2;

#[derive(Clone, Copy, Debug, PartialEq, Eq)]
pub enum Tier {
    Quick,
    Thorough,
}

impl Tier {
    pub fn parse(s: &str) -> Tier {
        match s {
            "quick" => Tier::Quick,
            "thorough" => Tier::Thorough,
            other => machinery(&format!("unknown tier {other}")),
        }
    }
    pub fn name(self) -> &'static str {
        match self {
            Tier::Quick => "quick",
            Tier::Thorough => "thorough",
        }
    }
    pub fn thorough(self) -> bool {
        self == Tier::Thorough
    }
}

pub fn seed() -> u64 {
    std::env::var("VERIF_SEED")
        .ok()
        .and_then(|s| s.parse::<i64>().ok())
        .map(|v| v as u64)
        .unwrap_or(0)
}

/// A machinery error: never a verdict about the property.
pub fn machinery(msg: &str) -> ! {
    eprintln!("MACHINERY-ERROR: {msg}");
    println!("MACHINERY-ERROR: {msg}");
    std::process::exit(EXIT_MACHINERY)
}

#[derive(Clone, Debug)]
pub struct Violation {
    /// stable key of the failing case *class* (matched against known_findings.txt)
    pub key: String,
    /// human readable description: expected vs. observed
    pub text: String,
    /// everything needed to re-execute the case
    pub replay: Value,
    /// smaller = simpler case (fewest deviations, shortest history); the minimum is kept
    pub weight: u64,
}

#[derive(Debug, Clone)]
pub struct FindingLine {
    pub status: String, // open | fixed
    pub property: String,
    pub key: String,
    pub text: String,
}

pub fn load_findings() -> Vec<FindingLine> {
    let path = format!("{VERIF_ROOT}/known_findings.txt");
    let Ok(text) = std::fs::read_to_string(&path) else {
        return vec![];
    };
    let mut out = vec![];
    for line in text.lines() {
        let line = line.trim();
        if line.is_empty() || line.starts_with('#') {
            continue;
        }
        // open: property=C16 key=... text      |  fixed: property=C05 <commit> key=... text
        let (status, rest) = match line.split_once(':') {
            Some((s, r)) => (s.trim().to_string(), r.trim()),
            None => continue,
        };
        let mut property = String::new();
        let mut key = String::new();
        let mut text = vec![];
        for tok in rest.split_whitespace() {
            if let Some(p) = tok.strip_prefix("property=") {
                property = p.to_string();
            } else if let Some(k) = tok.strip_prefix("key=") {
                key = k.to_string();
            } else {
                text.push(tok);
            }
        }
        out.push(FindingLine {
            status,
            property,
            key,
            text: text.join(" "),
        });
    }
    out
}

// ---------------------------------------------------------------------------------------------------------------
// A subject that never gives control back. Code under test that spins inside one task poll (a loop that is always
// ready) cannot be interrupted from inside its thread, and virtual time cannot advance past it: no horizon ever
// fires. Engines that run the subject in-process announce every case (`case_begin` / `case_end`); a watchdog
// thread turns a case that has been running for far longer than any case legitimately does (milliseconds; the cap
// is minutes) into a violation with that case as its replay and ends the run with a verdict instead of a hang.
// ---------------------------------------------------------------------------------------------------------------
type Describe = Box<dyn Fn() -> String + Send>;
static RUNNING_CASES: Mutex<Vec<(std::thread::ThreadId, Instant, Describe)>> = Mutex::new(Vec::new());
static CURRENT_REPORT: std::sync::OnceLock<(&'static str, Tier, &'static str)> = std::sync::OnceLock::new();

/// the calling thread starts running the subject on the case described by `what()` (evaluated only if needed later)
pub fn case_begin(what: Describe) {
    let id = std::thread::current().id();
    let mut r = RUNNING_CASES.lock().unwrap_or_else(|p| p.into_inner());
    r.retain(|(t, _, _)| *t != id);
    r.push((id, Instant::now(), what));
}

pub fn case_end() {
    let id = std::thread::current().id();
    RUNNING_CASES.lock().unwrap_or_else(|p| p.into_inner()).retain(|(t, _, _)| *t != id);
}

fn start_spin_watchdog() {
    static STARTED: std::sync::Once = std::sync::Once::new();
    STARTED.call_once(|| {
        let cap = std::time::Duration::from_secs(std::env::var("VERIF_CASE_CAP_S").ok().and_then(|v| v.parse().ok()).unwrap_or(150));
        std::thread::spawn(move || loop {
            std::thread::sleep(std::time::Duration::from_millis(500));
            let stuck = RUNNING_CASES.lock().unwrap_or_else(|p| p.into_inner()).iter().find(|(_, t0, _)| t0.elapsed() > cap).map(|(_, t0, w)| (t0.elapsed(), w()));
            if let (Some((age, what)), Some((property, tier, level))) = (stuck, CURRENT_REPORT.get().copied()) {
                let rep = Report::unwatched(property, tier, level);
                rep.violation(Violation {
                    key: "handler-never-gives-control-back".into(),
                    text: format!("one case has kept its thread busy for {age:?} of real time (a case takes milliseconds): the handler spins without ever yielding - it cannot be timed out, notices no end of stream, and holds a worker for good; case: {}", what.chars().take(1500).collect::<String>()),
                    replay: json!({"spinning_case": what}),
                    weight: 0,
                });
                rep.assume("this run was cut short by the watchdog for cases that never return; coverage figures are absent");
                rep.finish();
            }
        });
    });
}

/// Collects the results of one check run and turns them into the interface's output.
pub struct Report {
    pub property: &'static str,
    pub tier: Tier,
    pub level: &'static str,
    start: Instant,
    violations: Mutex<BTreeMap<String, (Violation, u64)>>,
    pub coverage: Mutex<serde_json::Map<String, Value>>,
    pub assumptions: Mutex<Vec<String>>,
    samples: Mutex<Vec<Value>>,
    vacuity: Mutex<Vec<String>>,
}

impl Report {
    pub fn new(property: &'static str, tier: Tier, level: &'static str) -> Self {
        let _ = CURRENT_REPORT.set((property, tier, level));
        start_spin_watchdog();
        Self::unwatched(property, tier, level)
    }

    fn unwatched(property: &'static str, tier: Tier, level: &'static str) -> Self {
        Self {
            property,
            tier,
            level,
            start: Instant::now(),
            violations: Mutex::new(BTreeMap::new()),
            coverage: Mutex::new(serde_json::Map::new()),
            assumptions: Mutex::new(vec![]),
            samples: Mutex::new(vec![]),
            vacuity: Mutex::new(vec![]),
        }
    }

    pub fn violation(&self, v: Violation) {
        let mut map = self.violations.lock().unwrap();
        match map.get_mut(&v.key) {
            Some((old, n)) => {
                *n += 1;
                if v.weight < old.weight {
                    *old = v;
                }
            }
            None => {
                map.insert(v.key.clone(), (v, 1));
            }
        }
    }

    pub fn set(&self, key: &str, value: Value) {
        self.coverage.lock().unwrap().insert(key.to_string(), value);
    }

    pub fn add(&self, key: &str, n: u64) {
        let mut c = self.coverage.lock().unwrap();
        let old = c.get(key).and_then(Value::as_u64).unwrap_or(0);
        c.insert(key.to_string(), json!(old + n));
    }

    pub fn assume(&self, s: &str) {
        self.assumptions.lock().unwrap().push(s.to_string());
    }

    pub fn sample(&self, v: Value) {
        let mut s = self.samples.lock().unwrap();
        if s.len() < 6 {
            s.push(v);
        }
    }

    /// A vacuity guard: the run must have seen at least `min` of `what`, else machinery error.
    pub fn require(&self, what: &str, seen: u64, min: u64) {
        if seen < min {
            self.vacuity
                .lock()
                .unwrap()
                .push(format!("vacuity guard: {what}: saw {seen}, need >= {min}"));
        }
    }

    /// A part of the run could not be carried out (a set-up step did not succeed): a machinery error at the end
    /// of the run - unless the run found a violation elsewhere, which then is what gets reported.
    pub fn inconclusive(&self, what: &str) {
        self.vacuity.lock().unwrap().push(format!("inconclusive: {what}"));
    }

    /// Writes evidence, replay files, prints VIOLATION / KNOWN-FINDING lines and exits.
    pub fn finish(self) -> ! {
        let wall = self.start.elapsed().as_secs_f64();
        let findings = load_findings();
        let violations = self.violations.into_inner().unwrap();
        let mut unlisted = 0;
        let mut known = 0;
        let mut lines = vec![];
        for (key, (v, count)) in &violations {
            let listed = findings
                .iter()
                .find(|f| f.status == "open" && f.property == self.property && &f.key == key);
            if let Some(f) = listed {
                known += 1;
                lines.push(format!(
                    "KNOWN-FINDING: property={} key={} cases={} {} [{}]",
                    self.property, key, count, f.text, v.text
                ));
            } else {
                unlisted += 1;
                let dir = format!("{VERIF_ROOT}/replays/{}", self.property);
                let _ = std::fs::create_dir_all(&dir);
                let safe: String = key
                    .chars()
                    .map(|c| if c.is_ascii_alphanumeric() || c == '-' || c == '_' { c } else { '_' })
                    .collect();
                let path = PathBuf::from(format!("{dir}/{safe}.json"));
                let body = json!({
                    "property": self.property,
                    "key": key,
                    "cases_with_this_key": count,
                    "text": v.text,
                    "case": v.replay,
                });
                if let Ok(mut f) = std::fs::File::create(&path) {
                    let _ = f.write_all(serde_json::to_string_pretty(&body).unwrap().as_bytes());
                }
                eprintln!("violation key={key} cases={count}: {}", v.text);
                lines.push(format!(
                    "VIOLATION property={} replay={}",
                    self.property,
                    path.display()
                ));
            }
        }

        let vac = self.vacuity.into_inner().unwrap();
        let mut cov = self.coverage.into_inner().unwrap();
        let samples = self.samples.into_inner().unwrap();
        if !cov.contains_key("samples") {
            cov.insert("samples".into(), Value::Array(samples));
        }
        cov.insert("known_findings_reported".into(), json!(known));
        let ev = json!({
            "property_id": self.property,
            "tier": self.tier.name(),
            "seed": seed() as i64,
            "level": self.level,
            "coverage": Value::Object(cov),
            "assumptions": self.assumptions.into_inner().unwrap(),
            "wall_s": wall,
            "violations": unlisted,
        });
        let dir = format!("{VERIF_ROOT}/evidence");
        let _ = std::fs::create_dir_all(&dir);
        let path = format!("{dir}/{}.json", self.property);
        // a vacuity guard protects against a vacuous *pass*; a run that found a violation is not vacuous
        let vac: Vec<String> = if unlisted > 0 { vec![] } else { vac };
        if vac.is_empty() {
            let tmp = format!("{path}.tmp");
            std::fs::write(&tmp, serde_json::to_string_pretty(&ev).unwrap())
                .unwrap_or_else(|e| machinery(&format!("cannot write evidence: {e}")));
            std::fs::rename(&tmp, &path)
                .unwrap_or_else(|e| machinery(&format!("cannot write evidence: {e}")));
        }
        for l in &lines {
            println!("{l}");
        }
        if !vac.is_empty() {
            for v in &vac {
                println!("MACHINERY-ERROR: {v}");
            }
            std::process::exit(EXIT_MACHINERY);
        }
        println!(
            "property={} tier={} violations={} known_findings={} wall_s={:.2}",
            self.property,
            self.tier.name(),
            unlisted,
            known,
            wall
        );
        std::process::exit(if unlisted > 0 { EXIT_VIOLATION } else { EXIT_OK })
    }
}

/// Runs `f(i)` for every `i in 0..n` on `threads` OS threads (work stealing by atomic counter).
pub fn par_for<F: Fn(usize) + Sync>(n: usize, f: F) {
    let threads = std::thread::available_parallelism().map(|n| n.get()).unwrap_or(4).min(16);
    let next = AtomicUsize::new(0);
    std::thread::scope(|s| {
        for _ in 0..threads {
            s.spawn(|| {
                loop {
                    let i = next.fetch_add(1, Ordering::Relaxed);
                    if i >= n {
                        break;
                    }
                    f(i);
                }
            });
        }
    });
}

/// Parses `<bin> <ID> <tier>` or `<bin> <ID> --replay <file>`.
pub struct Cli {
    pub id: String,
    pub tier: Tier,
    pub replay: Option<Value>,
}

pub fn cli() -> Cli {
    let args: Vec<String> = std::env::args().collect();
    if args.len() < 3 {
        machinery("usage: <bin> <ID> quick|thorough | <bin> <ID> --replay <file>");
    }
    let id = args[1].clone();
    if args[2] == "--replay" {
        let path = args.get(3).unwrap_or_else(|| machinery("--replay needs a file"));
        let text = std::fs::read_to_string(path)
            .unwrap_or_else(|e| machinery(&format!("cannot read {path}: {e}")));
        let v: Value = serde_json::from_str(&text)
            .unwrap_or_else(|e| machinery(&format!("cannot parse {path}: {e}")));
        let case = v.get("case").cloned().unwrap_or(v);
        return Cli { id, tier: Tier::Quick, replay: Some(case) };
    }
    let tier = Tier::parse(&args[2]);
    // Wall-clock watchdog: a check that does not terminate (for instance because the code under test
    // spins inside one task poll, where virtual time cannot advance) is a machinery exit, never a hang.
    let cap_s: u64 = std::env::var("VERIF_WALL_CAP_S").ok().and_then(|v| v.parse().ok()).unwrap_or(if tier.thorough() { 6 * 3600 } else { 1800 });
    let wid = id.clone();
    std::thread::spawn(move || {
        std::thread::sleep(std::time::Duration::from_secs(cap_s));
        println!("MACHINERY-ERROR: property={wid} the check did not finish within {cap_s} s (wall cap); no verdict");
        std::process::exit(2);
    });
    Cli { id, tier, replay: None }
}

/// Packet kinds with a second Cookie Request in a row left out: the authentication Cookie Request is optional in the
/// protocol order ("optionally", says C06), so a router may make it where the present one does not.
pub fn one_cookie_request<'a>(v: &[&'a str]) -> Vec<&'a str> {
    let mut out: Vec<&'a str> = vec![];
    for k in v {
        if *k == "LoginCookieRequest" && out.last() == Some(&"LoginCookieRequest") {
            continue;
        }
        out.push(*k);
    }
    out
}

pub fn hex(b: &[u8]) -> String {
    b.iter().map(|x| format!("{x:02x}")).collect()
}

pub fn unhex(s: &str) -> Vec<u8> {
    (0..s.len() / 2).map(|i| u8::from_str_radix(&s[2 * i..2 * i + 2], 16).unwrap()).collect()
}

/// The running binary, for checks that start a child process of themselves. If the file was replaced while this
/// process runs (a rebuild; /proc/self/exe then names a deleted file) the freshly built binary of the same name
/// under the harness's target directory is used.
pub fn self_exe() -> std::path::PathBuf {
    let exe = std::env::current_exe().expect("exe");
    if exe.exists() {
        return exe;
    }
    let name = exe.file_name().map(|n| n.to_string_lossy().replace(" (deleted)", "")).unwrap_or_else(|| "netsim".into());
    std::path::PathBuf::from(format!("{VERIF_ROOT}/target/release/{name}"))
}
