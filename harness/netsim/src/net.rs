//! E3 helpers: a raw TCP Minecraft client built on the independent codec, PROXY-protocol headers,
//! recording adapters and a listener harness on loopback.
#![allow(dead_code)]

use common::refs::cfb8::Cfb8;
use common::refs::codec::{self, Phase, Pkt};
use passage_adapters::authentication::{AuthenticationAdapter, Profile};
use passage_adapters::discovery::DiscoveryAdapter;
use passage_adapters::filter::FilterAdapter;
use passage_adapters::status::StatusAdapter;
use passage_adapters::strategy::StrategyAdapter;
use passage_adapters::{FixedLocalizationAdapter, Protocol, ServerStatus, ServerVersion, Target};
use passage_protocol::listener::{Listener, ParseConfig};
use passage_protocol::rate_limiter::RateLimiter;
use rsa::pkcs8::DecodePublicKey;
use rsa::rand_core::UnwrapErr;
use rsa::{Pkcs1v15Encrypt, RsaPublicKey};
use std::net::{IpAddr, SocketAddr};
use std::sync::{Arc, Mutex};
use std::time::{Duration, Instant};
use tokio::io::{AsyncReadExt, AsyncWriteExt};
use tokio::net::{TcpSocket, TcpStream};
use tokio::sync::Semaphore;
use tokio_util::sync::CancellationToken;
use uuid::Uuid;

pub const SECRET16: [u8; 16] = *b"netsim-shared-16";

#[derive(Debug, Clone, PartialEq)]
pub enum ReadErr {
    Eof,
    Reset(String),
    Timeout,
    Garbled(String),
}

pub struct McClient {
    pub stream: TcpStream,
    enc: Option<Cfb8>,
    dec: Option<Cfb8>,
    rbuf: Vec<u8>,
    pub phase: Phase,
    pub local: SocketAddr,
    /// every byte ever received (plaintext view)
    pub received: usize,
}

impl McClient {
    pub async fn connect(server: SocketAddr, bind_ip: Option<IpAddr>) -> std::io::Result<Self> {
        Self::connect_with(server, bind_ip, None).await
    }

    /// `rcvbuf`: a fixed (small) receive buffer, for clients that are slow to read
    pub async fn connect_with(server: SocketAddr, bind_ip: Option<IpAddr>, rcvbuf: Option<u32>) -> std::io::Result<Self> {
        let sock = if server.is_ipv4() { TcpSocket::new_v4()? } else { TcpSocket::new_v6()? };
        if let Some(n) = rcvbuf {
            sock.set_recv_buffer_size(n)?;
        }
        // the checks open tens of thousands of short connections: local ports in TIME_WAIT must be reusable,
        // and closing aborts the connection (no TIME_WAIT on either side) so that later checks find free ports
        sock.set_reuseaddr(true)?;
        if let Some(ip) = bind_ip {
            sock.bind(SocketAddr::new(ip, 0))?;
        }
        let stream = sock.connect(server).await?;
        // (the connection is established; a server that resets connections it refuses may already have done so, and
        // the socket options then fail: that is not a failure to connect, the next read will report the reset)
        let _ = stream.set_nodelay(true);
        #[allow(deprecated)]
        let _ = stream.set_linger(Some(Duration::ZERO));
        let local = stream.local_addr().unwrap_or_else(|_| SocketAddr::new(bind_ip.unwrap_or(IpAddr::V4(std::net::Ipv4Addr::UNSPECIFIED)), 0));
        Ok(Self { stream, enc: None, dec: None, rbuf: vec![], phase: Phase::Handshake, local, received: 0 })
    }

    pub async fn send_raw(&mut self, bytes: &[u8]) -> std::io::Result<()> {
        self.stream.write_all(bytes).await
    }

    /// sends protocol bytes (encrypted once encryption is on)
    pub async fn send(&mut self, bytes: &[u8]) -> std::io::Result<()> {
        let out = match &mut self.enc {
            Some(e) => e.encrypt(bytes),
            None => bytes.to_vec(),
        };
        self.stream.write_all(&out).await
    }

    pub fn enable_encryption(&mut self, secret: &[u8; 16]) {
        self.enc = Some(Cfb8::new(secret));
        self.dec = Some(Cfb8::new(secret));
    }

    /// next clientbound packet, or why there is none
    pub async fn read_packet(&mut self, wait: Duration) -> Result<Pkt, ReadErr> {
        let deadline = tokio::time::Instant::now() + wait;
        loop {
            let (frames, used, err) = codec::split_frames(&self.rbuf);
            if let Some((id, body)) = frames.into_iter().next() {
                // consume exactly one frame
                let (l, n) = codec::get_varint(&self.rbuf).unwrap();
                self.rbuf.drain(..n + l as usize);
                let _ = used;
                let p = codec::decode_clientbound(self.phase, id, &body);
                if let Pkt::LoginSuccess { .. } = p {
                    self.phase = Phase::Configuration;
                }
                return Ok(p);
            }
            if let Some(e) = err {
                return Err(ReadErr::Garbled(format!("{e:?}")));
            }
            let mut buf = [0u8; 4096];
            let r = tokio::time::timeout_at(deadline, self.stream.read(&mut buf)).await;
            match r {
                Err(_) => return Err(ReadErr::Timeout),
                Ok(Ok(0)) => return Err(ReadErr::Eof),
                Ok(Ok(n)) => {
                    self.received += n;
                    let plain = match &mut self.dec {
                        Some(d) => d.decrypt(&buf[..n]),
                        None => buf[..n].to_vec(),
                    };
                    self.rbuf.extend_from_slice(&plain);
                }
                Ok(Err(e)) => return Err(ReadErr::Reset(e.kind().to_string())),
            }
        }
    }

    /// Waits until the server closes the connection; returns the number of bytes received before.
    pub async fn wait_closed(&mut self, wait: Duration) -> Result<usize, ReadErr> {
        let deadline = tokio::time::Instant::now() + wait;
        let mut buf = [0u8; 4096];
        loop {
            match tokio::time::timeout_at(deadline, self.stream.read(&mut buf)).await {
                Err(_) => return Err(ReadErr::Timeout),
                Ok(Ok(0)) => return Ok(self.received),
                Ok(Ok(n)) => self.received += n,
                Ok(Err(_)) => return Ok(self.received),
            }
        }
    }

    pub async fn handshake(&mut self, host: &str, port: u16, next: i32) -> std::io::Result<()> {
        self.phase = match next {
            1 => Phase::Status,
            _ => Phase::Login,
        };
        self.send(&codec::sb_handshake(769, host, port, next)).await
    }

    /// complete status exchange: (status json, pong payload)
    pub async fn status_exchange(&mut self, wait: Duration) -> Result<(String, u64), ReadErr> {
        let io = |e: std::io::Error| ReadErr::Reset(e.kind().to_string());
        self.handshake("status.example", 25565, 1).await.map_err(io)?;
        self.send(&codec::sb_status_request()).await.map_err(io)?;
        let body = match self.read_packet(wait).await? {
            Pkt::StatusResponse { body } => body,
            other => return Err(ReadErr::Garbled(format!("expected StatusResponse, got {}", other.kind()))),
        };
        self.send(&codec::sb_ping(0xfeed)).await.map_err(io)?;
        match self.read_packet(wait).await? {
            Pkt::Pong { payload } => Ok((body, payload)),
            other => Err(ReadErr::Garbled(format!("expected Pong, got {}", other.kind()))),
        }
    }
}

/// Progress points of a login, in order.
#[derive(Clone, Copy, Debug, PartialEq, Eq, PartialOrd, Ord)]
pub enum Stage {
    Connected,
    HandshakeSent,
    LoginStartSent,
    EncryptionRequestReceived,
    LoginSuccessReceived,
    InConfiguration,
    Transferred,
}

pub struct LoginOutcome {
    pub packets: Vec<Pkt>,
    pub stage: Stage,
    pub error: Option<ReadErr>,
}

#[derive(Clone, Debug)]
pub struct LoginParams {
    pub intent: i32,
    pub host: String,
    pub port: u16,
    pub name: String,
    pub uuid: u128,
    pub auth_cookie: Option<Vec<u8>>,
    pub wait: Duration,
    /// the client waits this long before it answers the authentication cookie request
    pub auth_cookie_delay: Duration,
    /// the shared secret this client chooses
    pub secret: [u8; 16],
    /// what the client answers to the session cookie request (None: it has no such cookie)
    pub session_cookie: Option<Vec<u8>>,
    /// protocol version announced in the handshake
    pub proto: i32,
    /// the client does not wait for Login Success: Encryption Response, Login Acknowledged and Client Information
    /// go out in one write (the last two already encrypted)
    pub pipelined: bool,
    pub locale: String,
    /// the verify token the client returns instead of the one it was issued (e.g. another connection's)
    pub foreign_token: Option<Vec<u8>>,
}

impl Default for LoginParams {
    fn default() -> Self {
        Self { intent: 2, host: "play.example".into(), port: 25565, name: "NetPlayer".into(), uuid: 0x069a79f4_44e9_4726_a5be_fca90e38aaf5, auth_cookie: None, wait: Duration::from_secs(2), auth_cookie_delay: Duration::ZERO, secret: SECRET16, session_cookie: None, proto: 769, pipelined: false, locale: "en_us".into(), foreign_token: None }
    }
}

impl McClient {
    /// Drives a login from the current stage up to (and including) `until`; echoes keep-alives.
    pub async fn login(&mut self, p: &LoginParams, from: Stage, until: Stage, out: &mut LoginOutcome) {
        let io = |e: std::io::Error| ReadErr::Reset(e.kind().to_string());
        macro_rules! tri {
            ($e:expr) => {
                match $e {
                    Ok(v) => v,
                    Err(e) => {
                        out.error = Some(e);
                        return;
                    }
                }
            };
        }
        if from < Stage::HandshakeSent && until >= Stage::HandshakeSent {
            self.phase = if p.intent == 1 { Phase::Status } else { Phase::Login };
            tri!(self.send(&codec::sb_handshake(p.proto, &p.host, p.port, p.intent)).await.map_err(io));
            out.stage = Stage::HandshakeSent;
        }
        if out.stage < Stage::LoginStartSent && until >= Stage::LoginStartSent {
            tri!(self.send(&codec::sb_login_start(&p.name, p.uuid)).await.map_err(io));
            // the session cookie request is answered as part of this stage
            let pk = tri!(self.read_packet(p.wait).await);
            let ok = matches!(&pk, Pkt::LoginCookieRequest { key } if key == "passage:session");
            out.packets.push(pk);
            if !ok {
                out.error = Some(ReadErr::Garbled("expected the session cookie request".into()));
                return;
            }
            out.stage = Stage::LoginStartSent;
        }
        if out.stage < Stage::EncryptionRequestReceived && until >= Stage::EncryptionRequestReceived {
            tri!(self.send(&codec::sb_login_cookie_response("passage:session", p.session_cookie.as_deref())).await.map_err(io));
            loop {
                let pk = tri!(self.read_packet(p.wait).await);
                out.packets.push(pk.clone());
                match pk {
                    Pkt::LoginCookieRequest { key } if key == "passage:authentication" => {
                        if !p.auth_cookie_delay.is_zero() {
                            tokio::time::sleep(p.auth_cookie_delay).await;
                        }
                        tri!(self.send(&codec::sb_login_cookie_response("passage:authentication", p.auth_cookie.as_deref())).await.map_err(io));
                    }
                    Pkt::EncryptionRequest { .. } => break,
                    other => {
                        out.error = Some(ReadErr::Garbled(format!("unexpected {}", other.kind())));
                        return;
                    }
                }
            }
            out.stage = Stage::EncryptionRequestReceived;
        }
        if out.stage < Stage::LoginSuccessReceived && until >= Stage::LoginSuccessReceived {
            let (key, token) = match out.packets.iter().rev().find_map(|p| if let Pkt::EncryptionRequest { public_key, verify_token, .. } = p { Some((public_key.clone(), verify_token.clone())) } else { None }) {
                Some(x) => x,
                None => {
                    out.error = Some(ReadErr::Garbled("no encryption request".into()));
                    return;
                }
            };
            let key = RsaPublicKey::from_public_key_der(&key).expect("server key");
            let mut rng = UnwrapErr(rand::rngs::SysRng);
            let s = key.encrypt(&mut rng, Pkcs1v15Encrypt, &p.secret).expect("rsa");
            let t = key.encrypt(&mut rng, Pkcs1v15Encrypt, p.foreign_token.as_deref().unwrap_or(&token)).expect("rsa");
            if p.pipelined {
                let mut burst = codec::sb_encryption_response(&s, &t);
                self.enable_encryption(&p.secret);
                let tail = [codec::sb_login_ack(), codec::sb_client_information(&p.locale)].concat();
                burst.extend_from_slice(&self.enc.as_mut().expect("enc").encrypt(&tail));
                tri!(self.send_raw(&burst).await.map_err(io));
            } else {
                tri!(self.send(&codec::sb_encryption_response(&s, &t)).await.map_err(io));
                self.enable_encryption(&p.secret);
            }
            let pk = tri!(self.read_packet(p.wait).await);
            let ok = matches!(pk, Pkt::LoginSuccess { .. });
            out.packets.push(pk);
            if !ok {
                out.error = Some(ReadErr::Garbled("expected Login Success".into()));
                return;
            }
            out.stage = Stage::LoginSuccessReceived;
        }
        if out.stage < Stage::InConfiguration && until >= Stage::InConfiguration {
            if !p.pipelined {
                tri!(self.send(&codec::sb_login_ack()).await.map_err(io));
                tri!(self.send(&codec::sb_client_information(&p.locale)).await.map_err(io));
            }
            out.stage = Stage::InConfiguration;
        }
        if out.stage < Stage::Transferred && until >= Stage::Transferred {
            loop {
                let pk = tri!(self.read_packet(p.wait).await);
                out.packets.push(pk.clone());
                match pk {
                    Pkt::KeepAlive { id } => tri!(self.send(&codec::sb_keep_alive(id)).await.map_err(io)),
                    Pkt::Transfer { .. } => break,
                    Pkt::ConfDisconnect { .. } => {
                        out.error = Some(ReadErr::Garbled("disconnected".into()));
                        return;
                    }
                    _ => {}
                }
            }
            out.stage = Stage::Transferred;
        }
    }
}

// ---------------------------------------------------------------------------------------
// PROXY protocol headers
// ---------------------------------------------------------------------------------------

pub fn proxy_v1(src: SocketAddr, dst: SocketAddr) -> Vec<u8> {
    let fam = if src.is_ipv4() { "TCP4" } else { "TCP6" };
    format!("PROXY {fam} {} {} {} {}\r\n", src.ip(), dst.ip(), src.port(), dst.port()).into_bytes()
}

pub fn proxy_v1_unknown() -> Vec<u8> {
    b"PROXY UNKNOWN\r\n".to_vec()
}

const V2_SIG: [u8; 12] = [0x0D, 0x0A, 0x0D, 0x0A, 0x00, 0x0D, 0x0A, 0x51, 0x55, 0x49, 0x54, 0x0A];

pub fn proxy_v2(src: SocketAddr, dst: SocketAddr) -> Vec<u8> {
    let mut v = V2_SIG.to_vec();
    v.push(0x21); // version 2, PROXY
    match (src, dst) {
        (SocketAddr::V4(s), SocketAddr::V4(d)) => {
            v.push(0x11);
            v.extend_from_slice(&12u16.to_be_bytes());
            v.extend_from_slice(&s.ip().octets());
            v.extend_from_slice(&d.ip().octets());
            v.extend_from_slice(&s.port().to_be_bytes());
            v.extend_from_slice(&d.port().to_be_bytes());
        }
        (s, d) => {
            let to6 = |a: SocketAddr| match a.ip() {
                IpAddr::V6(x) => x,
                IpAddr::V4(x) => x.to_ipv6_mapped(),
            };
            v.push(0x21);
            v.extend_from_slice(&36u16.to_be_bytes());
            v.extend_from_slice(&to6(s).octets());
            v.extend_from_slice(&to6(d).octets());
            v.extend_from_slice(&s.port().to_be_bytes());
            v.extend_from_slice(&d.port().to_be_bytes());
        }
    }
    v
}

pub fn proxy_v2_local() -> Vec<u8> {
    let mut v = V2_SIG.to_vec();
    v.push(0x20); // version 2, LOCAL
    v.push(0x00);
    v.extend_from_slice(&0u16.to_be_bytes());
    v
}

// ---------------------------------------------------------------------------------------
// recording adapters (real time)
// ---------------------------------------------------------------------------------------

#[derive(Default)]
pub struct NetLog {
    pub status_clients: Vec<SocketAddr>,
    pub auth_clients: Vec<SocketAddr>,
    pub filter_clients: Vec<SocketAddr>,
    pub discover_calls: usize,
}

#[derive(Clone)]
pub struct NetAdapters {
    pub log: Arc<Mutex<NetLog>>,
    /// discovery waits for a permit (a slow backend without real time); None = immediate
    pub gate: Option<Arc<Semaphore>>,
    pub never_discover: bool,
    pub target: SocketAddr,
    /// clients with these effective IPs wait in the filter stage forever (a backend that is slow for them only)
    pub blocked_ips: Vec<IpAddr>,
    /// the status backend panics / fails for clients with these effective IPs
    pub panic_ips: Vec<IpAddr>,
    pub fail_ips: Vec<IpAddr>,
}

impl std::fmt::Debug for NetAdapters {
    fn fmt(&self, f: &mut std::fmt::Formatter<'_>) -> std::fmt::Result {
        write!(f, "NetAdapters")
    }
}

impl NetAdapters {
    pub fn new() -> Self {
        Self { log: Arc::new(Mutex::new(NetLog::default())), gate: None, never_discover: false, target: "10.9.8.7:25570".parse().unwrap(), blocked_ips: vec![], panic_ips: vec![], fail_ips: vec![] }
    }
}

impl StatusAdapter for NetAdapters {
    async fn status(&self, client_addr: &SocketAddr, _server_addr: (&str, u16), _protocol: Protocol) -> passage_adapters::Result<Option<ServerStatus>> {
        self.log.lock().unwrap().status_clients.push(*client_addr);
        if self.panic_ips.contains(&client_addr.ip()) {
            panic!("verif: the status backend panics for {client_addr} (on purpose)");
        }
        if self.fail_ips.contains(&client_addr.ip()) {
            return Err(passage_adapters::Error::FailedFetch { adapter_type: "verif", cause: "the status backend fails on purpose".into() });
        }
        Ok(Some(ServerStatus { version: ServerVersion { name: "NetSim".into(), protocol: 769 }, players: None, description: None, favicon: None, enforces_secure_chat: None }))
    }
}

impl AuthenticationAdapter for NetAdapters {
    async fn authenticate(&self, client_addr: &SocketAddr, _s: (&str, u16), _p: Protocol, user: (&str, &Uuid), _secret: &[u8], _key: &[u8]) -> passage_adapters::Result<Profile> {
        self.log.lock().unwrap().auth_clients.push(*client_addr);
        Ok(Profile { id: *user.1, name: user.0.to_string(), properties: vec![], profile_actions: vec![] })
    }
}

impl DiscoveryAdapter for NetAdapters {
    async fn discover(&self) -> passage_adapters::Result<Vec<Target>> {
        self.log.lock().unwrap().discover_calls += 1;
        if self.never_discover {
            std::future::pending::<()>().await;
        }
        if let Some(g) = &self.gate {
            let p = g.acquire().await.expect("gate");
            p.forget();
        }
        Ok(vec![Target { identifier: "net-target".into(), address: self.target, meta: Default::default() }])
    }
}

impl FilterAdapter for NetAdapters {
    async fn filter(&self, client_addr: &SocketAddr, _s: (&str, u16), _p: Protocol, _u: (&str, &Uuid), targets: Vec<Target>) -> passage_adapters::Result<Vec<Target>> {
        self.log.lock().unwrap().filter_clients.push(*client_addr);
        if self.blocked_ips.contains(&client_addr.ip()) {
            std::future::pending::<()>().await;
        }
        Ok(targets)
    }
}

impl StrategyAdapter for NetAdapters {
    async fn select(&self, _c: &SocketAddr, _s: (&str, u16), _p: Protocol, _u: (&str, &Uuid), targets: Vec<Target>) -> passage_adapters::Result<Option<Target>> {
        Ok(targets.into_iter().next())
    }
}

// ---------------------------------------------------------------------------------------
// listener harness
// ---------------------------------------------------------------------------------------

#[derive(Clone, Debug)]
pub struct ListenerCfg {
    pub proxy: Option<(bool, bool)>, // (allow_v1, allow_v2)
    pub limiter: Option<(u64, usize)>, // (duration seconds, limit)
    pub timeout: Duration,
    pub auth_secret: Option<Vec<u8>>,
    pub max_packet_length: Option<i32>,
    pub expiry: Option<u64>,
}

impl Default for ListenerCfg {
    fn default() -> Self {
        Self { proxy: None, limiter: None, timeout: Duration::from_secs(30), auth_secret: None, max_packet_length: None, expiry: None }
    }
}

/// A loopback port nobody else was handed - neither in this process nor in another harness process running
/// at the same time (another check, a scratch slot): the range below the ephemeral ports is divided into
/// blocks of 64, a process owns a block while it holds an exclusive lock on the block's file under
/// /tmp/verif-ports (released by the kernel when the process ends), and only hands out ports of its own
/// blocks that are bindable right now. Without this, two checks running side by side could pick the same
/// port between the probe and the moment the listener (often a child process) binds it.
pub fn free_port() -> u16 {
    use std::os::fd::AsRawFd;
    // stay below the ephemeral range (32768..) that the clients' own sockets are drawn from
    const LO: u32 = 10_240;
    const BLOCK: u32 = 64;
    const NBLOCKS: u32 = 328;
    /// a process owns at most this many blocks and goes round them (the listeners of earlier cases are closed
    /// by then; a port that is still busy fails the bind probe and is skipped)
    const MAX_HELD: usize = 24;
    struct Ports {
        held: Vec<(std::fs::File, u32)>,
        cur: usize,
        pos: u32,
    }
    static STATE: Mutex<Option<Ports>> = Mutex::new(None);
    let mut guard = STATE.lock().unwrap();
    let st = guard.get_or_insert_with(|| Ports { held: vec![], cur: 0, pos: BLOCK });
    let mut misses = 0u32;
    loop {
        if st.pos >= BLOCK {
            let mut claimed = None;
            if st.held.len() < MAX_HELD {
                let _ = std::fs::create_dir_all("/tmp/verif-ports");
                let start = std::process::id().wrapping_mul(131) % NBLOCKS;
                for i in 0..NBLOCKS {
                    let k = (start + i) % NBLOCKS;
                    let Ok(f) = std::fs::OpenOptions::new().create(true).write(true).truncate(false).open(format!("/tmp/verif-ports/block-{k}.lock")) else { continue };
                    if unsafe { libc::flock(f.as_raw_fd(), libc::LOCK_EX | libc::LOCK_NB) } == 0 {
                        claimed = Some((f, LO + k * BLOCK));
                        break;
                    }
                }
            }
            match claimed {
                Some(c) => {
                    st.held.push(c);
                    st.cur = st.held.len() - 1;
                }
                None if st.held.is_empty() => common::machinery("no free block of loopback ports (too many harness processes at once)"),
                None => st.cur = (st.cur + 1) % st.held.len(),
            }
            st.pos = 0;
        }
        let port = (st.held[st.cur].1 + st.pos) as u16;
        st.pos += 1;
        if std::net::TcpListener::bind(("127.0.0.1", port)).is_ok() {
            if std::env::var_os("VERIF_CHILD_STDERR").is_some() {
                use std::io::Write;
                if let Ok(mut f) = std::fs::OpenOptions::new().create(true).append(true).open("/tmp/verif-ports-alloc.log") {
                    let _ = writeln!(f, "{:?} pid={} port={} block={} held={}", std::time::SystemTime::now().duration_since(std::time::UNIX_EPOCH).map(|d| d.as_millis()).unwrap_or(0), std::process::id(), port, st.held[st.cur].1, st.held.len());
                }
            }
            return port;
        }
        misses += 1;
        if misses % 2048 == 0 {
            // every port of every block is busy right now: wait for listeners to go away
            std::thread::sleep(Duration::from_millis(20));
        }
        if misses > 2048 * 500 {
            common::machinery("no bindable loopback port in this process's blocks for 10 s");
        }
    }
}

/// Raises the soft limit on open files to the hard limit (both ends of every loopback connection live in
/// this process) and returns the limit now in force.
pub fn raise_fd_limit() -> u64 {
    unsafe {
        let mut r = libc::rlimit { rlim_cur: 0, rlim_max: 0 };
        if libc::getrlimit(libc::RLIMIT_NOFILE, &mut r) != 0 {
            return 1024;
        }
        if r.rlim_cur < r.rlim_max {
            let want = libc::rlimit { rlim_cur: r.rlim_max.min(1 << 20), rlim_max: r.rlim_max };
            if libc::setrlimit(libc::RLIMIT_NOFILE, &want) == 0 {
                return want.rlim_cur as u64;
            }
        }
        r.rlim_cur as u64
    }
}

pub struct Running {
    pub addr: SocketAddr,
    pub stop: CancellationToken,
    pub done: tokio::task::JoinHandle<Result<(), String>>,
    pub started: Instant,
}

/// Starts the real `Listener` on a free loopback port inside the current `LocalSet`.
pub async fn start_listener(cfg: &ListenerCfg, adapters: NetAdapters) -> Running {
    start_listener_with(cfg, Arc::new(adapters)).await
}

/// the real `Listener` on a loopback port, with any adapter set
pub async fn start_listener_with<A>(cfg: &ListenerCfg, a: Arc<A>) -> Running
where
    A: StatusAdapter + DiscoveryAdapter + FilterAdapter + StrategyAdapter + AuthenticationAdapter + 'static,
{
    for _attempt in 0..8 {
        let port = free_port();
        let addr: SocketAddr = format!("127.0.0.1:{port}").parse().unwrap();
        let stop = CancellationToken::new();
        let loca = Arc::new(FixedLocalizationAdapter::default());
        let mut listener = Listener::new(a.clone(), a.clone(), a.clone(), a.clone(), a.clone(), loca)
            .with_rate_limiter(cfg.limiter.map(|(d, l)| RateLimiter::<IpAddr>::new(Duration::from_secs(d), l)))
            .with_proxy_protocol(cfg.proxy.map(|(v1, v2)| ParseConfig { include_tlvs: false, allow_v1: v1, allow_v2: v2 }))
            .with_connection_timeout(cfg.timeout)
            .with_auth_secret(cfg.auth_secret.clone());
        if let Some(m) = cfg.max_packet_length {
            listener = listener.with_max_packet_length(m);
        }
        if let Some(e) = cfg.expiry {
            listener = listener.with_auth_cookie_expiry(e);
        }
        let stop2 = stop.clone();
        let done = tokio::task::spawn_local(async move { listener.listen(addr, stop2).await.map_err(|e| e.to_string()) });
        // wait until it accepts. The probe comes from 127.0.0.99 so that it never touches the rate-limit
        // budget of an address a check uses; it is closed at once (with PROXY protocol on it counts as a
        // header-less connection)
        let mut up = false;
        for _ in 0..400 {
            if done.is_finished() {
                break; // could not bind: try another port
            }
            let sock = TcpSocket::new_v4().expect("socket");
            let _ = sock.set_reuseaddr(true);
            sock.bind("127.0.0.99:0".parse().unwrap()).expect("bind probe");
            if let Ok(s) = sock.connect(addr).await {
                #[allow(deprecated)]
                let _ = s.set_linger(Some(Duration::ZERO));
                drop(s);
                up = true;
                break;
            }
            tokio::time::sleep(Duration::from_millis(5)).await;
        }
        if up {
            tokio::time::sleep(Duration::from_millis(2)).await;
            return Running { addr, stop, done, started: Instant::now() };
        }
        stop.cancel();
    }
    common::machinery("the listener could not be started on any loopback port")
}

/// Runs an async harness body on a fresh current-thread runtime inside a LocalSet.
pub fn run_local<F, T>(f: F) -> T
where
    F: std::future::Future<Output = T>,
{
    let rt = tokio::runtime::Builder::new_current_thread().enable_all().build().expect("rt");
    let local = tokio::task::LocalSet::new();
    local.block_on(&rt, f)
}


// ---------------------------------------------------------------------------------------
// the whole application in a child process: `netsim C14-child ...` runs passage::start(config)
// ---------------------------------------------------------------------------------------

pub struct App {
    pub child: std::process::Child,
    pub addr: SocketAddr,
}

/// Does process `pid` itself hold a listening TCP socket on `port`? (Read from /proc: the listening
/// socket's inode in /proc/net/tcp, and the process's descriptors.) "Something accepts connections on that port"
/// is not the same thing: on a busy machine something else may, for a moment, and a child that is still starting
/// would be taken for ready - its cases would all be refused and the stop signal would reach it before it listens
/// for signals.
pub fn listens(pid: u32, port: u16) -> bool {
    // (any local address: a configuration may bind 127.0.0.1, 0.0.0.0 or [::])
    let tables: String = ["/proc/net/tcp", "/proc/net/tcp6"].iter().filter_map(|p| std::fs::read_to_string(p).ok()).collect::<Vec<_>>().join("\n");
    let want = format!(":{port:04X}");
    let inodes: Vec<&str> = tables.lines().filter_map(|l| {
        let f: Vec<&str> = l.split_whitespace().collect();
        (f.len() > 9 && f[1].ends_with(&want) && f[3] == "0A").then(|| f[9])
    }).collect();
    if inodes.is_empty() {
        return false;
    }
    let Ok(fds) = std::fs::read_dir(format!("/proc/{pid}/fd")) else { return false };
    for fd in fds.flatten() {
        if let Ok(t) = std::fs::read_link(fd.path()) {
            let t = t.to_string_lossy();
            if inodes.iter().any(|i| t == format!("socket:[{i}]")) {
                return true;
            }
        }
    }
    false
}

/// waits until the child listens on the port itself (true) or has exited / 8 s have passed (false)
pub fn wait_until_listening(child: &mut std::process::Child, port: u16) -> bool {
    for _ in 0..800 {
        if listens(child.id(), port) {
            // (one round trip through the accept loop is not needed for correctness; a moment for the runtime to
            // install its signal handling is)
            std::thread::sleep(Duration::from_millis(30));
            return matches!(child.try_wait(), Ok(None));
        }
        if !matches!(child.try_wait(), Ok(None)) {
            return false;
        }
        std::thread::sleep(Duration::from_millis(10));
    }
    false
}

/// `proxy` is off | v1 | v2 | v1v2; `limit` 0 = no rate limiter (window one hour otherwise)
pub fn spawn_app(max_packet_length: u64, expiry: u64, timeout: u64, proxy: &str, limit: usize) -> App {
    spawn_app_with(max_packet_length, expiry, timeout, proxy, limit, &[])
}

/// `extra`: further arguments understood by the child (`bigstatus`)
pub fn spawn_app_with(max_packet_length: u64, expiry: u64, timeout: u64, proxy: &str, limit: usize, extra: &[&str]) -> App {
    // (a port whose listener turns out not to be this child's - the child has exited although something answers
    // there - is given up and another one is tried: who else may use a loopback port is not in the harness's hands)
    for _attempt in 0..4 {
        let port = free_port();
        let exe = common::self_exe();
        let mut child = std::process::Command::new(exe)
            .args(["C14-child", &port.to_string(), &max_packet_length.to_string(), &expiry.to_string(), &timeout.to_string(), if proxy.is_empty() { "off" } else { proxy }, &limit.to_string()])
            .args(extra)
            .stdout(std::process::Stdio::null())
            .stderr(if std::env::var_os("VERIF_CHILD_STDERR").is_some() { std::process::Stdio::inherit() } else { std::process::Stdio::null() })
            .spawn()
            .expect("spawn child");
        let addr: SocketAddr = format!("127.0.0.1:{port}").parse().unwrap();
        if wait_until_listening(&mut child, port) {
            return App { child, addr };
        }
        let _ = child.kill();
        let _ = child.wait();
    }
    common::machinery("passage::start did not start listening (four attempts on four ports)")
}

/// stops the application the way an operator does (ctrl-c) and returns its exit status
pub fn stop_app(mut app: App) -> Option<i32> {
    unsafe {
        libc::kill(app.child.id() as i32, libc::SIGINT);
    }
    let t0 = Instant::now();
    loop {
        if let Ok(Some(st)) = app.child.try_wait() {
            if std::env::var_os("VERIF_CHILD_STDERR").is_some() {
                use std::os::unix::process::ExitStatusExt;
                eprintln!("child {} ended: code {:?} signal {:?} {:?} after the stop request", app.addr, st.code(), st.signal(), t0.elapsed());
            }
            return st.code();
        }
        if t0.elapsed() > Duration::from_secs(8) {
            if std::env::var_os("VERIF_CHILD_STDERR").is_some() {
                eprintln!("child {} (pid {}) still running 8 s after SIGINT; its threads:", app.addr, app.child.id());
                if let Ok(o) = std::process::Command::new("ss").args(["-tanpi"]).output() {
                    for l in String::from_utf8_lossy(&o.stdout).lines().filter(|l| l.contains(&format!(":{} ", app.addr.port())) || l.contains(&format!("pid={},", app.child.id()))) {
                        eprintln!("    ss: {l}");
                    }
                }
                if let Ok(o) = std::process::Command::new("ls").args(["-l", &format!("/proc/{}/fd", app.child.id())]).output() {
                    eprintln!("{}", String::from_utf8_lossy(&o.stdout));
                }
                if let Ok(o) = std::process::Command::new("cat").arg(format!("/proc/{}/net/tcp", app.child.id())).output() {
                    let hexport = format!(":{:04X} ", app.addr.port());
                    for l in String::from_utf8_lossy(&o.stdout).lines().filter(|l| l.contains(&hexport)) {
                        eprintln!("    tcp: {l}");
                    }
                }
                if let Ok(o) = std::process::Command::new("gdb").args(["-p", &app.child.id().to_string(), "-batch", "-ex", "thread apply all bt 12"]).output() {
                    eprintln!("{}", String::from_utf8_lossy(&o.stdout));
                }
            }
            let _ = app.child.kill();
            let _ = app.child.wait();
            return None;
        }
        std::thread::sleep(Duration::from_millis(20));
    }
}
