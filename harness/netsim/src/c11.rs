//! C11: the session server hash equals Minecraft's signed SHA-1 hex digest - for every input, and for
//! the inputs of the connection it is computed for.
//!
//! Three parts, one report: (1) the enumeration of `minecraft_hash` against the independent reference
//! (enumk's C11 core); (2) whole connections over TCP through the real Listener, Connection and
//! MojangAdapter to a mock session server: the `serverId` of each has-joined request must be the
//! reference hash of the shared secret that client chose and the public key that client was sent,
//! including connections that claim the same name with different secrets, sequentially and overlapping;
//! (3) connections under virtual time (vsim) whose client answers the Encryption Request immediately,
//! after 8 s and after 13 h: the hash the session service would be asked with - `minecraft_hash` of the
//! secret and key handed to the authentication adapter - must equal the reference hash of the secret the
//! client sent and the key the client saw.
use common::refs::codec::Pkt;
use common::{Cli, Report, Violation};
use passage_adapters::authentication::minecraft_hash;
use serde_json::json;
use std::sync::atomic::{AtomicU64, Ordering};
use vsim::sim::{self, Act, Call, Case, Login, When};

fn virtual_time_connections(rep: &Report) -> u64 {
    let mut n = 0;
    for (label, stall_ms) in [("at-once", 0u64), ("after-8s", 8_000), ("after-13h", 13 * 3_600_000)] {
        for intent in [2, 3] {
            let mut case = Case::default();
            case.script = Login { intent, ..Default::default() }.steps();
            for st in case.script.iter_mut() {
                if matches!(st.act, Act::EncResponse(_)) && stall_ms > 0 {
                    st.when = When::IdleAfter(stall_ms);
                }
            }
            case.horizon_ms = stall_ms + 60_000;
            let obs = sim::run(&case);
            n += 1;
            let seen_key = obs.packets.iter().find_map(|(_, p)| if let Pkt::EncryptionRequest { public_key, .. } = p { Some(public_key.clone()) } else { None });
            let call = obs.calls.iter().find_map(|c| if let Call::Auth { secret, pubkey, .. } = c { Some((secret.clone(), pubkey.clone())) } else { None });
            let replay = json!({"virtual": label, "intent": intent});
            match (seen_key, call) {
                (Some(key), Some((secret, pubkey))) => {
                    let used = minecraft_hash("", &secret, &pubkey);
                    let expected = enumk::c11::reference("", &case.secret, &key);
                    if used != expected {
                        rep.violation(Violation {
                            key: format!("connection-hash-differs:{label}"),
                            text: format!("Encryption Response {label}: the session service would be asked with {used} (secret {} / key of {} bytes as handed to the authentication adapter) but the client computes {expected} from the secret it sent and the key it was sent", common::hex(&secret), pubkey.len()),
                            replay,
                            weight: stall_ms,
                        });
                    }
                }
                (k, c) => rep.violation(Violation {
                    key: format!("connection-not-authenticated:{label}"),
                    text: format!("Encryption Response {label}: encryption request seen: {}, authentication consulted: {}; result {:?}", k.is_some(), c.is_some(), obs.result),
                    replay,
                    weight: stall_ms,
                }),
            }
        }
    }
    // uptime: logins of one process spread over four and a half (virtual) days - every six hours one, all under one
    // clock -, each hashing the key it was itself sent
    {
        let cases: Vec<Case> = (0..19u64)
            .map(|k| {
                let mut c = Case::default();
                c.script = Login { name: format!("Day{k}"), ..Default::default() }.steps();
                if k > 0 {
                    c.script[0].when = When::IdleAfter(k * 6 * 3_600_000);
                }
                c.secret = *b"uptime-secret-00";
                c.secret[15] = b'a' + k as u8;
                c.horizon_ms = 19 * 6 * 3_600_000 + 60_000;
                c
            })
            .collect();
        let all = sim::run_many(&cases);
        for (k, (case, obs)) in cases.iter().zip(&all).enumerate() {
            n += 1;
            let seen_key = obs.packets.iter().find_map(|(_, p)| if let Pkt::EncryptionRequest { public_key, .. } = p { Some(public_key.clone()) } else { None });
            let call = obs.calls.iter().find_map(|c| if let Call::Auth { secret, pubkey, .. } = c { Some((secret.clone(), pubkey.clone())) } else { None });
            let replay = json!({"virtual": "uptime", "hours": k * 6});
            match (seen_key, call) {
                (Some(key), Some((secret, pubkey))) => {
                    let (used, expected) = (minecraft_hash("", &secret, &pubkey), enumk::c11::reference("", &case.secret, &key));
                    if used != expected {
                        rep.violation(Violation { key: "connection-hash-differs:after-hours-of-uptime".into(), text: format!("a login {} hours after the first one of the process: the session service would be asked with {used}, the client computes {expected} from the secret it sent and the key it was sent", k * 6), replay, weight: k as u64 });
                        break;
                    }
                }
                (k2, c) => {
                    rep.violation(Violation { key: "connection-not-authenticated:after-hours-of-uptime".into(), text: format!("a login {} hours after the first one of the process: encryption request seen: {}, authentication consulted: {}; result {:?}", k * 6, k2.is_some(), c.is_some(), obs.result), replay, weight: k as u64 });
                    break;
                }
            }
        }
    }
    n
}

/// The server id is configuration: whatever text the operator wrote - in the YAML file or in the environment -
/// is the first input of the hash, character for character, also when it happens to read like a number or a
/// boolean. The application's own path is used: Config::read() -> DynAuthenticationAdapter::from_config -> the
/// has-joined request captured by the mock session server.
fn configured_server_ids(rep: &Report) -> u64 {
    use passage_adapters::authentication::AuthenticationAdapter;
    let mut n = 0;
    let ids = ["", "lobby", "0123", "007", "1e5", "TRUE", "+7", "-0", "12.50", "0x1F", "s\u{fc}d-1", "\u{30ed}\u{30d3}\u{30fc}", "exactly-twenty-chars", "twenty-one-characters", "a server id of forty-three characters, long", "a-server-id-well-beyond-any-protocol-string-limit-that-a-tidy-minded-conversion-might-want-to-enforce-on-it"];
    let dir = format!("{}/target/c11-config-{}", common::VERIF_ROOT, std::process::id());
    let _ = std::fs::create_dir_all(&dir);
    let rt = tokio::runtime::Builder::new_current_thread().enable_all().build().expect("rt");
    rt.block_on(async {
        let log = std::sync::Arc::new(std::sync::Mutex::new(vec![]));
        let mock = crate::c12::mock_server(log.clone()).await;
        unsafe { std::env::set_var("PASSAGE_VERIF_SESSION_URL", format!("http://{mock}")) };
        let key: Vec<u8> = (0..162u32).map(|i| (i * 3 + 1) as u8).collect();
        let secret = *b"configured-id-16";
        for route in ["environment", "yaml"] {
            for sid in ids {
                n += 1;
                for (k, _) in std::env::vars().filter(|(k, _)| k.starts_with("PASSAGE_") && k != "PASSAGE_VERIF_SESSION_URL") {
                    unsafe { std::env::remove_var(k) };
                }
                unsafe {
                    std::env::set_var("AUTH_SECRET_FILE", format!("{dir}/no-such-secret"));
                    std::env::remove_var("ENV_PREFIX");
                }
                if route == "environment" {
                    unsafe {
                        std::env::set_var("CONFIG_FILE", format!("{dir}/no-such-config"));
                        std::env::set_var("PASSAGE_ADAPTERS_AUTHENTICATION_MOJANG_SERVERID", sid);
                    }
                } else {
                    let yaml = format!("adapters:\n  authentication:\n    mojang:\n      server_id: \"{sid}\"\n");
                    let _ = std::fs::write(format!("{dir}/config.yaml"), yaml);
                    unsafe { std::env::set_var("CONFIG_FILE", format!("{dir}/config.yaml")) };
                }
                let replay = json!({"configured_server_id": sid, "route": route});
                let cfg = match passage::config::Config::read() {
                    Ok(c) => c,
                    Err(e) => {
                        rep.violation(Violation { key: format!("configured-server-id:config-not-read:{route}"), text: format!("server id {sid:?} ({route}): {e}"), replay, weight: 40 });
                        continue;
                    }
                };
                let adapter = match passage::adapter::authentication::DynAuthenticationAdapter::from_config(cfg.adapters.authentication).await {
                    Ok(a) => a,
                    Err(e) => {
                        rep.violation(Violation { key: "configured-server-id:adapter-not-built".into(), text: format!("{e}"), replay, weight: 40 });
                        continue;
                    }
                };
                log.lock().unwrap().clear();
                let client: std::net::SocketAddr = "198.51.100.7:40123".parse().unwrap();
                let uuid = uuid::Uuid::from_u128(11);
                let _ = tokio::time::timeout(std::time::Duration::from_secs(5), adapter.authenticate(&client, ("h", 1), 769, ("Configured", &uuid), &secret, &key)).await;
                let expected = enumk::c11::reference(sid, &secret, &key);
                let seen: Vec<String> = log.lock().unwrap().clone();
                let ok = seen.len() == 1 && seen[0].contains(&format!("serverId={expected} ")) || seen.len() == 1 && seen[0].contains(&format!("serverId={expected}&"));
                if !ok {
                    rep.violation(Violation {
                        key: format!("configured-server-id:{route}"),
                        text: format!("server id {sid:?} configured through the {route}: the has-joined request must carry serverId={expected}; requests seen: {seen:?}"),
                        replay,
                        weight: 40,
                    });
                }
            }
        }
        for k in ["CONFIG_FILE", "AUTH_SECRET_FILE", "PASSAGE_ADAPTERS_AUTHENTICATION_MOJANG_SERVERID"] {
            unsafe { std::env::remove_var(k) };
        }
    });
    let _ = std::fs::remove_dir_all(&dir);
    n
}

pub fn run(cli: Cli) -> ! {
    if let Some(case) = &cli.replay {
        if case.get("e2e").is_none() && case.get("virtual").is_none() {
            // a replay of the function enumeration
            enumk::c11::run(cli);
        }
    }
    for v in ["http_proxy", "HTTP_PROXY", "https_proxy", "HTTPS_PROXY", "all_proxy", "ALL_PROXY"] {
        unsafe { std::env::remove_var(v) };
    }
    let rep = Report::new("C11", cli.tier, "exploration");
    if cli.replay.is_none() {
        enumk::c11::core(&rep, cli.tier.thorough());
    }
    let requests = AtomicU64::new(0);
    crate::c12::end_to_end(&rep, &requests);
    let v = virtual_time_connections(&rep);
    let configured = configured_server_ids(&rep);
    rep.set("configured_server_ids_through_config_read", json!(configured));
    let r = requests.load(Ordering::Relaxed);
    rep.require("has-joined requests of whole connections captured", r, 10);
    rep.set("whole_connections_over_tcp_requests_captured", json!(r));
    rep.set("whole_connections_under_virtual_time", json!(v));
    rep.assume("whole connections: the has-joined request goes to a loopback mock through the add-only verif-hooks origin override of passage-adapters-http; everything else is the unhooked code");
    crate::app::mojang_host(&rep, "C11");
    rep.finish()
}
