//! C19: targets cross the gRPC adapter boundary unchanged.
//!
//! The real `GrpcDiscoveryAdapter` / `GrpcStrategyAdapter` talk to an in-process tonic server
//! generated from the repository's own .proto files; the product of target shapes is enumerated
//! in all three directions (discovery reply, strategy request, strategy reply).
use common::{Cli, Report, Violation, par_for};
use passage_adapters::Target;
use passage_adapters::discovery::DiscoveryAdapter;
use passage_adapters::strategy::StrategyAdapter;
use serde_json::{Value, json};
use std::collections::HashMap;
use std::net::{IpAddr, SocketAddr};
use std::sync::atomic::{AtomicU64, Ordering};
use std::sync::{Arc, Mutex};
use uuid::Uuid;

pub mod proto {
    tonic::include_proto!("scrayosnet.passage.adapter");
}
use proto::discovery_server::{Discovery, DiscoveryServer};
use proto::strategy_server::{Strategy, StrategyServer};

#[derive(Clone, Debug)]
enum Reply {
    Echo(usize),
    Foreign(proto::Target),
    None,
}

#[derive(Default)]
struct MockState {
    /// discovery requests are numbered as they arrive and each waits until its own answer is provided
    held: bool,
    arrived: usize,
    answers: HashMap<usize, Vec<proto::Target>>,
    discovery_reply: Vec<proto::Target>,
    /// discovery requests that reached the service
    discovery_requests: usize,
    select_reply: Option<Reply>,
    last_select: Option<proto::SelectRequest>,
    /// so many select requests are answered with this gRPC status code first (every request is recorded)
    fail_selects: usize,
    fail_code: i32,
    all_selects: Vec<proto::SelectRequest>,
}

#[derive(Clone)]
struct Mock(Arc<Mutex<MockState>>);

#[tonic::async_trait]
impl Discovery for Mock {
    async fn get_targets(&self, _r: tonic::Request<proto::TargetRequest>) -> Result<tonic::Response<proto::TargetsResponse>, tonic::Status> {
        let held = {
            let mut st = self.0.lock().unwrap();
            st.discovery_requests += 1;
            if st.held {
                st.arrived += 1;
                Some(st.arrived - 1)
            } else {
                None
            }
        };
        if let Some(n) = held {
            loop {
                if let Some(targets) = self.0.lock().unwrap().answers.remove(&n) {
                    return Ok(tonic::Response::new(proto::TargetsResponse { targets }));
                }
                tokio::time::sleep(std::time::Duration::from_millis(2)).await;
            }
        }
        Ok(tonic::Response::new(proto::TargetsResponse { targets: self.0.lock().unwrap().discovery_reply.clone() }))
    }
}

#[tonic::async_trait]
impl Strategy for Mock {
    async fn select_target(&self, r: tonic::Request<proto::SelectRequest>) -> Result<tonic::Response<proto::SelectResponse>, tonic::Status> {
        let req = r.into_inner();
        let mut st = self.0.lock().unwrap();
        st.all_selects.push(req.clone());
        if st.fail_selects > 0 {
            st.fail_selects -= 1;
            st.last_select = Some(req);
            return Err(tonic::Status::new(tonic::Code::from_i32(st.fail_code), "not now (on purpose)"));
        }
        let target = match st.select_reply.clone().unwrap_or(Reply::None) {
            Reply::Echo(i) => req.targets.get(i).cloned(),
            Reply::Foreign(t) => Some(t),
            Reply::None => None,
        };
        st.last_select = Some(req);
        Ok(tonic::Response::new(proto::SelectResponse { target }))
    }
}

// ---------------------------------------------------------------------------------------

#[derive(Clone, Debug)]
struct WireTarget {
    id: String,
    host: Option<String>,
    port: u32,
    meta: Vec<(String, String)>,
}

fn to_proto(t: &WireTarget) -> proto::Target {
    proto::Target {
        identifier: t.id.clone(),
        address: t.host.as_ref().map(|h| proto::Address { hostname: h.clone(), port: t.port }),
        meta: t.meta.iter().map(|(k, v)| proto::MetaEntry { key: k.clone(), value: v.clone() }).collect(),
    }
}

#[derive(Debug, PartialEq)]
enum Want {
    /// must arrive with exactly this address
    Addr(SocketAddr),
    /// must be rejected
    Err,
    /// error, or exactly this address
    ErrOr(SocketAddr),
    /// only "no panic" is judged
    Unjudged,
}

fn classify_host(host: &Option<String>, port: u32) -> (Want, &'static str) {
    let Some(h) = host else { return (Want::Err, "address-absent") };
    if port > 65_535 {
        return (Want::Err, "port-out-of-range");
    }
    let p = port as u16;
    if let Ok(ip) = h.parse::<IpAddr>() {
        let fam = if ip.is_ipv4() { "ipv4" } else { "ipv6" };
        return (Want::Addr(SocketAddr::new(ip, p)), fam);
    }
    // bracketed or scoped literals: error or the same address
    let inner = h.trim_start_matches('[').trim_end_matches(']');
    let unscoped = inner.split('%').next().unwrap_or(inner);
    if (h.starts_with('[') || h.contains('%')) && unscoped.parse::<IpAddr>().is_ok() {
        return (Want::ErrOr(SocketAddr::new(unscoped.parse().unwrap(), p)), "bracketed-or-scoped");
    }
    // names that could be DNS names are not judged
    if !h.is_empty() && h.chars().all(|c| c.is_ascii_alphanumeric() || c == '-' || c == '.') && h.chars().any(|c| c.is_ascii_alphabetic()) {
        return (Want::Unjudged, "dns-name");
    }
    (Want::Err, "malformed-host")
}

fn meta_map(m: &[(String, String)]) -> Option<HashMap<String, String>> {
    let mut out = HashMap::new();
    for (k, v) in m {
        if out.insert(k.clone(), v.clone()).is_some() {
            return None; // duplicated key: no defined map value
        }
    }
    Some(out)
}

fn hosts() -> Vec<Option<String>> {
    let mut v: Vec<Option<String>> = ["10.1.2.3", "0.0.0.0", "255.255.255.255", "::1", "2001:db8::1", "2001:0db8:0000:0000:0000:0000:0000:0001", "::ffff:1.2.3.4", "::", "fe80::1%eth0", "[::1]", "localhost", "mc.example.org", "", "1.2.3", "1.2.3.4:5", " 1.2.3.4", "1.2.3.4 ", "::1:25565", "256.1.1.1"]
        .iter()
        .map(|s| Some(s.to_string()))
        .collect();
    v.push(None);
    v
}

fn metas() -> Vec<Vec<(String, String)>> {
    let kv = |k: &str, v: &str| (k.to_string(), v.to_string());
    vec![vec![], vec![kv("a", "b")], vec![kv("a", "b"), kv("c", "d")], vec![kv("a", "b"), kv("a", "z"), kv("c", "d")], vec![kv("", ""), kv("k", "")], vec![kv("players", "12"), kv("state", "Ready"), kv("ünï", "cødé 😀")]]
}

struct Ctx {
    rep: Report,
    rpcs: AtomicU64,
    ok_targets: AtomicU64,
    rejected: AtomicU64,
    /// discover() calls that were answered without a request to the service (repeated on a fresh adapter instance)
    unasked: AtomicU64,
}

fn bad(cx: &Ctx, key: String, text: String, replay: Value, w: u64) {
    cx.rep.violation(Violation { key, text, replay, weight: w });
}

struct Peer {
    state: Arc<Mutex<MockState>>,
    /// the adapters as the application builds them from its configuration (`Dyn*Adapter::from_config`): whatever
    /// sits between the configuration and the gRPC adapters is part of the boundary
    disc: passage::adapter::discovery::DynDiscoveryAdapter,
    strat: passage::adapter::strategy::DynStrategyAdapter,
    url: String,
}

async fn start_peer() -> Peer {
    let state = Arc::new(Mutex::new(MockState::default()));
    let mock = Mock(state.clone());
    let listener = tokio::net::TcpListener::bind("127.0.0.1:0").await.expect("bind");
    let addr = listener.local_addr().unwrap();
    let incoming = tonic::transport::server::TcpIncoming::from(listener);
    tokio::spawn(async move {
        let _ = tonic::transport::Server::builder().add_service(DiscoveryServer::new(mock.clone())).add_service(StrategyServer::new(mock)).serve_with_incoming(incoming).await;
    });
    let url = format!("http://{addr}");
    let disc = passage::adapter::discovery::DynDiscoveryAdapter::from_config(passage::config::DiscoveryAdapter::Grpc(passage::config::GrpcDiscovery { address: url.clone() }))
        .await
        .unwrap_or_else(|e| common::machinery(&format!("cannot connect discovery adapter: {e}")));
    let strat = passage::adapter::strategy::DynStrategyAdapter::from_config(passage::config::StrategyAdapter::Grpc(passage::config::GrpcStrategy { address: url.clone() }))
        .await
        .unwrap_or_else(|e| common::machinery(&format!("cannot connect strategy adapter: {e}")));
    Peer { state, disc, strat, url }
}

/// direction 1: discovery reply -> discover()
async fn check_discovery(cx: &Ctx, peer: &Peer, list: &[WireTarget]) {
    peer.state.lock().unwrap().discovery_reply = list.iter().map(to_proto).collect();
    cx.rpcs.fetch_add(1, Ordering::Relaxed);
    let replay = json!({"direction": "discovery-reply", "targets": list.iter().map(|t| json!({"id": t.id, "host": t.host, "port": t.port, "meta": t.meta})).collect::<Vec<_>>()});
    let asked_before = peer.state.lock().unwrap().discovery_requests;
    let mut got = peer.disc.discover().await;
    if peer.state.lock().unwrap().discovery_requests == asked_before {
        // the adapter answered without asking the service (it may keep an answer for a while: how often the service
        // is asked is not promised): what it returned says nothing about THIS reply. A fresh instance has to ask.
        cx.unasked.fetch_add(1, Ordering::Relaxed);
        let fresh = passage::adapter::discovery::DynDiscoveryAdapter::from_config(passage::config::DiscoveryAdapter::Grpc(passage::config::GrpcDiscovery { address: peer.url.clone() })).await;
        let Ok(fresh) = fresh else { return };
        got = fresh.discover().await;
        if peer.state.lock().unwrap().discovery_requests == asked_before {
            return;
        }
    }
    let wants: Vec<(Want, &str)> = list.iter().map(|t| classify_host(&t.host, t.port)).collect();
    let any_must_err = wants.iter().any(|w| w.0 == Want::Err);
    let any_soft = wants.iter().any(|w| matches!(w.0, Want::ErrOr(_) | Want::Unjudged));
    match got {
        Err(e) => {
            cx.rejected.fetch_add(1, Ordering::Relaxed);
            if !any_must_err && !any_soft {
                let class = if wants.iter().any(|w| w.1 == "ipv6") { "ipv6" } else { "ipv4" };
                bad(cx, format!("discovery-rejects-valid-target:{class}"), format!("discover() failed with '{e}' for well-formed targets {}", replay["targets"]), replay, list.len() as u64);
            }
        }
        Ok(ts) => {
            if any_must_err {
                let class = wants.iter().filter(|w| w.0 == Want::Err).map(|w| w.1).next().unwrap();
                bad(cx, format!("discovery-accepts-malformed-target:{class}"), format!("discover() returned {:?} for {}", ts.iter().map(|t| t.address.to_string()).collect::<Vec<_>>(), replay["targets"]), replay, list.len() as u64);
                return;
            }
            if ts.len() != list.len() {
                bad(cx, "discovery-target-count".into(), format!("{} targets returned for {} sent", ts.len(), list.len()), replay, list.len() as u64);
                return;
            }
            for ((t, w), (want, class)) in ts.iter().zip(list).zip(&wants) {
                cx.ok_targets.fetch_add(1, Ordering::Relaxed);
                if t.identifier != w.id {
                    bad(cx, "discovery-identifier-altered".into(), format!("identifier {:?} arrived as {:?}", w.id, t.identifier), replay.clone(), list.len() as u64);
                }
                match want {
                    Want::Addr(a) | Want::ErrOr(a) => {
                        if t.address != *a {
                            bad(cx, format!("discovery-address-altered:{class}"), format!("address {:?}:{} arrived as {}", w.host, w.port, t.address), replay.clone(), list.len() as u64);
                        }
                    }
                    _ => {}
                }
                match meta_map(&w.meta) {
                    Some(m) => {
                        if t.meta != m {
                            bad(cx, "discovery-metadata-altered".into(), format!("metadata {:?} arrived as {:?}", w.meta, t.meta), replay.clone(), list.len() as u64);
                        }
                    }
                    None => {
                        // duplicated key: the other keys must be intact
                        for (k, v) in &w.meta {
                            if w.meta.iter().filter(|(kk, _)| kk == k).count() == 1 && t.meta.get(k) != Some(v) {
                                bad(cx, "discovery-metadata-altered".into(), format!("metadata {:?} arrived as {:?}", w.meta, t.meta), replay.clone(), list.len() as u64);
                            }
                        }
                    }
                }
            }
        }
    }
}

/// directions 2 and 3: select() request as seen by the service, and its reply
async fn check_select(cx: &Ctx, peer: &Peer, cands: &[Target], reply: Reply, client: SocketAddr, server: (&str, u16), user: (&str, Uuid), protocol: i32) {
    {
        let mut st = peer.state.lock().unwrap();
        st.select_reply = Some(reply.clone());
        st.last_select = None;
    }
    cx.rpcs.fetch_add(1, Ordering::Relaxed);
    let replay = json!({"direction": "select", "candidates": cands.iter().map(|t| json!({"id": t.identifier, "addr": t.address.to_string(), "meta": t.meta})).collect::<Vec<_>>(),
        "reply": format!("{reply:?}"), "client": client.to_string(), "server": [server.0, server.1], "user": [user.0, user.1.to_string()], "protocol": protocol});
    let got = peer.strat.select(&client, server, protocol, (user.0, &user.1), cands.to_vec()).await;
    let w = cands.len() as u64;
    // ---- the request
    let req = peer.state.lock().unwrap().last_select.clone();
    let Some(req) = req else {
        bad(cx, "select-request-not-sent".into(), format!("{got:?}"), replay, w);
        return;
    };
    if req.targets.len() != cands.len() {
        bad(cx, "select-candidate-count".into(), format!("{} candidates sent, the service saw {}", cands.len(), req.targets.len()), replay.clone(), w);
    }
    for (sent, seen) in cands.iter().zip(&req.targets) {
        let addr_ok = seen.address.as_ref().is_some_and(|a| a.hostname.parse::<IpAddr>().ok() == Some(sent.address.ip()) && a.port == sent.address.port() as u32);
        let meta_seen: HashMap<String, String> = seen.meta.iter().map(|e| (e.key.clone(), e.value.clone())).collect();
        if seen.identifier != sent.identifier || !addr_ok || meta_seen != sent.meta || seen.meta.len() != sent.meta.len() {
            let fam = if sent.address.is_ipv4() { "ipv4" } else { "ipv6" };
            bad(cx, format!("select-candidate-altered:{fam}"), format!("candidate ({:?}, {}, {:?}) reached the service as ({:?}, {:?}, {:?})", sent.identifier, sent.address, sent.meta, seen.identifier, seen.address, seen.meta), replay.clone(), w);
        }
    }
    let ca_ok = req.client_address.as_ref().is_some_and(|a| a.hostname.parse::<IpAddr>().ok() == Some(client.ip()) && a.port == client.port() as u32);
    let sa_ok = req.server_address.as_ref().is_some_and(|a| a.hostname == server.0 && a.port == server.1 as u32);
    if !ca_ok || !sa_ok {
        bad(cx, "select-addresses-altered".into(), format!("client {client} / server {server:?} reached the service as {:?} / {:?}", req.client_address, req.server_address), replay.clone(), w);
    }
    if req.username != user.0 || req.user_id.parse::<Uuid>().ok() != Some(user.1) || req.protocol != protocol as u64 {
        bad(cx, "select-player-altered".into(), format!("player ({}, {}) protocol {protocol} reached the service as ({}, {}) protocol {}", user.0, user.1, req.username, req.user_id, req.protocol), replay.clone(), w);
    }
    // ---- the reply
    match (&reply, got) {
        (Reply::None, Ok(None)) => {}
        (Reply::None, other) => bad(cx, "select-none-altered".into(), format!("the service chose nothing, select() returned {other:?}"), replay, w),
        (Reply::Echo(i), got) => match (cands.get(*i), got) {
            (None, Ok(None)) => {}
            (Some(c), Ok(Some(t))) => {
                cx.ok_targets.fetch_add(1, Ordering::Relaxed);
                if t.identifier != c.identifier || t.address != c.address || t.meta != c.meta {
                    let fam = if c.address.is_ipv4() { "ipv4" } else { "ipv6" };
                    bad(cx, format!("select-choice-altered:{fam}"), format!("the service picked ({:?}, {}, {:?}); select() returned ({:?}, {}, {:?})", c.identifier, c.address, c.meta, t.identifier, t.address, t.meta), replay, w);
                }
            }
            (Some(c), other) => {
                let fam = if c.address.is_ipv4() { "ipv4" } else { "ipv6" };
                bad(cx, format!("select-choice-lost:{fam}"), format!("the service picked candidate #{i} ({}) exactly as it received it; select() returned {other:?}", c.address), replay, w)
            }
            (None, other) => bad(cx, "select-none-altered".into(), format!("{other:?}"), replay, w),
        },
        (Reply::Foreign(f), got) => {
            let host = f.address.as_ref().map(|a| a.hostname.clone());
            let port = f.address.as_ref().map(|a| a.port).unwrap_or(0);
            let (want, class) = classify_host(&host, port);
            match (want, got) {
                (Want::Err, Err(_)) => {
                    cx.rejected.fetch_add(1, Ordering::Relaxed);
                }
                (Want::Err, Ok(t)) => bad(cx, format!("select-accepts-malformed-target:{class}"), format!("reply {:?}:{port} was accepted as {:?}", host, t.map(|t| t.address)), replay, w),
                (Want::Addr(a), Ok(Some(t))) | (Want::ErrOr(a), Ok(Some(t))) => {
                    if t.address != a || t.identifier != f.identifier {
                        bad(cx, format!("select-choice-altered:{class}"), format!("reply {:?}:{port} arrived as {}", host, t.address), replay, w);
                    }
                }
                (Want::Addr(a), other) => {
                    // the statement is about "the target a strategy service picks from the candidates it was sent": a
                    // well-formed pick that IS one of the candidates (identifier, address and metadata) must come
                    // through; a pick that is none of them may be refused - it may never arrive as something else
                    let fmeta: HashMap<String, String> = f.meta.iter().map(|e| (e.key.clone(), e.value.clone())).collect();
                    let is_candidate = cands.iter().any(|c| c.identifier == f.identifier && c.address == a && c.meta == fmeta);
                    if is_candidate {
                        bad(cx, format!("select-rejects-valid-target:{class}"), format!("reply {:?}:{port} gave {other:?}", host), replay, w)
                    }
                }
                _ => {}
            }
        }
    }
}


/// Two (three) discover() calls in flight on one adapter instance, answered in every order, each with its own
/// list: every call returns exactly the list that was the answer to its own request.
async fn check_overlapping_discovery(cx: &Ctx) {
    let t = |id: &str, host: &str, port: u32| WireTarget { id: id.into(), host: Some(host.into()), port, meta: vec![("list".into(), id.into())] };
    let lists: Vec<Vec<WireTarget>> = vec![vec![t("lobby-1", "10.0.0.1", 25565), t("lobby-2", "2001:db8::2", 25566)], vec![t("lobby-3", "10.0.0.3", 25567)], vec![]];
    for order in [vec![0usize, 1], vec![1, 0], vec![0, 1, 2], vec![2, 1, 0], vec![1, 2, 0], vec![2, 0, 1], vec![1, 0, 2], vec![0, 2, 1]] {
        let peer = std::sync::Arc::new(start_peer().await);
        peer.state.lock().unwrap().held = true;
        let n = order.len();
        let mut calls = vec![];
        for k in 0..n {
            let p = peer.clone();
            calls.push(tokio::task::spawn_local(async move { p.disc.discover().await }));
            // the k-th request has reached the service before the next call starts
            let t0 = std::time::Instant::now();
            while peer.state.lock().unwrap().arrived <= k {
                if t0.elapsed() > std::time::Duration::from_secs(3) {
                    break;
                }
                tokio::time::sleep(std::time::Duration::from_millis(2)).await;
            }
        }
        cx.rpcs.fetch_add(n as u64, Ordering::Relaxed);
        let arrived = peer.state.lock().unwrap().arrived;
        let replay = json!({"direction": "overlapping-discovery", "answered_in_order": order});
        if arrived != n {
            // fewer requests than calls: some call did not ask the service at all
            bad(cx, "overlapping-discovery:call-without-request".into(), format!("{n} discover() calls are in flight, the service has seen {arrived} requests"), replay.clone(), 3);
        }
        for k in &order {
            peer.state.lock().unwrap().answers.insert(*k, lists[*k].iter().map(to_proto).collect());
            tokio::time::sleep(std::time::Duration::from_millis(15)).await;
        }
        for (k, call) in calls.into_iter().enumerate() {
            let got = match tokio::time::timeout(std::time::Duration::from_secs(3), call).await {
                Ok(Ok(Ok(ts))) => ts,
                other => {
                    bad(cx, "overlapping-discovery:call-failed".into(), format!("call #{k}: {other:?}"), replay.clone(), 3);
                    continue;
                }
            };
            let seen: Vec<(String, String)> = got.iter().map(|t| (t.identifier.clone(), t.address.to_string())).collect();
            let want: Vec<(String, String)> = lists[k].iter().map(|t| (t.id.clone(), SocketAddr::new(t.host.clone().unwrap().parse().unwrap(), t.port as u16).to_string())).collect();
            if seen != want {
                bad(cx, "overlapping-discovery:answer-of-another-request".into(), format!("{n} discover() calls in flight on one adapter, answered in the order {order:?}: call #{k} was answered with {want:?} and returned {seen:?}"), replay.clone(), 3);
            } else {
                cx.ok_targets.fetch_add(got.len() as u64, Ordering::Relaxed);
            }
        }
    }
}



/// A fleet of 6 000 targets with 6 000 different addresses crosses the boundary three times on one adapter instance
/// (and once more in reverse order): every one of them arrives with its own identifier, address and metadata every
/// time - whatever the adapter remembers between calls.
async fn check_large_fleet(cx: &Ctx) {
    let peer = start_peer().await;
    let fleet: Vec<WireTarget> = (0..6_000u32)
        .map(|i| WireTarget { id: format!("gs-{i}"), host: Some(if i % 3 == 2 { format!("2001:db8:{:x}::{:x}", i / 256, i % 256 + 1) } else { format!("10.{}.{}.{}", i / 62_500, (i / 250) % 250, i % 250 + 1) }), port: 20_000 + i % 30_000, meta: vec![("n".into(), i.to_string())] })
        .collect();
    for round in 0..4 {
        let list: Vec<WireTarget> = if round == 3 { fleet.iter().rev().cloned().collect() } else { fleet.clone() };
        check_discovery(cx, &peer, &list).await;
    }
}

/// The strategy service answers the first request(s) of a login with an error status (UNAVAILABLE, DEADLINE_EXCEEDED,
/// INTERNAL, RESOURCE_EXHAUSTED) and is healthy afterwards: whatever the adapter does about it - give up, ask again -
/// every request that reaches the service carries the candidates, player and addresses unaltered, and so does the
/// next, ordinary call.
async fn check_select_after_errors(cx: &Ctx) {
    let cands: Vec<Target> = vec![
        Target { identifier: "lobby-1".into(), address: "10.0.0.1:25565".parse().unwrap(), meta: [("players".to_string(), "17".to_string()), ("region".to_string(), "eu".to_string())].into_iter().collect() },
        Target { identifier: "lobby-2".into(), address: "[2001:db8::2]:25566".parse().unwrap(), meta: [("players".to_string(), "3".to_string())].into_iter().collect() },
    ];
    for code in [14, 4, 13, 8] {
        for failures in [1usize, 2] {
            let peer = start_peer().await;
            {
                let mut st = peer.state.lock().unwrap();
                st.fail_selects = failures;
                st.fail_code = code;
                st.select_reply = Some(Reply::Echo(1));
            }
            let client: SocketAddr = "203.0.113.9:40000".parse().unwrap();
            let user = Uuid::from_u128(77);
            let mut results = vec![];
            for _ in 0..3 {
                cx.rpcs.fetch_add(1, Ordering::Relaxed);
                results.push(peer.strat.select(&client, ("h.example", 25565), 769, ("Player", &user), cands.clone()).await);
            }
            let seen = peer.state.lock().unwrap().all_selects.clone();
            let replay = json!({"direction": "select-after-errors", "status": code, "failures": failures});
            for (i, req) in seen.iter().enumerate() {
                let same = req.targets.len() == cands.len()
                    && cands.iter().zip(&req.targets).all(|(c, t)| {
                        let meta: HashMap<String, String> = t.meta.iter().map(|e| (e.key.clone(), e.value.clone())).collect();
                        t.identifier == c.identifier && t.address.as_ref().is_some_and(|a| a.hostname.parse::<IpAddr>().ok() == Some(c.address.ip()) && a.port == c.address.port() as u32) && meta == c.meta && t.meta.len() == c.meta.len()
                    });
                let who = req.username == "Player" && req.client_address.as_ref().is_some_and(|a| a.hostname.parse::<IpAddr>().ok() == Some(client.ip()) && a.port == client.port() as u32);
                if !same || !who {
                    bad(cx, "select-candidate-altered:after-error-status".into(), format!("the service answered the first {failures} request(s) with gRPC status {code}; request #{i} of {} reached it with candidates {:?} for player {:?} (sent: {:?})", seen.len(), req.targets.iter().map(|t| (t.identifier.clone(), t.meta.iter().map(|e| (e.key.clone(), e.value.clone())).collect::<Vec<_>>())).collect::<Vec<_>>(), req.username, cands.iter().map(|c| (c.identifier.clone(), c.meta.clone())).collect::<Vec<_>>()), replay.clone(), 4);
                    break;
                }
            }
            match results.last() {
                Some(Ok(Some(t))) if t.identifier == cands[1].identifier && t.address == cands[1].address && t.meta == cands[1].meta => {
                    cx.ok_targets.fetch_add(1, Ordering::Relaxed);
                }
                other => bad(cx, "select-choice-altered:after-error-status".into(), format!("after {failures} request(s) answered with status {code} the service is healthy and picks lobby-2 as it received it; the third select() returned {other:?}"), replay, 4),
            }
        }
    }
}

/// Whole connections through the real Listener (PROXY protocol on) whose discovery and strategy are the gRPC
/// adapters: the service is sent the player's announced source address, the handshake's server address and the
/// discovered candidates unaltered, and the player is transferred to the candidate the service picked.
async fn check_whole_connections(cx: &Ctx) -> u64 {
    use crate::net::*;
    let peer = start_peer().await;
    let state = peer.state.clone();
    let cands = vec![
        WireTarget { id: "grpc-a".into(), host: Some("10.3.0.1".into()), port: 25565, meta: vec![("k".into(), "v".into())] },
        WireTarget { id: "grpc-b".into(), host: Some("2001:db8::b".into()), port: 25570, meta: vec![("players".into(), "7".into()), ("ü".into(), "😀".into())] },
    ];
    {
        let mut st = state.lock().unwrap();
        st.discovery_reply = cands.iter().map(to_proto).collect();
        st.select_reply = Some(Reply::Echo(1));
    }
    let a = std::sync::Arc::new(NetAdapters::new());
    let port = free_port();
    let addr: SocketAddr = format!("[::1]:{port}").parse().unwrap();
    let stop = tokio_util::sync::CancellationToken::new();
    let mut listener = passage_protocol::listener::Listener::new(a.clone(), std::sync::Arc::new(peer.disc), a.clone(), std::sync::Arc::new(peer.strat), a.clone(), std::sync::Arc::new(passage_adapters::FixedLocalizationAdapter::default()))
        .with_proxy_protocol(Some(passage_protocol::listener::ParseConfig { include_tlvs: false, allow_v1: true, allow_v2: true }))
        .with_connection_timeout(std::time::Duration::from_secs(20));
    let stop2 = stop.clone();
    let done = tokio::task::spawn_local(async move { listener.listen(addr, stop2).await.map_err(|e| e.to_string()) });
    let mut up = false;
    for _ in 0..400 {
        if tokio::net::TcpStream::connect(addr).await.is_ok() {
            up = true;
            break;
        }
        if done.is_finished() {
            break;
        }
        tokio::time::sleep(std::time::Duration::from_millis(5)).await;
    }
    if !up {
        // no IPv6 loopback in this sandbox: nothing to judge
        cx.rep.assume("whole connections through the gRPC adapters were skipped: the listener could not be bound to [::1]");
        return 0;
    }
    let mut n = 0;
    for (ver, src) in [("v1", "203.0.113.7:41000"), ("v1", "[2001:db8::7]:41001"), ("v1", "[::ffff:203.0.113.7]:41002"), ("v2", "[::ffff:10.0.0.1]:41003"), ("v2", "198.51.100.9:41004"), ("v2", "[::ffff:0:1]:41005")] {
        n += 1;
        let src: SocketAddr = src.parse().unwrap();
        let replay = json!({"direction": "whole-connection", "announced": src.to_string(), "header": ver});
        let Ok(mut c) = McClient::connect(addr, None).await else { continue };
        let hdr = match (ver, src.is_ipv4()) {
            ("v1", true) => format!("PROXY TCP4 {} 127.0.0.1 {} {port}\r\n", src.ip(), src.port()).into_bytes(),
            ("v1", false) => format!("PROXY TCP6 {} ::1 {} {port}\r\n", src.ip(), src.port()).into_bytes(),
            (_, true) => proxy_v2(src, format!("127.0.0.1:{port}").parse().unwrap()),
            _ => proxy_v2(src, addr),
        };
        let _ = c.send_raw(&hdr).await;
        state.lock().unwrap().last_select = None;
        let p = LoginParams { host: "grpc.example.net".into(), name: "GrpcPlayer".into(), wait: std::time::Duration::from_secs(3), ..Default::default() };
        let mut out = LoginOutcome { packets: vec![], stage: Stage::Connected, error: None };
        c.login(&p, Stage::Connected, Stage::Transferred, &mut out).await;
        cx.rpcs.fetch_add(2, Ordering::Relaxed);
        let req = state.lock().unwrap().last_select.clone();
        let Some(req) = req else {
            bad(cx, "connection:select-request-not-sent".into(), format!("announced {src}: stage {:?}, error {:?}", out.stage, out.error), replay, 5);
            continue;
        };
        let ca_ok = req.client_address.as_ref().is_some_and(|a| a.hostname.parse::<IpAddr>().ok() == Some(src.ip()) && a.port == src.port() as u32);
        let sa_ok = req.server_address.as_ref().is_some_and(|a| a.hostname == "grpc.example.net" && a.port == 25565);
        if !ca_ok || !sa_ok {
            bad(cx, "connection:select-addresses-altered".into(), format!("a player announced as {src} (PROXY {ver}) who connected to grpc.example.net:25565 reached the strategy service as client {:?}, server {:?}", req.client_address, req.server_address), replay.clone(), 5);
        }
        let seen: Vec<(String, Option<String>, u32)> = req.targets.iter().map(|t| (t.identifier.clone(), t.address.as_ref().map(|a| a.hostname.clone()), t.address.as_ref().map(|a| a.port).unwrap_or(0))).collect();
        let want: Vec<(String, Option<String>, u32)> = cands.iter().map(|t| (t.id.clone(), t.host.clone(), t.port)).collect();
        let same = seen.len() == want.len() && seen.iter().zip(&want).all(|(s, w)| s.0 == w.0 && s.2 == w.2 && s.1.as_ref().and_then(|h| h.parse::<IpAddr>().ok()) == w.1.as_ref().and_then(|h| h.parse::<IpAddr>().ok()));
        if !same || req.username != "GrpcPlayer" {
            bad(cx, "connection:select-candidate-altered".into(), format!("discovery answered {want:?}; the strategy service was sent {seen:?} for player {:?}", req.username), replay.clone(), 5);
        }
        let went = out.packets.iter().find_map(|p| if let common::refs::codec::Pkt::Transfer { host, port } = p { Some((host.clone(), *port)) } else { None });
        if went.as_ref().map(|(h, p)| (h.parse::<IpAddr>().ok(), *p)) != Some(("2001:db8::b".parse().ok(), 25570)) {
            bad(cx, "connection:select-choice-altered".into(), format!("the service picked grpc-b ([2001:db8::b]:25570); the player announced as {src} was sent {went:?} (stage {:?}, error {:?})", out.stage, out.error), replay, 5);
        } else {
            cx.ok_targets.fetch_add(1, Ordering::Relaxed);
        }
    }
    stop.cancel();
    let _ = tokio::time::timeout(std::time::Duration::from_secs(2), done).await;
    n
}

pub fn run(cli: Cli) -> ! {
    let rep = Report::new("C19", cli.tier, "exploration");
    let thorough = cli.tier.thorough();
    let cx = Ctx { rep, rpcs: AtomicU64::new(0), ok_targets: AtomicU64::new(0), rejected: AtomicU64::new(0), unasked: AtomicU64::new(0) };
    if cli.replay.is_some() {
        println!("C19 cases are written out in full in the replay file; the sweep is re-run, which re-evaluates that case.");
    }
    let long_id = "i".repeat(300);
    let ids: Vec<String> = vec!["".into(), "a".into(), "zürich-😀".into(), long_id];
    let ports: Vec<u32> = vec![0, 1, 25_565, 65_535, 65_536, u32::MAX];
    let hs = hosts();
    let ms = metas();

    // ---- direction 1: single targets, full product host x port x (id, meta rotated or full)
    let mut singles: Vec<WireTarget> = vec![];
    for (hi, h) in hs.iter().enumerate() {
        for (pi, p) in ports.iter().enumerate() {
            if thorough {
                for id in &ids {
                    for m in &ms {
                        singles.push(WireTarget { id: id.clone(), host: h.clone(), port: *p, meta: m.clone() });
                    }
                }
            } else {
                let k = hi + pi;
                singles.push(WireTarget { id: ids[k % ids.len()].clone(), host: h.clone(), port: *p, meta: ms[k % ms.len()].clone() });
            }
        }
    }
    // id x meta with a fixed good address
    for id in &ids {
        for m in &ms {
            singles.push(WireTarget { id: id.clone(), host: Some("10.1.2.3".into()), port: 25_565, meta: m.clone() });
            singles.push(WireTarget { id: id.clone(), host: Some("2001:db8::1".into()), port: 25_565, meta: m.clone() });
        }
    }
    // lists of 0..3
    let good4 = WireTarget { id: "g4".into(), host: Some("10.9.9.9".into()), port: 1, meta: ms[2].clone() };
    let good6 = WireTarget { id: "g6".into(), host: Some("2001:db8::6".into()), port: 65_535, meta: ms[1].clone() };
    let bad1 = WireTarget { id: "bad".into(), host: Some("1.2.3".into()), port: 1, meta: vec![] };
    let lists: Vec<Vec<WireTarget>> = vec![
        vec![],
        vec![good4.clone(), good6.clone()],
        vec![good6.clone(), good4.clone(), good6.clone()],
        vec![good4.clone(), good4.clone()],
        vec![good4.clone(), bad1.clone()],
        vec![bad1.clone(), good6.clone(), good4.clone()],
    ];

    // ---- directions 2 and 3
    let mk = |id: &str, addr: &str, meta: &[(String, String)]| Target { identifier: id.to_string(), address: addr.parse().unwrap(), meta: meta_map(meta).unwrap_or_default() };
    let addr_texts = ["10.1.2.3:25565", "0.0.0.0:0", "255.255.255.255:65535", "[::1]:1", "[2001:db8::1]:25565", "[::ffff:1.2.3.4]:25565", "[::]:65535", "[fe80::1]:7"];
    let mut cand_lists: Vec<Vec<Target>> = vec![vec![]];
    for a in addr_texts {
        for (i, m) in ms.iter().enumerate() {
            if meta_map(m).is_none() {
                continue;
            }
            if thorough || i < 3 {
                cand_lists.push(vec![mk(&ids[i % ids.len()], a, m)]);
            }
        }
    }
    for a in addr_texts {
        for b in addr_texts {
            if thorough || a == addr_texts[0] || b == addr_texts[4] {
                cand_lists.push(vec![mk("first", a, &ms[1]), mk("second", b, &ms[2])]);
            }
        }
    }
    // candidates that share an identifier but differ in address and metadata
    cand_lists.push(vec![mk("twin", "10.0.0.1:1", &ms[1]), mk("twin", "[2001:db8::2]:2", &ms[2]), mk("twin", "10.0.0.3:3", &ms[0])]);
    cand_lists.push(vec![mk("x", "10.0.0.1:1", &ms[0]), mk("x", "10.0.0.1:1", &ms[0]), mk("y", "[2001:db8::9]:9", &ms[5])]);
    let clients: Vec<SocketAddr> = vec!["198.51.100.7:40123".parse().unwrap(), "[2001:db8::77]:65535".parse().unwrap()];
    let servers: Vec<(&str, u16)> = vec![("play.example.org", 25565), ("", 0), ("zürich 😀 host with spaces", 65535), ("[::1]", 1)];
    let users: Vec<(&str, Uuid)> = vec![("Notch", Uuid::from_u128(0x069a79f4_44e9_4726_a5be_fca90e38aaf5)), ("", Uuid::nil()), ("Zoë_ß😀", Uuid::from_u128(u128::MAX))];

    // work list
    #[derive(Clone)]
    enum Job {
        Disc(Vec<WireTarget>),
        /// consecutive discovery replies on the same adapter instance (each judged on its own)
        DiscHistory(Vec<Vec<WireTarget>>),
        Sel(usize, Reply, usize, usize, usize, i32),
        /// consecutive select() calls on the same adapter instance whose candidate lists differ in one respect
        /// only (each call judged on its own: what the service sees is what this call was given)
        SelHistory(Vec<(Vec<Target>, Reply)>),
    }
    let mut jobs: Vec<Job> = vec![];
    for s in &singles {
        jobs.push(Job::Disc(vec![s.clone()]));
    }
    for l in &lists {
        jobs.push(Job::Disc(l.clone()));
    }
    // histories: the same (malformed or well-formed) reply repeated, a malformed reply between two good ones
    for (h, p) in [(Some("1.2.3".to_string()), 1u32), (Some("10.1.2.3".to_string()), 65_536), (None, 25_565), (Some("10.1.2.3".to_string()), u32::MAX), (Some("not an address".to_string()), 1)] {
        let bad = vec![good6.clone(), WireTarget { id: "bad".into(), host: h, port: p, meta: ms[1].clone() }];
        jobs.push(Job::DiscHistory(vec![vec![good4.clone()], bad.clone(), bad.clone(), vec![good4.clone()], bad.clone()]));
        jobs.push(Job::DiscHistory(vec![bad.clone(), bad.clone(), bad.clone()]));
    }
    jobs.push(Job::DiscHistory(vec![vec![good4.clone()], vec![good4.clone()], vec![good6.clone()], vec![], vec![], vec![good6.clone(), good4.clone()], vec![good4.clone(), good6.clone()]]));
    for (ci, cl) in cand_lists.iter().enumerate() {
        let mut replies = vec![Reply::None];
        for i in 0..cl.len().max(1) {
            replies.push(Reply::Echo(i));
        }
        replies.push(Reply::Echo(7));
        for (ri, r) in replies.iter().enumerate() {
            let k = ci + ri;
            jobs.push(Job::Sel(ci, r.clone(), k % clients.len(), k % servers.len(), k % users.len(), [769, 0, i32::MAX][k % 3]));
        }
    }
    // histories of select() calls: the next call's candidates differ from the previous call's only in metadata
    // values, in the set of metadata keys, in one address, in one identifier, in order, in length - or not at all
    {
        let m = |pairs: &[(&str, &str)]| -> Vec<(String, String)> { pairs.iter().map(|(k, v)| (k.to_string(), v.to_string())).collect() };
        let base = vec![mk("lobby-1", "10.0.0.1:25565", &m(&[("players", "3"), ("state", "Ready")])), mk("lobby-2", "[2001:db8::2]:25566", &m(&[("players", "7"), ("state", "Ready")]))];
        let other_values = vec![mk("lobby-1", "10.0.0.1:25565", &m(&[("players", "41"), ("state", "Ready")])), mk("lobby-2", "[2001:db8::2]:25566", &m(&[("players", "2"), ("state", "Allocated")]))];
        let fewer_keys = vec![mk("lobby-1", "10.0.0.1:25565", &m(&[("state", "Ready")])), mk("lobby-2", "[2001:db8::2]:25566", &m(&[]))];
        let more_keys = vec![mk("lobby-1", "10.0.0.1:25565", &m(&[("players", "3"), ("state", "Ready"), ("region", "eu")])), mk("lobby-2", "[2001:db8::2]:25566", &m(&[("players", "7"), ("state", "Ready")]))];
        let moved = vec![mk("lobby-1", "10.0.0.9:25565", &m(&[("players", "3"), ("state", "Ready")])), mk("lobby-2", "[2001:db8::2]:25567", &m(&[("players", "7"), ("state", "Ready")]))];
        let renamed = vec![mk("lobby-1b", "10.0.0.1:25565", &m(&[("players", "3"), ("state", "Ready")])), mk("lobby-2", "[2001:db8::2]:25566", &m(&[("players", "7"), ("state", "Ready")]))];
        let swapped: Vec<Target> = base.iter().rev().cloned().collect();
        let shorter = vec![base[1].clone()];
        for variant in [&other_values, &fewer_keys, &more_keys, &moved, &renamed, &swapped, &shorter, &base] {
            for pick in [0usize, 1] {
                jobs.push(Job::SelHistory(vec![(base.clone(), Reply::Echo(pick)), (variant.clone(), Reply::Echo(pick)), (base.clone(), Reply::Echo(1 - pick)), (variant.clone(), Reply::None)]));
            }
        }
    }
    // foreign replies: every host x port shape as the service's answer
    for h in &hs {
        for p in &ports {
            let f = to_proto(&WireTarget { id: "foreign".into(), host: h.clone(), port: *p, meta: ms[1].clone() });
            jobs.push(Job::Sel(1, Reply::Foreign(f), 0, 0, 0, 769));
        }
    }
    // malformed replies that name one of the candidates (identifier of a candidate, unusable address)
    let twin_list = cand_lists.iter().position(|l| l.first().is_some_and(|t| t.identifier == "twin")).unwrap();
    for h in &hs {
        for p in &ports {
            let f = to_proto(&WireTarget { id: "twin".into(), host: h.clone(), port: *p, meta: ms[1].clone() });
            jobs.push(Job::Sel(twin_list, Reply::Foreign(f), 0, 0, 0, 769));
        }
    }
    // full cross of request-side fields on one candidate list
    for c in 0..clients.len() {
        for s in 0..servers.len() {
            for u in 0..users.len() {
                jobs.push(Job::Sel(cand_lists.len() - 1, Reply::Echo(2), c, s, u, 769));
            }
        }
    }

    let workers = 8usize;
    let cxr = &cx;
    let (cand_lists, clients, servers, users) = (&cand_lists, &clients, &servers, &users);
    let jobs = &jobs;
    par_for(workers, |w| {
        let rt = tokio::runtime::Builder::new_current_thread().enable_all().build().expect("rt");
        rt.block_on(async {
            let peer = start_peer().await;
            for (i, j) in jobs.iter().enumerate() {
                if i % workers != w {
                    continue;
                }
                let r = std::panic::AssertUnwindSafe(async {
                    match j {
                        Job::Disc(l) => check_discovery(cxr, &peer, l).await,
                        Job::DiscHistory(ls) => {
                            for l in ls {
                                check_discovery(cxr, &peer, l).await;
                            }
                        }
                        Job::Sel(ci, r, c, s, u, p) => check_select(cxr, &peer, &cand_lists[*ci], r.clone(), clients[*c], servers[*s], users[*u], *p).await,
                        Job::SelHistory(steps) => {
                            // a fresh adapter instance per history (the shared one has seen other candidates)
                            let own = start_peer().await;
                            for (cands, reply) in steps {
                                check_select(cxr, &own, cands, reply.clone(), clients[0], servers[0], users[0], 769).await;
                            }
                        }
                    }
                });
                r.await;
            }
        });
    });

    let whole = crate::net::run_local(async {
        check_overlapping_discovery(&cx).await;
        check_select_after_errors(&cx).await;
        check_large_fleet(&cx).await;
        check_whole_connections(&cx).await
    });
    cx.rep.set("whole_connections_through_the_listener", json!(whole));
    cx.rep.set("orders_of_overlapping_discovery_answers", json!(8));
    let rpcs = cx.rpcs.load(Ordering::Relaxed);
    cx.rep.require("targets that crossed the boundary", cx.ok_targets.load(Ordering::Relaxed), 50);
    cx.rep.require("rejected replies", cx.rejected.load(Ordering::Relaxed), 20);
    cx.rep.set("evaluations", json!(rpcs));
    cx.rep.set("discover_calls_answered_without_asking_the_service_and_repeated_on_a_fresh_adapter", json!(cx.unasked.load(Ordering::Relaxed)));
    cx.rep.set("distinct_nontrivial", json!(jobs.len()));
    cx.rep.set("targets_crossed", json!(cx.ok_targets.load(Ordering::Relaxed)));
    cx.rep.set("rejected", json!(cx.rejected.load(Ordering::Relaxed)));
    cx.rep.set("exhaustive", json!(true));
    cx.rep.set("rule", json!("RPCs against an in-process tonic server generated from the repository's .proto files, through the adapters as the application builds them (Dyn*Adapter::from_config): discovery replies over host text(20, incl. absent) x port(6) [x identifier(4) x metadata(6) in thorough], identifier x metadata on good IPv4/IPv6 addresses, lists of 0-3, 11 histories of 3-7 consecutive replies on one adapter instance (a malformed reply repeated, between and after well-formed ones); select() over candidate lists (8 address shapes x metadata, ordered pairs) x reply (none, echo of the i-th candidate as received, out-of-range index, every host x port shape as a foreign reply) x client address, server address, player; 16 histories of 4 select() calls on one adapter instance whose candidate lists differ only in metadata values, metadata keys, one address, one identifier, order or length. Every job is distinct."));
    cx.rep.sample(json!({"direction": "discovery-reply", "target": {"id": "a", "host": "2001:db8::1", "port": 25565, "meta": [["a", "b"]]}, "expect": "Target with address [2001:db8::1]:25565"}));
    cx.rep.sample(json!({"direction": "discovery-reply", "target": {"id": "a", "host": "10.1.2.3", "port": 65536}, "expect": "error"}));
    cx.rep.sample(json!({"direction": "select", "candidates": ["10.1.2.3:25565", "[2001:db8::1]:25565"], "reply": "Echo(1)", "expect": "the second candidate, unchanged"}));
    cx.rep.assume("host names that could be DNS names are sent only to check that nothing panics; bracketed or scoped IPv6 literals may be rejected or accepted as the same address; metadata with a duplicated key has no defined map value (only the other keys are judged)");
    cx.rep.assume("tonic / prost encode and decode the messages; the wire contract is the repository's own .proto files");
    cx.rep.finish()
}
