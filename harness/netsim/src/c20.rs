//! C20: Agones discovery offers exactly the currently ready game servers.
//!
//! The real `AgonesDiscoveryAdapter` (kube client, watcher, backoff) runs against a minimal mock
//! of the Kubernetes LIST/WATCH API on loopback. All histories of watch events up to a depth are
//! enumerated; after every event a marker object is toggled and awaited as a barrier (events are
//! applied in stream order), then the snapshot is compared with a reference map.
use common::{Cli, Report, Violation, par_for};
use passage_adapters::discovery::DiscoveryAdapter;
use passage_adapters_agones::AgonesDiscoveryAdapter;
use passage_adapters_agones::watcher_config::Config as WatchConfig;
use serde::{Deserialize, Serialize};
use serde_json::{Value, json};
use std::collections::BTreeMap;
use std::net::SocketAddr;
use std::sync::atomic::{AtomicU64, Ordering};
use std::sync::{Arc, Mutex};
use std::time::{Duration, Instant};
use tokio::io::{AsyncReadExt, AsyncWriteExt};
use tokio::sync::mpsc;

const MARKER: &str = "zz-marker";

// ---------------------------------------------------------------------------------------
// mock Kubernetes API
// ---------------------------------------------------------------------------------------

enum WatchMsg {
    Line(String),
    Close,
}

#[derive(Default)]
struct K8s {
    objects: BTreeMap<String, Value>,
    rv: u64,
    watchers: Vec<mpsc::UnboundedSender<WatchMsg>>,
    /// every event ever emitted, with its resource version (a watch from version N is first brought up to date)
    log: Vec<(u64, String)>,
    lists: u64,
    watches: u64,
    /// when a paginated LIST asks for its next page: delete these objects (nobody is told) and answer 410 once
    interrupt_continue: Option<Vec<String>>,
    interrupted: u64,
    /// the next request for a further page of a paginated LIST is held back until `release` is notified
    hold_continue: bool,
    holding: bool,
    release: Arc<tokio::sync::Notify>,
    /// LIST responses are slow: their content is fixed when the request arrives, they are sent when `release_lists`
    /// is notified
    hold_lists: bool,
    held_lists: u64,
    release_lists: Arc<tokio::sync::Notify>,
    /// changes that happen while the next streamed initial list is on its way
    during_initial: Vec<(String, String)>,
    streamed_lists: u64,
}

impl K8s {
    fn broadcast(&mut self, line: String) {
        self.log.push((self.rv, line.clone()));
        self.watchers.retain(|w| w.send(WatchMsg::Line(line.clone())).is_ok());
    }
    fn apply(&mut self, name: &str, mut obj: Value) {
        self.rv += 1;
        obj["metadata"]["resourceVersion"] = json!(self.rv.to_string());
        let kind = if self.objects.contains_key(name) { "MODIFIED" } else { "ADDED" };
        self.objects.insert(name.to_string(), obj.clone());
        self.broadcast(json!({"type": kind, "object": obj}).to_string());
    }
    fn delete(&mut self, name: &str) {
        if let Some(mut obj) = self.objects.remove(name) {
            self.rv += 1;
            obj["metadata"]["resourceVersion"] = json!(self.rv.to_string());
            self.broadcast(json!({"type": "DELETED", "object": obj}).to_string());
        }
    }
    fn bookmark(&mut self) {
        self.rv += 1;
        let line = json!({"type": "BOOKMARK", "object": {"apiVersion": "agones.dev/v1", "kind": "GameServer", "metadata": {"resourceVersion": self.rv.to_string()}}}).to_string();
        self.broadcast(line);
    }
    fn close_watches(&mut self) {
        for w in self.watchers.drain(..) {
            let _ = w.send(WatchMsg::Close);
        }
    }
    /// a server-side failure of the watch that is not "410 Gone": an ERROR event, then the stream ends
    fn watch_error(&mut self) {
        let line = json!({"type": "ERROR", "object": {"kind": "Status", "apiVersion": "v1", "metadata": {}, "status": "Failure", "message": "etcdserver: request timed out", "reason": "InternalError", "code": 500}}).to_string();
        self.watchers.retain(|w| w.send(WatchMsg::Line(line.clone())).is_ok());
        self.close_watches();
    }
    fn gone(&mut self) {
        let line = json!({"type": "ERROR", "object": {"kind": "Status", "apiVersion": "v1", "metadata": {}, "status": "Failure", "message": "too old resource version", "reason": "Expired", "code": 410}}).to_string();
        self.watchers.retain(|w| w.send(WatchMsg::Line(line.clone())).is_ok());
        self.close_watches();
    }
}

async fn serve(state: Arc<Mutex<K8s>>) -> SocketAddr {
    let listener = tokio::net::TcpListener::bind("127.0.0.1:0").await.expect("bind");
    let addr = listener.local_addr().unwrap();
    tokio::spawn(async move {
        loop {
            let Ok((mut sock, _)) = listener.accept().await else { break };
            let _ = sock.set_nodelay(true);
            let state = state.clone();
            tokio::spawn(async move {
                let mut buf: Vec<u8> = vec![];
                loop {
                    let end = loop {
                        if let Some(p) = buf.windows(4).position(|w| w == b"\r\n\r\n") {
                            break Some(p + 4);
                        }
                        let mut tmp = [0u8; 4096];
                        match sock.read(&mut tmp).await {
                            Ok(0) | Err(_) => break None,
                            Ok(n) => buf.extend_from_slice(&tmp[..n]),
                        }
                    };
                    let Some(end) = end else { return };
                    let head = String::from_utf8_lossy(&buf[..end]).to_string();
                    buf.drain(..end);
                    let target = head.split(' ').nth(1).unwrap_or("").to_string();
                    if std::env::var("C20_DEBUG").is_ok() {
                        eprintln!("mock k8s: {target}");
                    }
                    if !target.starts_with("/apis/agones.dev/v1/") || !target.contains("gameservers") {
                        let _ = sock.write_all(b"HTTP/1.1 404 Not Found\r\ncontent-length: 0\r\n\r\n").await;
                        continue;
                    }
                    if target.contains("watch=true") || target.contains("watch=1") {
                        let (tx, mut rx) = mpsc::unbounded_channel();
                        {
                            let mut st = state.lock().unwrap();
                            st.watches += 1;
                            // like the real API server: first everything that happened after the requested version
                            let from: Option<u64> = target.split(['?', '&']).find_map(|kv| kv.strip_prefix("resourceVersion=")).and_then(|v| v.parse().ok());
                            if target.contains("sendInitialEvents=true") {
                                // a streamed initial list: every object as ADDED, what changes meanwhile as ordinary
                                // events, then the bookmark that ends the initial events
                                st.streamed_lists += 1;
                                for obj in st.objects.values() {
                                    let _ = tx.send(WatchMsg::Line(json!({"type": "ADDED", "object": obj}).to_string()));
                                }
                                let changes: Vec<(String, String)> = st.during_initial.drain(..).collect();
                                let seen = st.log.len();
                                for (name, shape) in changes {
                                    if shape == "deleted" { st.delete(&name) } else { st.apply(&name, game_server(&name, &shape)) }
                                }
                                for (_, line) in st.log[seen..].iter() {
                                    let _ = tx.send(WatchMsg::Line(line.clone()));
                                }
                                let rv = st.rv;
                                let _ = tx.send(WatchMsg::Line(json!({"type": "BOOKMARK", "object": {"apiVersion": "agones.dev/v1", "kind": "GameServer", "metadata": {"resourceVersion": rv.to_string(), "annotations": {"k8s.io/initial-events-end": "true"}}}}).to_string()));
                            } else if let Some(from) = from {
                                for (rv, line) in st.log.iter().filter(|(rv, _)| *rv > from) {
                                    let _ = rv;
                                    let _ = tx.send(WatchMsg::Line(line.clone()));
                                }
                            }
                            st.watchers.push(tx);
                        }
                        if sock.write_all(b"HTTP/1.1 200 OK\r\ncontent-type: application/json\r\ntransfer-encoding: chunked\r\n\r\n").await.is_err() {
                            return;
                        }
                        loop {
                            // everything that is queued at this moment goes out in ONE write (events emitted under one
                            // lock of the mock's state become readable for the client at the same instant)
                            let mut lines = String::new();
                            let mut close = false;
                            let mut next = rx.recv().await;
                            loop {
                                match next {
                                    Some(WatchMsg::Line(l)) => {
                                        lines.push_str(&l);
                                        lines.push('\n');
                                    }
                                    Some(WatchMsg::Close) | None => {
                                        close = true;
                                        break;
                                    }
                                }
                                match rx.try_recv() {
                                    Ok(m) => next = Some(m),
                                    Err(_) => break,
                                }
                            }
                            // one HTTP chunk holding all lines, and the end of the stream in the same write
                            let mut out: Vec<u8> = vec![];
                            if !lines.is_empty() {
                                out.extend_from_slice(format!("{:x}\r\n{lines}\r\n", lines.len()).as_bytes());
                            }
                            if close {
                                out.extend_from_slice(b"0\r\n\r\n");
                            }
                            if sock.write_all(&out).await.is_err() {
                                return;
                            }
                            if close {
                                break;
                            }
                        }
                        // the connection stays usable for the next request
                        continue;
                    }
                    let param = |name: &str| target.split(['?', '&']).find_map(|kv| kv.strip_prefix(name).and_then(|r| r.strip_prefix('='))).map(String::from);
                    let limit: Option<usize> = param("limit").and_then(|v| v.parse().ok());
                    let cont: Option<String> = param("continue").filter(|c| !c.is_empty());
                    let hold = {
                        let mut st = state.lock().unwrap();
                        if cont.is_some() && st.hold_continue {
                            st.hold_continue = false;
                            st.holding = true;
                            Some(st.release.clone())
                        } else {
                            None
                        }
                    };
                    if let Some(release) = hold {
                        release.notified().await;
                        state.lock().unwrap().holding = false;
                    }
                    let (status, body) = {
                        let mut st = state.lock().unwrap();
                        st.lists += 1;
                        if cont.is_some() && st.interrupt_continue.is_some() {
                            // the continue token has "expired": meanwhile some objects disappeared
                            for n in st.interrupt_continue.take().unwrap() {
                                st.objects.remove(&n);
                                st.rv += 1;
                            }
                            st.interrupted += 1;
                            ("410 Gone", json!({"kind": "Status", "apiVersion": "v1", "metadata": {}, "status": "Failure", "message": "The provided continue parameter is too old", "reason": "Expired", "code": 410}).to_string())
                        } else {
                            // (a cluster-wide list is ordered by namespace, then name: the names alone are in no order)
                            let mut names: Vec<String> = st.objects.keys().filter(|n| cont.as_ref().is_none_or(|c| list_key(n) > list_key(c))).cloned().collect();
                            names.sort_by_key(|n| list_key(n));
                            let page: Vec<String> = match limit {
                                Some(l) => names.iter().take(l).cloned().collect(),
                                None => names.clone(),
                            };
                            let more = page.len() < names.len();
                            let mut meta = json!({"resourceVersion": st.rv.to_string()});
                            if more {
                                meta["continue"] = json!(page.last().cloned().unwrap_or_default());
                            }
                            ("200 OK", json!({"apiVersion": "agones.dev/v1", "kind": "GameServerList", "metadata": meta, "items": page.iter().map(|n| st.objects[n].clone()).collect::<Vec<_>>()}).to_string())
                        }
                    };
                    let slow = {
                        let mut st = state.lock().unwrap();
                        if st.hold_lists {
                            st.held_lists += 1;
                            Some(st.release_lists.clone())
                        } else {
                            None
                        }
                    };
                    if let Some(release) = slow {
                        release.notified().await;
                    }
                    let resp = format!("HTTP/1.1 {status}\r\ncontent-type: application/json\r\ncontent-length: {}\r\n\r\n{body}", body.len());
                    if sock.write_all(resp.as_bytes()).await.is_err() {
                        return;
                    }
                }
            });
        }
    });
    addr
}

// ---------------------------------------------------------------------------------------
// game server shapes and the reference model
// ---------------------------------------------------------------------------------------

fn game_server(name: &str, shape: &str) -> Value {
    let (state, address, ports): (&str, &str, Value) = match shape {
        "ready" => ("Ready", "10.0.0.1", json!([{"name": "default", "port": 7001}])),
        "allocated" => ("Allocated", "10.0.0.1", json!([{"name": "default", "port": 7001}])),
        "shutdown" => ("Shutdown", "10.0.0.1", json!([{"name": "default", "port": 7001}])),
        "scheduled" => ("Scheduled", "", json!([])),
        "ready-moved" => ("Ready", "2001:db8::20", json!([{"name": "game", "port": 7100}, {"name": "query", "port": 7101}])),
        "ready-no-ports" => ("Ready", "10.0.0.1", json!([])),
        "ready-bad-address" => ("Ready", "node-7.internal", json!([{"name": "default", "port": 7001}])),
        // still Ready at the same address, but most of its metadata has been taken off: one label left, no
        // annotation, one counter with another count, no list
        "ready-lean" => {
            return json!({
                "apiVersion": "agones.dev/v1", "kind": "GameServer",
                "metadata": {"name": name, "namespace": namespace_of(name), "uid": format!("uid-{name}"), "labels": {"mode": name}},
                "spec": {"container": "mc"},
                "status": {"address": "10.0.0.1", "ports": [{"name": "default", "port": 7001}], "state": "Ready", "counters": {"players": {"count": 5, "capacity": 10}}},
            });
        }
        // marked for deletion (deletionTimestamp set, kept alive by its finalizer) but still Allocated at another
        // port: its most recently observed state is what counts
        "allocated-terminating" => {
            let mut v = game_server(name, "allocated");
            v["metadata"]["deletionTimestamp"] = json!("2026-01-01T00:00:00Z");
            v["metadata"]["deletionGracePeriodSeconds"] = json!(0);
            v["metadata"]["finalizers"] = json!(["agones.dev/controller"]);
            v["status"]["ports"] = json!([{"name": "default", "port": 7300}]);
            return v;
        }
        other => common::machinery(&format!("shape {other}")),
    };
    json!({
        "apiVersion": "agones.dev/v1", "kind": "GameServer",
        "metadata": {"name": name, "namespace": namespace_of(name), "uid": format!("uid-{name}"), "labels": {"agones.dev/fleet": "lobby", "mode": name}, "annotations": {"note": format!("anno-{shape}")}},
        "spec": {"container": "mc"},
        "status": {"address": address, "ports": ports, "state": state,
            "counters": {"players": {"count": 3, "capacity": 10}, "rooms": {"capacity": 4}},
            "lists": {"tags": {"capacity": 5, "values": ["x", "y"]}, "empty": {"values": []}}},
    })
}

/// what discover() must offer for an object, or None if it must not be offered
/// The game servers of the mock live in two namespaces: names that start with `a` in `zone-z`, all others in
/// `zone-b` - so that a cluster-wide list (namespace, then name) does not come out sorted by name.
fn namespace_of(name: &str) -> &'static str {
    if name.starts_with('a') { "zone-z" } else { "zone-b" }
}

fn list_key(name: &str) -> (String, String) {
    (namespace_of(name).to_string(), name.to_string())
}

fn reference_target(obj: &Value) -> Option<(String, SocketAddr, BTreeMap<String, String>)> {
    let st = &obj["status"];
    let state = st["state"].as_str()?;
    if state != "Ready" && state != "Allocated" {
        return None;
    }
    let ip: std::net::IpAddr = st["address"].as_str()?.parse().ok()?;
    let port = st["ports"].as_array()?.first()?["port"].as_u64()? as u16;
    let mut meta = BTreeMap::new();
    meta.insert("state".to_string(), state.to_string());
    if let Some(c) = st["counters"].as_object() {
        for (k, v) in c {
            meta.insert(k.clone(), v["count"].as_u64().unwrap_or(0).to_string());
        }
    }
    if let Some(l) = st["lists"].as_object() {
        for (k, v) in l {
            let vals: Vec<&str> = v["values"].as_array().map(|a| a.iter().filter_map(Value::as_str).collect()).unwrap_or_default();
            meta.insert(k.clone(), vals.join(","));
        }
    }
    for sect in ["labels", "annotations"] {
        if let Some(m) = obj["metadata"][sect].as_object() {
            for (k, v) in m {
                meta.insert(k.clone(), v.as_str().unwrap_or("").to_string());
            }
        }
    }
    Some((obj["metadata"]["name"].as_str()?.to_string(), SocketAddr::new(ip, port), meta))
}

#[derive(Clone, Debug, Serialize, Deserialize, PartialEq)]
pub enum Ev {
    Apply { name: String, shape: String },
    Delete { name: String },
    Bookmark,
    CloseWatch,
    Gone,
    /// 410 Gone, and while the watch is down the object disappears (nobody is told)
    GoneAndDelete { name: String },
    /// 410 Gone, and while the watch is down the object changes
    GoneAndApply { name: String, shape: String },
    /// 410 Gone; the paginated re-list is cut off after its first page (expired continue token) and the
    /// named objects disappear before the list is retried
    GoneRelistInterrupted { delete: Vec<String> },
    /// 410 Gone; the paginated re-list is held back after its first page, the offer is read while it is
    /// incomplete (nothing changed: everything must still be offered), then the re-list goes on
    GoneRelistHeld,
    /// the watch fails on the server side (ERROR event with code 500, stream closed)
    WatchError,
    /// DELETED and the ERROR event become readable for the client in the same write
    DeleteThenWatchError { name: String },
    /// ADDED/MODIFIED and the ERROR event become readable for the client in the same write
    ApplyThenWatchError { name: String, shape: String },
    /// the watch fails on the server side (ERROR 500); from then on LIST responses are slow (content fixed on
    /// arrival, delivered later). Once a new watch is open the object changes (`shape`, or "deleted"); the offer is
    /// compared after the change and again after the slow responses have been delivered.
    WatchErrorSlowLists { name: String, shape: String },
}

#[derive(Clone, Debug, Serialize, Deserialize, PartialEq)]
pub struct Spec {
    /// initial LIST content: (name, shape)
    initial: Vec<(String, String)>,
    history: Vec<Ev>,
    /// the adapter lists in pages of two objects
    #[serde(default)]
    paged: bool,
    /// the adapter is configured to receive its initial list as a stream of watch events (sendInitialEvents)
    #[serde(default)]
    streaming: bool,
    /// while an initial list is being streamed: these objects change (name, shape | "deleted") after every object
    /// was announced and before the end-of-initial-events bookmark (first streamed list only)
    #[serde(default)]
    during_initial: Vec<(String, String)>,
}

static KUBECONFIG_LOCK: Mutex<()> = Mutex::new(());

/// the adapter under test: built directly (a page size of two needs that), or the way the application builds it
/// from its configuration
enum Subject {
    Direct(AgonesDiscoveryAdapter),
    FromConfig(passage::adapter::discovery::DynDiscoveryAdapter),
}

impl Subject {
    async fn discover(&self) -> passage_adapters::Result<Vec<passage_adapters::Target>> {
        use passage_adapters::discovery::DiscoveryAdapter;
        match self {
            Subject::Direct(a) => a.discover().await,
            Subject::FromConfig(a) => a.discover().await,
        }
    }
}

async fn wait_for<F: Fn(&[passage_adapters::Target]) -> bool>(adapter: &Subject, pred: F, max: Duration) -> Option<Vec<passage_adapters::Target>> {
    let t0 = Instant::now();
    loop {
        let snap = adapter.discover().await.unwrap_or_default();
        if pred(&snap) {
            return Some(snap);
        }
        if t0.elapsed() > max {
            return None;
        }
        tokio::time::sleep(Duration::from_millis(2)).await;
    }
}

fn run_history(spec: &Spec, counters: &(AtomicU64, AtomicU64)) -> Vec<(String, String)> {
    let rt = tokio::runtime::Builder::new_current_thread().enable_all().build().expect("rt");
    rt.block_on(async {
        let mut v: Vec<(String, String)> = vec![];
        let state = Arc::new(Mutex::new(K8s::default()));
        {
            let mut st = state.lock().unwrap();
            for (n, s) in &spec.initial {
                st.apply(n, game_server(n, s));
            }
            st.during_initial = spec.during_initial.clone();
        }
        let addr = serve(state.clone()).await;
        // the kube client reads KUBECONFIG when it is created: serialise that step across threads
        let adapter = {
            let _g = KUBECONFIG_LOCK.lock().unwrap();
            let path = format!("/verif/target/kubeconfig-{}-{}.yaml", std::process::id(), addr.port());
            let cfg = format!("apiVersion: v1\nkind: Config\nclusters:\n- name: mock\n  cluster:\n    server: http://{addr}\ncontexts:\n- name: mock\n  context:\n    cluster: mock\n    user: mock\n    namespace: default\ncurrent-context: mock\nusers:\n- name: mock\n  user: {{}}\n");
            std::fs::write(&path, cfg).expect("kubeconfig");
            unsafe { std::env::set_var("KUBECONFIG", &path) };
            let wc = if spec.streaming { WatchConfig::default().streaming_lists() } else if spec.paged { WatchConfig::default().page_size(2) } else { WatchConfig::default() };
            // unpaged histories alternate between the two ways of building the adapter
            let via_config = !spec.paged && !spec.streaming && spec.history.len() % 2 == 1;
            let a = if via_config {
                passage::adapter::discovery::DynDiscoveryAdapter::from_config(passage::config::DiscoveryAdapter::Agones(passage::config::AgonesDiscovery { namespace: None, label_selector: None, field_selector: None }))
                    .await
                    .map(Subject::FromConfig)
                    .map_err(|e| e.to_string())
            } else {
                AgonesDiscoveryAdapter::new(None, wc).await.map(Subject::Direct).map_err(|e| e.to_string())
            };
            let _ = std::fs::remove_file(&path);
            match a {
                Ok(a) => a,
                Err(e) => common::machinery(&format!("cannot create the Agones adapter against the mock: {e}")),
            }
        };
        // barrier helper: toggle the marker and wait until the snapshot shows it
        let mut marker_ready = false;
        let mut barrier = |state: &Arc<Mutex<K8s>>| {
            marker_ready = !marker_ready;
            let shape = if marker_ready { "ready" } else { "shutdown" };
            state.lock().unwrap().apply(MARKER, game_server(MARKER, shape));
            marker_ready
        };
        let check = |snap: &[passage_adapters::Target], truth: &BTreeMap<String, Value>, step: usize, ev: &str, v: &mut Vec<(String, String)>| {
            let mut offered: BTreeMap<String, Vec<&passage_adapters::Target>> = BTreeMap::new();
            for t in snap.iter().filter(|t| t.identifier != MARKER) {
                offered.entry(t.identifier.clone()).or_default().push(t);
            }
            for (name, obj) in truth.iter().filter(|(n, _)| n.as_str() != MARKER) {
                let want = reference_target(obj);
                let got = offered.remove(name);
                match (want, got) {
                    (None, None) => {}
                    (Some(_), None) => v.push(("ready-server-not-offered".into(), format!("after step {step} ({ev}): '{name}' is {} but is not offered", obj["status"]["state"]))),
                    (None, Some(g)) => {
                        let state = obj["status"]["state"].as_str().unwrap_or("?");
                        let key = if state == "Ready" || state == "Allocated" { "unconvertible-update-keeps-stale" } else { "not-ready-server-offered" };
                        v.push((key.into(), format!("after step {step} ({ev}): '{name}' was last observed as {state} (ports {}, address {}) but is still offered at {}", obj["status"]["ports"], obj["status"]["address"], g[0].address)));
                    }
                    (Some((_, addr, meta)), Some(g)) => {
                        if g.len() != 1 {
                            v.push(("server-offered-twice".into(), format!("after step {step} ({ev}): '{name}' offered {} times", g.len())));
                        }
                        if g[0].address != addr {
                            v.push(("stale-address".into(), format!("after step {step} ({ev}): '{name}' offered at {} but its current address is {addr}", g[0].address)));
                        }
                        for (k, val) in &meta {
                            if g[0].meta.get(k) != Some(val) {
                                v.push(("metadata-mismatch".into(), format!("after step {step} ({ev}): '{name}' metadata {k:?} is {:?}, expected {val:?}", g[0].meta.get(k))));
                                break;
                            }
                        }
                        // a label, annotation, counter or list that the object no longer has can only come from
                        // an earlier version of it (these are all the keys any shape of the mock ever carries)
                        for k in ["agones.dev/fleet", "mode", "note", "players", "rooms", "tags", "empty"] {
                            if !meta.contains_key(k) && g[0].meta.contains_key(k) {
                                v.push(("stale-metadata".into(), format!("after step {step} ({ev}): '{name}' is offered with metadata {k:?} = {:?}, which the GameServer no longer carries", g[0].meta.get(k))));
                                break;
                            }
                        }
                    }
                }
            }
            for (name, g) in offered {
                v.push(("deleted-server-still-offered".into(), format!("after step {step} ({ev}): '{name}' no longer exists but is still offered at {}", g[0].address)));
            }
        };
        // initial list
        let want = barrier(&state);
        let Some(snap) = wait_for(&adapter, |s| s.iter().any(|t| t.identifier == MARKER) == want, Duration::from_secs(5)).await else {
            v.push(("watch-not-applied".into(), "the initial list / first watch event never became visible".into()));
            return v;
        };
        counters.0.fetch_add(1, Ordering::Relaxed);
        check(&snap, &state.lock().unwrap().objects.clone(), 0, "initial list", &mut v);
        for (i, ev) in spec.history.iter().enumerate() {
            let label = format!("{ev:?}");
            if !matches!(ev, Ev::Apply { .. } | Ev::Delete { .. } | Ev::Bookmark) {
                // an event that is about the open watch needs one: the marker may have become visible through the
                // LIST already, before the watcher got round to opening its watch (large fleets)
                let t0 = Instant::now();
                while state.lock().unwrap().watchers.is_empty() {
                    if t0.elapsed() > Duration::from_secs(8) {
                        v.push(("watch-not-reestablished".into(), format!("before step {} ({label}) no watch was open for 8 s", i + 1)));
                        return v;
                    }
                    tokio::time::sleep(Duration::from_millis(5)).await;
                }
            }
            {
                let mut st = state.lock().unwrap();
                match ev {
                    Ev::Apply { name, shape } => st.apply(name, game_server(name, shape)),
                    Ev::Delete { name } => st.delete(name),
                    Ev::Bookmark => st.bookmark(),
                    Ev::CloseWatch => st.close_watches(),
                    Ev::Gone => st.gone(),
                    Ev::GoneAndDelete { name } => {
                        st.gone();
                        st.delete(name);
                    }
                    Ev::GoneAndApply { name, shape } => {
                        st.gone();
                        st.apply(name, game_server(name, shape));
                    }
                    Ev::GoneRelistInterrupted { delete } => {
                        st.interrupt_continue = Some(delete.clone());
                        st.gone();
                    }
                    Ev::GoneRelistHeld => {
                        st.hold_continue = true;
                        st.gone();
                    }
                    Ev::WatchError => st.watch_error(),
                    Ev::DeleteThenWatchError { name } => {
                        st.delete(name);
                        st.watch_error();
                    }
                    Ev::ApplyThenWatchError { name, shape } => {
                        st.apply(name, game_server(name, shape));
                        st.watch_error();
                    }
                    Ev::WatchErrorSlowLists { .. } => {
                        st.hold_lists = true;
                        st.watch_error();
                    }
                }
            }
            if matches!(ev, Ev::GoneRelistHeld) {
                // wait until the re-list is stuck between two pages, look at the offer, let it go on
                let t0 = Instant::now();
                while !state.lock().unwrap().holding {
                    if t0.elapsed() > Duration::from_secs(8) {
                        v.push(("watch-not-reestablished".into(), format!("after step {} ({label}) no paginated re-list reached its second page within 8 s", i + 1)));
                        return v;
                    }
                    tokio::time::sleep(Duration::from_millis(5)).await;
                }
                // give the adapter the time to take in the first page
                tokio::time::sleep(Duration::from_millis(50)).await;
                let snap = adapter.discover().await.unwrap_or_default();
                counters.0.fetch_add(1, Ordering::Relaxed);
                let truth = state.lock().unwrap().objects.clone();
                let n0 = v.len();
                check(&snap, &truth, i + 1, &format!("{label}, while the re-list is incomplete"), &mut v);
                let release = state.lock().unwrap().release.clone();
                release.notify_one();
                if v.len() > n0 {
                    break;
                }
            }
            if matches!(ev, Ev::CloseWatch | Ev::Gone | Ev::GoneAndDelete { .. } | Ev::GoneAndApply { .. } | Ev::GoneRelistInterrupted { .. } | Ev::GoneRelistHeld | Ev::WatchError | Ev::DeleteThenWatchError { .. } | Ev::ApplyThenWatchError { .. } | Ev::WatchErrorSlowLists { .. }) {
                // wait until the adapter has opened a new watch before the marker is toggled
                let before = state.lock().unwrap().watches;
                let t0 = Instant::now();
                loop {
                    {
                        let mut st = state.lock().unwrap();
                        if st.watches > before && !st.watchers.is_empty() {
                            break;
                        }
                        if st.hold_lists && st.held_lists > 0 && t0.elapsed() > Duration::from_secs(3) {
                            // the watcher itself waits for a LIST before it watches again: do not keep it waiting
                            st.hold_lists = false;
                            st.release_lists.notify_waiters();
                        }
                    }
                    if t0.elapsed() > Duration::from_secs(8) {
                        v.push(("watch-not-reestablished".into(), format!("after step {} ({label}) no new watch was opened within 8 s", i + 1)));
                        return v;
                    }
                    tokio::time::sleep(Duration::from_millis(5)).await;
                }
            }
            if let Ev::WatchErrorSlowLists { name, shape } = ev {
                let mut st = state.lock().unwrap();
                if shape == "deleted" { st.delete(name) } else { st.apply(name, game_server(name, shape)) }
            }
            let want = barrier(&state);
            let Some(snap) = wait_for(&adapter, |s| s.iter().any(|t| t.identifier == MARKER) == want, Duration::from_secs(20)).await else {
                v.push(("watch-not-applied".into(), format!("after step {} ({label}) the marker never became visible", i + 1)));
                return v;
            };
            counters.0.fetch_add(1, Ordering::Relaxed);
            let truth = state.lock().unwrap().objects.clone();
            let n0 = v.len();
            check(&snap, &truth, i + 1, &label, &mut v);
            if v.len() == n0 && matches!(ev, Ev::WatchErrorSlowLists { .. }) {
                // now the slow LIST responses (if anybody asked) arrive, with the content of before the change
                let held = {
                    let mut st = state.lock().unwrap();
                    st.hold_lists = false;
                    st.release_lists.notify_waiters();
                    st.held_lists
                };
                tokio::time::sleep(Duration::from_millis(if held > 0 { 250 } else { 20 })).await;
                let want = barrier(&state);
                let Some(snap) = wait_for(&adapter, |s| s.iter().any(|t| t.identifier == MARKER) == want, Duration::from_secs(20)).await else {
                    v.push(("watch-not-applied".into(), format!("after step {} ({label}) the marker never became visible once the slow LIST responses had arrived", i + 1)));
                    return v;
                };
                counters.0.fetch_add(1, Ordering::Relaxed);
                let truth = state.lock().unwrap().objects.clone();
                check(&snap, &truth, i + 1, &format!("{label}, after {held} slow LIST response(s) arrived"), &mut v);
            }
            if v.len() > n0 {
                // the first discrepancy of a history is reported; later ones would only repeat it
                break;
            }
        }
        counters.1.fetch_add(state.lock().unwrap().lists, Ordering::Relaxed);
        v
    })
}

fn alphabet() -> Vec<Ev> {
    let mut v = vec![];
    for name in ["a", "b"] {
        for shape in ["ready", "allocated", "shutdown", "ready-moved", "ready-no-ports", "ready-bad-address"] {
            v.push(Ev::Apply { name: name.into(), shape: shape.into() });
        }
        v.push(Ev::Delete { name: name.into() });
    }
    v.push(Ev::Apply { name: "a".into(), shape: "ready-lean".into() });
    v.push(Ev::Apply { name: "b".into(), shape: "allocated-terminating".into() });
    v.push(Ev::Bookmark);
    v.push(Ev::CloseWatch);
    v.push(Ev::Gone);
    v.push(Ev::GoneAndDelete { name: "a".into() });
    v.push(Ev::GoneAndApply { name: "a".into(), shape: "shutdown".into() });
    v.push(Ev::GoneAndApply { name: "b".into(), shape: "ready-moved".into() });
    v
}

fn enabled(present: &std::collections::BTreeSet<String>, ev: &Ev) -> bool {
    match ev {
        Ev::Delete { name } | Ev::GoneAndDelete { name } => present.contains(name),
        _ => true,
    }
}

fn histories(initial: &[(String, String)], depth: usize, allow_gone_depth: usize) -> Vec<Vec<Ev>> {
    let alpha = alphabet();
    let mut out = vec![];
    fn rec(alpha: &[Ev], present: std::collections::BTreeSet<String>, cur: &mut Vec<Ev>, depth: usize, gone_ok: usize, out: &mut Vec<Vec<Ev>>) {
        if !cur.is_empty() {
            out.push(cur.clone());
        }
        if cur.len() == depth {
            return;
        }
        for ev in alpha {
            if !enabled(&present, ev) {
                continue;
            }
            let is_gone = |e: &Ev| matches!(e, Ev::Gone | Ev::GoneAndDelete { .. } | Ev::GoneAndApply { .. } | Ev::GoneRelistInterrupted { .. });
            if is_gone(ev) && (cur.iter().any(is_gone) || depth > gone_ok) {
                continue;
            }
            let mut p = present.clone();
            match ev {
                Ev::Apply { name, .. } => {
                    p.insert(name.clone());
                }
                Ev::Delete { name } | Ev::GoneAndDelete { name } => {
                    p.remove(name);
                }
                Ev::GoneAndApply { name, .. } => {
                    p.insert(name.clone());
                }
                _ => {}
            }
            cur.push(ev.clone());
            rec(alpha, p, cur, depth, gone_ok, out);
            cur.pop();
        }
    }
    let present = initial.iter().map(|(n, _)| n.clone()).collect();
    rec(&alpha, present, &mut vec![], depth, allow_gone_depth, &mut out);
    // only maximal histories need to run (every prefix is checked on the way)
    let maximal: Vec<Vec<Ev>> = out.iter().filter(|h| h.len() == depth || !out.iter().any(|o| o.len() > h.len() && o.starts_with(h))).cloned().collect();
    maximal
}

pub fn run(cli: Cli) -> ! {
    let rep = Report::new("C20", cli.tier, "model_checking");
    let counters = (AtomicU64::new(0), AtomicU64::new(0));
    if let Some(case) = cli.replay.clone() {
        let spec: Spec = serde_json::from_value(case["spec"].clone()).unwrap_or_else(|e| common::machinery(&format!("bad replay: {e}")));
        println!("spec: {}", serde_json::to_string_pretty(&spec).unwrap());
        for (k, t) in run_history(&spec, &counters) {
            println!("{k}: {t}");
            rep.violation(Violation { key: k, text: t, replay: case.clone(), weight: 0 });
        }
        rep.set("states", json!(1));
        rep.set("transitions", json!(spec.history.len().max(1)));
        rep.set("traces_validated_against_impl", json!(1));
        rep.finish();
    }
    let thorough = cli.tier.thorough();
    let initials: Vec<Vec<(String, String)>> = vec![vec![], vec![("a".into(), "ready".into())], vec![("a".into(), "ready".into()), ("b".into(), "shutdown".into())]];
    let mut specs: Vec<Spec> = vec![];
    for init in &initials {
        let (depth, gone_depth) = if thorough { (3, 0) } else { (2, 0) };
        for h in histories(init, depth, gone_depth) {
            specs.push(Spec { initial: init.clone(), history: h, paged: false, streaming: false, during_initial: vec![] });
        }
    }
    if thorough {
        // every history of depth <= 2 that contains a 410 (each costs the watcher's error backoff of about a second)
        for init in &initials {
            for h in histories(init, 2, 2) {
                if h.iter().any(|e| matches!(e, Ev::Gone | Ev::GoneAndDelete { .. } | Ev::GoneAndApply { .. })) {
                    specs.push(Spec { initial: init.clone(), history: h, paged: false, streaming: false, during_initial: vec![] });
                }
            }
        }
        // depth 4 from the richest initial state, without 410 (each costs the watcher's error backoff)
        for h in histories(&initials[2], 4, 0) {
            specs.push(Spec { initial: initials[2].clone(), history: h, paged: false, streaming: false, during_initial: vec![] });
        }
    } else {
        // quick: selected depth-3 histories around deletion, re-list and unconvertible updates
        let a = |s: &str| Ev::Apply { name: "a".into(), shape: s.into() };
        let b = |s: &str| Ev::Apply { name: "b".into(), shape: s.into() };
        let del = |n: &str| Ev::Delete { name: n.into() };
        for h in [
            vec![a("ready"), del("a"), a("ready")],
            vec![a("ready"), Ev::CloseWatch, del("a")],
            vec![a("ready"), b("allocated"), Ev::Gone],
            vec![del("a"), Ev::Gone, b("ready")],
            vec![b("ready"), Ev::GoneAndDelete { name: "a".into() }, a("ready")],
            vec![a("allocated"), Ev::GoneAndApply { name: "a".into(), shape: "shutdown".into() }],
            vec![Ev::GoneAndApply { name: "b".into(), shape: "ready-moved".into() }, del("b")],
            vec![a("ready-moved"), a("ready-no-ports"), a("ready")],
            vec![a("allocated"), a("shutdown"), a("ready-moved")],
            vec![b("ready"), Ev::Bookmark, Ev::CloseWatch],
            vec![a("ready"), a("ready-lean"), a("allocated")],
            vec![a("ready"), a("allocated-terminating"), del("a")],
            vec![b("allocated-terminating"), Ev::Gone, a("allocated-terminating")],
            vec![a("ready"), Ev::GoneAndApply { name: "a".into(), shape: "ready-lean".into() }, a("ready")],
            vec![a("ready-moved"), Ev::CloseWatch, a("ready-lean")],
        ] {
            specs.push(Spec { initial: initials[1].clone(), history: h, paged: false, streaming: false, during_initial: vec![] });
        }
    }
    // a watch that fails on the server side, alone and in the same write as the event before it
    {
        let a = |s: &str| Ev::Apply { name: "a".into(), shape: s.into() };
        let two: Vec<(String, String)> = vec![("a".into(), "ready".into()), ("b".into(), "allocated".into())];
        let firsts = vec![
            Ev::WatchError,
            Ev::DeleteThenWatchError { name: "a".into() },
            Ev::ApplyThenWatchError { name: "a".into(), shape: "shutdown".into() },
            Ev::ApplyThenWatchError { name: "a".into(), shape: "ready-moved".into() },
            Ev::ApplyThenWatchError { name: "c".into(), shape: "ready".into() },
            Ev::WatchErrorSlowLists { name: "a".into(), shape: "shutdown".into() },
            Ev::WatchErrorSlowLists { name: "a".into(), shape: "deleted".into() },
            Ev::WatchErrorSlowLists { name: "b".into(), shape: "allocated".into() },
        ];
        for f in &firsts {
            specs.push(Spec { initial: two.clone(), history: vec![f.clone()], paged: false, streaming: false, during_initial: vec![] });
            if thorough {
                for then in [a("ready"), Ev::Delete { name: "b".into() }, Ev::Bookmark, Ev::CloseWatch] {
                    specs.push(Spec { initial: two.clone(), history: vec![f.clone(), then.clone()], paged: false, streaming: false, during_initial: vec![] });
                    specs.push(Spec { initial: two.clone(), history: vec![then, f.clone()], paged: false, streaming: false, during_initial: vec![] });
                }
            }
        }
    }
    // paginated lists: every depth-1/2 history again with pages of two objects, and re-lists that are cut
    // off after their first page while objects of that page disappear
    let five: Vec<(String, String)> = ["a", "b", "c", "d", "e"].iter().map(|n| (n.to_string(), "ready".to_string())).collect();
    for del in [vec!["a"], vec!["a", "b"], vec!["b"], vec!["c"], vec!["a", "e"]] {
        let delete: Vec<String> = del.iter().map(|s| s.to_string()).collect();
        specs.push(Spec { initial: five.clone(), history: vec![Ev::GoneRelistInterrupted { delete: delete.clone() }], paged: true, streaming: false, during_initial: vec![] });
        specs.push(Spec { initial: five.clone(), history: vec![Ev::Apply { name: "c".into(), shape: "shutdown".into() }, Ev::GoneRelistInterrupted { delete: delete.clone() }, Ev::Delete { name: "d".into() }], paged: true, streaming: false, during_initial: vec![] });
    }
    // the initial list arrives as a stream of events (a watcher configured with streaming_lists()), and objects
    // change while it is on its way (ADDED / MODIFIED only: the watcher library itself discards a DELETED it
    // receives before the end-of-initial-events bookmark, "Kubernetes claims these events are impossible")
    for during in [vec![], vec![("a", "allocated")], vec![("b", "ready-no-ports")], vec![("a", "shutdown"), ("c", "ready")], vec![("a", "ready-moved"), ("a", "ready-lean")]] {
        let during_initial: Vec<(String, String)> = during.iter().map(|(n, s)| (n.to_string(), s.to_string())).collect();
        let two: Vec<(String, String)> = vec![("a".into(), "ready".into()), ("b".into(), "allocated".into())];
        for history in [vec![], vec![Ev::Apply { name: "b".into(), shape: "ready-moved".into() }], vec![Ev::Gone, Ev::Delete { name: "a".into() }]] {
            specs.push(Spec { initial: two.clone(), history, paged: false, streaming: true, during_initial: during_initial.clone() });
        }
    }
    // a fleet larger than one page of the watcher's default page size (500): the re-list is observed between its pages
    {
        let fleet: Vec<(String, String)> = (0..640).map(|i| (format!("gs-{i:04}"), if i % 7 == 0 { "allocated".to_string() } else { "ready".to_string() })).collect();
        specs.push(Spec { initial: fleet.clone(), history: vec![Ev::GoneRelistHeld], paged: false, streaming: false, during_initial: vec![] });
        specs.push(Spec { initial: fleet, history: vec![Ev::Delete { name: "gs-0600".into() }, Ev::GoneRelistHeld, Ev::Apply { name: "gs-0001".into(), shape: "shutdown".into() }], paged: false, streaming: false, during_initial: vec![] });
    }
    // a re-list that is observed while it is incomplete
    specs.push(Spec { initial: five.clone(), history: vec![Ev::GoneRelistHeld], paged: true, streaming: false, during_initial: vec![] });
    specs.push(Spec { initial: five.clone(), history: vec![Ev::Apply { name: "c".into(), shape: "shutdown".into() }, Ev::GoneRelistHeld, Ev::Delete { name: "d".into() }], paged: true, streaming: false, during_initial: vec![] });
    specs.push(Spec { initial: five.clone(), history: vec![Ev::Apply { name: "a".into(), shape: "ready-moved".into() }, Ev::GoneRelistHeld, Ev::GoneRelistHeld], paged: true, streaming: false, during_initial: vec![] });
    for init in &initials {
        for h in histories(init, if thorough { 2 } else { 1 }, if thorough { 2 } else { 1 }) {
            specs.push(Spec { initial: init.clone(), history: h, paged: true, streaming: false, during_initial: vec![] });
        }
    }
    let rot = common::seed() as usize % specs.len();
    specs.rotate_left(rot);
    let events = AtomicU64::new(0);
    par_for(specs.len(), |i| {
        let s = &specs[i];
        events.fetch_add(s.history.len() as u64, Ordering::Relaxed);
        for (k, t) in run_history(s, &counters) {
            rep.violation(Violation { key: k, text: format!("{t}; history {}", { let h = serde_json::to_string(s).unwrap(); if h.len() > 700 { format!("{} ... ({} initial servers; in full in the replay file)", h.chars().take(300).collect::<String>(), s.initial.len()) } else { h } }), replay: json!({"spec": s}), weight: s.history.len() as u64 * 100 + s.initial.len() as u64 });
        }
    });
    rep.require("barriers reached", counters.0.load(Ordering::Relaxed), 50);
    rep.set("states", json!(counters.0.load(Ordering::Relaxed)));
    rep.set("transitions", json!(events.load(Ordering::Relaxed)));
    rep.set("traces_validated_against_impl", json!(specs.len()));
    rep.set("evaluations", json!(specs.len()));
    rep.set("distinct_nontrivial", json!(specs.len()));
    rep.set("histories", json!(specs.len()));
    rep.set("list_requests_served", json!(counters.1.load(Ordering::Relaxed)));
    rep.set("exhaustive", json!(true));
    rep.set("rule", json!("all maximal histories up to the depth over 20 events (ADDED/MODIFIED of two game servers in 6 shapes, DELETED, BOOKMARK, watch closed cleanly, 410 Gone followed by a re-list, 410 Gone with an object deleted / changed while the watch is down, 410 Gone whose paginated re-list is cut off after the first page while listed objects disappear, 410 Gone whose paginated re-list is held between two pages while the offer is read), plus a server-side watch failure (ERROR 500) alone and written together with the DELETED / ADDED / MODIFIED before it, pruned to events enabled in the mock's current truth, from 3 initial LIST contents; after every event a marker object is toggled and awaited (barrier) and the snapshot compared with the reference map. quick: depth 2 without 410 plus 10 selected histories with deletions, re-lists and changes during a watch outage; thorough: depth 3 and depth 4 without 410, every depth-2 history with one 410, paginated depth-2 histories."));
    rep.sample(json!({"spec": specs[0]}));
    rep.sample(json!({"spec": Spec { initial: vec![("a".into(), "ready".into())], history: vec![Ev::Delete { name: "a".into() }], paged: false, streaming: false, during_initial: vec![] }, "expect": "'a' is no longer offered"}));
    rep.assume("the Kubernetes API is a hand-written HTTP/1.1 mock (LIST + chunked WATCH); the kube client, watcher and backoff run unmodified; OS timing only enters through 5-8 s deadlines on barriers");
    rep.assume("events are applied in stream order, so the visibility of the toggled marker implies that every earlier event has been applied");
    rep.finish()
}
