//! C03, C04, C05, C06, C07, C10: vsim's sweep over the virtual transport, then - in the same report - whole
//! connections through the assembled router: stage-wise schedules of two clients and of the shutdown signal against
//! the real `Listener` (world.rs), and the application started by `passage::start` from a configuration that
//! `Config::read()` read (app.rs).
use common::{Cli, Report};

pub fn extra(rep: &Report, id: &str, thorough: bool) {
    if id != "C07" {
        crate::world::host(rep, id, thorough);
        crate::app::host(rep, id, thorough);
        return;
    }
    // C07: both parts take 17 s of real time (the first Keep Alive is due 16 s after Login Success); side by side
    std::thread::scope(|s| {
        s.spawn(|| crate::app::host(rep, id, thorough));
        s.spawn(|| {
            let n = 2 * std::thread::available_parallelism().map(|n| n.get()).unwrap_or(16) + 8;
            let (players, viols) = crate::world::crowd_kept_alive(n);
            for (k, t, replay) in viols {
                rep.violation(common::Violation { key: k, text: t, replay, weight: 6_500_000 });
            }
            rep.set("world_players_inside_slow_routing_at_once", serde_json::json!(players));
        });
    });
}

pub fn run(cli: Cli) -> ! {
    let id = cli.id.clone();
    let thorough = cli.tier.thorough();
    if let Some(case) = &cli.replay {
        if case.get("world").is_some() || case.get("app").is_some() {
            // the situations are cheap: the whole part is re-run, which re-evaluates the recorded one
            let level = if id == "C04" { "fault_enumeration" } else { "model_checking" };
            let sid: &'static str = Box::leak(id.clone().into_boxed_str());
            let rep = Report::new(sid, cli.tier, level);
            extra(&rep, &id, thorough);
            rep.set("states", serde_json::json!(1));
            rep.set("transitions", serde_json::json!(1));
            rep.set("traces_validated_against_impl", serde_json::json!(1));
            rep.set("evaluations", serde_json::json!(1));
            rep.set("distinct_nontrivial", serde_json::json!(1));
            rep.set("rule", serde_json::json!("replay"));
            rep.finish();
        }
    }
    let f = move |rep: &Report| extra(rep, &id, thorough);
    match cli.id.as_str() {
        "C03" => vsim::c03::run_with(cli, &f),
        "C04" => vsim::c04::run_with(cli, &f),
        "C05" => vsim::c05::run_with(cli, &f),
        "C06" => vsim::c06::run_with(cli, &f),
        "C07" => vsim::c07::run_with(cli, &f),
        _ => vsim::c10::run_with(cli, &f),
    }
}
