//! C08: connection behaviour is independent of segmentation and completion timing.
//!
//! Two parts, one report: (1) vsim's sweep - the real `Connection` over the virtual transport, every
//! segmentation / pause / partial acceptance / coalescing deviation against the unsegmented baseline; (2) the
//! segmentations that only exist in front of a real `Listener`: with the PROXY protocol enabled the header and
//! the client's first packets may arrive in one TCP segment, in pieces that end inside the header or inside the
//! first frame, or byte by byte - what the client is served must not depend on it.
use crate::net::*;
use common::refs::codec::{self, Phase, Pkt};
use common::{Cli, Report, Violation, par_for};
use serde_json::json;
use std::net::SocketAddr;
use std::sync::atomic::{AtomicU64, Ordering};
use std::time::Duration;

const BASELINE: [&str; 4] = ["LoginCookieRequest", "EncryptionRequest", "LoginSuccess", "Transfer"];

/// where the first burst of the client is cut: the pieces are written 30 ms apart
fn cuts(hdr: usize, first_frame: usize, total: usize) -> Vec<(String, Vec<usize>)> {
    let mut v: Vec<(String, Vec<usize>)> = vec![];
    if hdr > 0 {
        v.push(("header | first frame | rest".into(), vec![hdr, hdr + first_frame]));
    } else {
        v.push(("first frame | rest".into(), vec![first_frame]));
    }
    v.push(("one segment".into(), vec![]));
    for k in [1usize, 2, first_frame / 2, first_frame - 1, first_frame, first_frame + 1] {
        if hdr + k < total {
            v.push((format!("header + {k} bytes | rest"), vec![hdr + k]));
        }
    }
    for j in [1usize, hdr / 2, hdr.saturating_sub(1)] {
        if j > 0 && j < hdr {
            v.push((format!("{j} bytes of the header | rest"), vec![j]));
        }
    }
    v.push(("byte by byte".into(), (1..total).collect()));
    v
}

async fn send_cut(c: &mut McClient, bytes: &[u8], at: &[usize]) -> std::io::Result<()> {
    let mut from = 0;
    for &a in at.iter().chain(std::iter::once(&bytes.len())) {
        if a > from {
            c.send_raw(&bytes[from..a]).await?;
            from = a;
            if from < bytes.len() {
                tokio::time::sleep(Duration::from_millis(if at.len() > 8 { 1 } else { 30 })).await;
            }
        }
    }
    Ok(())
}

/// one (proxy mode, exchange) pair: every segmentation of the client's first burst on a fresh connection
fn run_config(proxy: &str, exchange: &str) -> (u64, Vec<(String, String, serde_json::Value)>) {
    run_local(async {
        let mut v = vec![];
        let mut n = 0;
        let cfg = ListenerCfg { proxy: (proxy != "off").then_some((true, true)), timeout: Duration::from_secs(20), ..Default::default() };
        let running = start_listener(&cfg, NetAdapters::new()).await;
        let src: SocketAddr = "203.0.113.80:8080".parse().unwrap();
        let hdr = match proxy {
            "v1" => proxy_v1(src, running.addr),
            "v2" => proxy_v2(src, running.addr),
            _ => vec![],
        };
        let p = LoginParams { wait: Duration::from_secs(2), ..Default::default() };
        let (first, rest): (Vec<u8>, Vec<u8>) = if exchange == "status" {
            (codec::sb_handshake(769, "status.example", 25565, 1), [codec::sb_status_request(), codec::sb_ping(0xfeed)].concat())
        } else {
            (codec::sb_handshake(769, &p.host, p.port, 2), codec::sb_login_start(&p.name, p.uuid))
        };
        let burst: Vec<u8> = [hdr.clone(), first.clone(), rest].concat();
        let mut reference: Option<String> = None;
        for (label, at) in cuts(hdr.len(), first.len(), burst.len()) {
            n += 1;
            let replay = json!({"listener": {"proxy": proxy, "exchange": exchange, "segmentation": label}});
            let Ok(mut c) = McClient::connect(running.addr, Some("127.0.0.2".parse().unwrap())).await else {
                v.push(("listener:connect-failed".into(), label.clone(), replay));
                continue;
            };
            if send_cut(&mut c, &burst, &at).await.is_err() {
                v.push((format!("listener-segmentation:{exchange}:proxy-{proxy}"), format!("'{label}': the server closed the connection while the client was still sending its first packets"), replay));
                continue;
            }
            let seen: String = if exchange == "status" {
                c.phase = Phase::Status;
                let a = c.read_packet(Duration::from_secs(2)).await;
                let b = c.read_packet(Duration::from_secs(2)).await;
                match (a, b) {
                    (Ok(Pkt::StatusResponse { body }), Ok(Pkt::Pong { payload })) => format!("status {body} pong {payload:#x}"),
                    other => format!("{other:?}"),
                }
            } else {
                c.phase = Phase::Login;
                let mut out = LoginOutcome { packets: vec![], stage: Stage::Connected, error: None };
                // the session cookie request is the answer to the burst; from there on the login is lock-step
                match c.read_packet(Duration::from_secs(2)).await {
                    Ok(pk) => {
                        out.packets.push(pk);
                        out.stage = Stage::LoginStartSent;
                        c.login(&p, Stage::LoginStartSent, Stage::Transferred, &mut out).await;
                    }
                    Err(e) => out.error = Some(e),
                }
                let kinds: Vec<&str> = out.packets.iter().filter(|p| !matches!(p, Pkt::KeepAlive { .. } | Pkt::StoreCookie { .. })).map(|p| p.kind()).collect();
                format!("{kinds:?} stage {:?} error {:?}", out.stage, out.error)
            };
            let good = if exchange == "status" { seen.starts_with("status ") && seen.ends_with("0xfeed") } else { seen.starts_with(&format!("{BASELINE:?} stage Transferred")) };
            match &reference {
                None => {
                    if !good {
                        // the baseline segmentation itself did not work: not a verdict about segmentation
                        common::machinery(&format!("C08 listener part: the baseline segmentation of the {exchange} exchange (proxy {proxy}) was not served: {seen}"));
                    }
                    reference = Some(seen);
                }
                Some(r) if *r == seen => {}
                Some(r) => v.push((
                    format!("listener-segmentation:{exchange}:proxy-{proxy}"),
                    format!("the client's first burst (PROXY header {} bytes, first frame {} bytes, {} bytes in all) sent as '{label}': {seen}; sent in separate segments: {r}", hdr.len(), first.len(), burst.len()),
                    replay,
                )),
            }
        }
        running.stop.cancel();
        let _ = tokio::time::timeout(Duration::from_secs(2), running.done).await;
        (n, v)
    })
}

pub fn run(cli: Cli) -> ! {
    if let Some(case) = &cli.replay {
        if case.get("listener").is_none() {
            // a schedule of the virtual transport
            vsim::c08::run(cli);
        }
    }
    let rep = Report::new("C08", cli.tier, "model_checking");
    if cli.replay.is_none() {
        vsim::c08::core(&rep, cli.tier.thorough());
    } else {
        rep.set("states", json!(1));
        rep.set("transitions", json!(1));
        rep.set("traces_validated_against_impl", json!(1));
    }
    let configs: Vec<(&str, &str)> = vec![("off", "status"), ("v1", "status"), ("v2", "status"), ("off", "login"), ("v1", "login"), ("v2", "login")];
    let conns = AtomicU64::new(0);
    par_for(configs.len(), |i| {
        let (proxy, exchange) = configs[i];
        let (n, viols) = run_config(proxy, exchange);
        conns.fetch_add(n, Ordering::Relaxed);
        for (k, t, replay) in viols {
            rep.violation(Violation { key: k, text: t, replay, weight: 10 });
        }
    });
    rep.require("connections with a segmented first burst through the real Listener", conns.load(Ordering::Relaxed), 50);
    rep.set("listener_level_segmentations", json!(conns.load(Ordering::Relaxed)));
    rep.assume("listener part: real TCP on loopback with TCP_NODELAY, pieces written 30 ms (byte by byte: 1 ms) apart; whether two writes end up in one segment is the kernel's business, which is why 'one segment' is a single write");
    // the assembled router: stage-wise schedules of two clients and of the shutdown signal against the real Listener,
    // and the application started by passage::start from a configuration read by Config::read()
    crate::world::host(&rep, "C08", cli.tier.thorough());
    crate::app::host(&rep, "C08", cli.tier.thorough());
    rep.finish()
}
