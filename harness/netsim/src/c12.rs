pub fn run(_cli: common::Cli) -> ! {
    common::machinery("not built yet")
}
