//! C12: client-chosen names cannot alter the session server request.
//!
//! The real `MojangAdapter` (with the `verif-hooks` origin override) sends its has-joined request
//! to a plain-HTTP mock on loopback that records the raw request line.
use crate::net::*;
use common::refs::codec::Pkt;
use common::refs::sha::{hmac_sha256, minecraft_hex, sha1};
use passage_adapters::FixedLocalizationAdapter;
use passage_protocol::listener::Listener;
use common::{Cli, Report, Violation};
use passage_adapters::authentication::AuthenticationAdapter;
use passage_adapters_http::MojangAdapter;
use serde_json::json;
use std::sync::atomic::{AtomicU64, Ordering};
use std::sync::{Arc, Mutex};
use tokio::io::{AsyncReadExt, AsyncWriteExt};
use uuid::Uuid;

/// milliseconds the mock session server waits before it answers (set by the histories below)
pub static MOCK_DELAY_MS: AtomicU64 = AtomicU64::new(0);

/// what the mock session server answers to the next requests (front first): an HTTP status, or 0 for
/// "close the connection without answering"; when empty it answers 200 with a profile
pub static MOCK_PLAN: Mutex<Vec<u16>> = Mutex::new(Vec::new());
/// the body of the mock's 200 answers (None: a complete profile)
pub static MOCK_BODY: Mutex<Option<Vec<u8>>> = Mutex::new(None);

pub async fn mock_server(log: Arc<Mutex<Vec<String>>>) -> std::net::SocketAddr {
    let listener = tokio::net::TcpListener::bind("127.0.0.1:0").await.expect("bind");
    let addr = listener.local_addr().unwrap();
    tokio::spawn(async move {
        loop {
            let Ok((mut sock, _)) = listener.accept().await else { break };
            let _ = sock.set_nodelay(true);
            let log = log.clone();
            tokio::spawn(async move {
                let mut buf: Vec<u8> = vec![];
                loop {
                    // read one request head
                    let head_end = loop {
                        if let Some(p) = buf.windows(4).position(|w| w == b"\r\n\r\n") {
                            break Some(p + 4);
                        }
                        let mut tmp = [0u8; 4096];
                        match sock.read(&mut tmp).await {
                            Ok(0) | Err(_) => break None,
                            Ok(n) => buf.extend_from_slice(&tmp[..n]),
                        }
                    };
                    let Some(end) = head_end else { return };
                    let head = String::from_utf8_lossy(&buf[..end]).to_string();
                    buf.drain(..end);
                    let line = head.lines().next().unwrap_or("").to_string();
                    log.lock().unwrap().push(line);
                    let d = MOCK_DELAY_MS.load(Ordering::Relaxed);
                    if d > 0 {
                        tokio::time::sleep(std::time::Duration::from_millis(d)).await;
                    }
                    let planned = {
                        let mut p = MOCK_PLAN.lock().unwrap();
                        if p.is_empty() { None } else { Some(p.remove(0)) }
                    };
                    match planned {
                        Some(0) => return,
                        Some(code) if code != 200 => {
                            let resp = format!("HTTP/1.1 {code} Planned\r\ncontent-length: 0\r\n\r\n");
                            if sock.write_all(resp.as_bytes()).await.is_err() {
                                return;
                            }
                            continue;
                        }
                        _ => {}
                    }
                    let body: Vec<u8> = MOCK_BODY.lock().unwrap().clone().unwrap_or_else(|| br#"{"id":"069a79f444e94726a5befca90e38aaf5","name":"FromSessionServer","properties":[]}"#.to_vec());
                    let resp = format!("HTTP/1.1 200 OK\r\ncontent-type: application/json\r\ncontent-length: {}\r\n\r\n", body.len());
                    if sock.write_all(resp.as_bytes()).await.is_err() || sock.write_all(&body).await.is_err() {
                        return;
                    }
                }
            });
        }
    });
    addr
}

fn pct_decode(s: &str, plus_is_space: bool) -> Option<Vec<u8>> {
    let b = s.as_bytes();
    let mut out = vec![];
    let mut i = 0;
    while i < b.len() {
        match b[i] {
            b'%' => {
                let h = std::str::from_utf8(b.get(i + 1..i + 3)?).ok()?;
                out.push(u8::from_str_radix(h, 16).ok()?);
                i += 3;
            }
            b'+' if plus_is_space => {
                out.push(b' ');
                i += 1;
            }
            c => {
                out.push(c);
                i += 1;
            }
        }
    }
    Some(out)
}

/// Independent reading of the request line; returns the first discrepancy.
pub fn judge_request(line: &str, name: &str, hash: &str) -> Option<(String, String)> {
    let mut parts = line.split(' ');
    let (method, target, version) = (parts.next().unwrap_or(""), parts.next().unwrap_or(""), parts.next().unwrap_or(""));
    if method != "GET" || !version.starts_with("HTTP/1.") || parts.next().is_some() {
        return Some(("request-line-shape".into(), format!("request line {line:?}")));
    }
    if target.contains('#') {
        return Some(("fragment-in-request".into(), format!("request target {target:?} contains a raw '#'")));
    }
    let (path, query) = target.split_once('?').unwrap_or((target, ""));
    if path != "/session/minecraft/hasJoined" {
        return Some(("request-path-altered".into(), format!("request path {path:?}")));
    }
    let mut usernames: Vec<&str> = vec![];
    let mut server_ids: Vec<&str> = vec![];
    let mut others: Vec<&str> = vec![];
    for pair in query.split('&') {
        let (k, v) = pair.split_once('=').unwrap_or((pair, ""));
        match pct_decode(k, true).as_deref() {
            Some(b"username") => usernames.push(v),
            Some(b"serverId") => server_ids.push(v),
            _ => others.push(pair),
        }
    }
    if !others.is_empty() {
        return Some(("extra-parameter".into(), format!("unexpected parameter(s) {others:?} in {query:?}")));
    }
    if usernames.len() != 1 {
        return Some(("username-parameter-count".into(), format!("{} username parameters in {query:?}", usernames.len())));
    }
    if server_ids.len() != 1 {
        return Some(("server-id-parameter-count".into(), format!("{} serverId parameters in {query:?}", server_ids.len())));
    }
    let u = usernames[0];
    let ok = pct_decode(u, false).as_deref() == Some(name.as_bytes()) || pct_decode(u, true).as_deref() == Some(name.as_bytes());
    if !ok {
        return Some(("username-altered".into(), format!("username parameter {u:?} does not decode to the claimed name {name:?}")));
    }
    if pct_decode(server_ids[0], false).as_deref() != Some(hash.as_bytes()) {
        return Some(("server-id-altered".into(), format!("serverId parameter {:?}, the connection's hash is {hash}", server_ids[0])));
    }
    None
}

fn class_of(name: &str) -> &'static str {
    if name.contains('&') || name.contains('=') {
        "parameter-separator"
    } else if name.contains('#') {
        "fragment"
    } else if name.contains('?') || name.contains('/') || name.contains('\\') || name.contains("..") {
        "path-or-query-delimiter"
    } else if name.contains('%') || name.contains('+') {
        "percent-or-plus"
    } else if name.chars().any(|c| c.is_control() || c == ' ') {
        "space-or-control"
    } else if !name.is_ascii() {
        "non-ascii"
    } else {
        "plain"
    }
}

fn e2e_cookie(age: i64, secret: &[u8], client_ip: &str, name: &str) -> Vec<u8> {
    let now = std::time::SystemTime::now().duration_since(std::time::UNIX_EPOCH).unwrap().as_secs() as i64;
    let body = serde_json::to_vec(&json!({
        "timestamp": (now - age).max(0), "client_addr": format!("{client_ip}:1"), "user_name": name,
        "user_id": "09879557-e479-45a9-b434-a56377674627", "target": "t", "profile_properties": [], "extra": {},
    }))
    .unwrap();
    let mut out = hmac_sha256(secret, &body).to_vec();
    out.extend_from_slice(&body);
    out
}

/// The request made *for a connection*: the real Listener and Connection with the real MojangAdapter
/// as authentication service; a client logs in over TCP and the mock records what was asked.
pub fn end_to_end(rep: &Report, requests: &AtomicU64) {
    run_local(async {
        let log = Arc::new(Mutex::new(vec![]));
        let mock = mock_server(log.clone()).await;
        unsafe { std::env::set_var("PASSAGE_VERIF_SESSION_URL", format!("http://{mock}")) };
        let a = Arc::new(NetAdapters::new());
        let port = free_port();
        let addr: std::net::SocketAddr = format!("127.0.0.1:{port}").parse().unwrap();
        let stop = tokio_util::sync::CancellationToken::new();
        let mut listener = Listener::new(a.clone(), a.clone(), a.clone(), a.clone(), Arc::new(MojangAdapter::default()), Arc::new(FixedLocalizationAdapter::default()))
            .with_auth_secret(Some(b"c12-cookie-secret".to_vec()));
        let stop2 = stop.clone();
        let done = tokio::task::spawn_local(async move { listener.listen(addr, stop2).await.map_err(|e| e.to_string()) });
        for _ in 0..400 {
            if tokio::net::TcpStream::connect(addr).await.is_ok() {
                break;
            }
            tokio::time::sleep(std::time::Duration::from_millis(5)).await;
        }
        // (intent, claimed name, cookie, a request is expected)
        let cases: Vec<(&str, i32, &str, Option<Vec<u8>>, bool)> = vec![
            ("login", 2, "Claimed_A", None, true),
            ("login-special-name", 2, "a&serverId=0 b#c", None, true),
            ("login-unicode-name", 2, "Zoë😀", None, true),
            ("transfer-no-cookie", 3, "Claimed_A", None, true),
            ("transfer-expired-cookie-of-another-name", 3, "Claimed_A", Some(e2e_cookie(30_000, b"c12-cookie-secret", "127.0.0.1", "Cookie_B")), true),
            ("transfer-cookie-for-another-ip", 3, "Claimed_A", Some(e2e_cookie(5, b"c12-cookie-secret", "10.9.9.9", "Cookie_B")), true),
            ("transfer-cookie-under-another-secret", 3, "Claimed_A", Some(e2e_cookie(5, b"some-other-secret", "127.0.0.1", "Cookie_B")), true),
            ("transfer-valid-cookie", 3, "Claimed_A", Some(e2e_cookie(5, b"c12-cookie-secret", "127.0.0.1", "Cookie_B")), false),
        ];
        // claimed names a router might be tempted to tidy up (control characters, blanks at the ends, letter case,
        // composed and decomposed accents, full-width letters, percent signs): the request asks about the name as
        // claimed - or the router turns such a client away without asking anybody; it never asks about another name
        let mut cases: Vec<(String, i32, String, Option<Vec<u8>>, bool, bool)> = cases.into_iter().map(|(l, i, n, c, e)| (l.to_string(), i, n.to_string(), c, e, false)).collect();
        for (k, n) in ["Hydro\nfin", "a\tb", "a\u{0}b", "a\u{7f}b", "a\u{85}b", "a\rb", " lead", "trail ", "MiXeD_Case", "\u{ff21}\u{ff22}", "e\u{301}", "\u{e9}", "%41%0a", "a+b c", "\u{202e}abc", "\u{feff}bom"].iter().enumerate() {
            cases.push((format!("login-untidy-name-{k}"), 2, n.to_string(), None, true, true));
            if k % 4 == 0 {
                cases.push((format!("transfer-untidy-name-{k}-stale-cookie"), 3, n.to_string(), Some(e2e_cookie(30_000, b"c12-cookie-secret", "127.0.0.1", "Cookie_B")), true, true));
            }
        }
        for (label, intent, name, cookie, expect_request, may_refuse) in cases {
            let (label, name) = (label.as_str(), name.as_str());
            log.lock().unwrap().clear();
            let Ok(mut c) = McClient::connect(addr, None).await else {
                rep.violation(Violation { key: "e2e-connect-failed".into(), text: label.into(), replay: json!({"e2e": label}), weight: 0 });
                continue;
            };
            let p = LoginParams { intent, name: name.into(), auth_cookie: cookie, wait: std::time::Duration::from_secs(3), ..Default::default() };
            let mut out = LoginOutcome { packets: vec![], stage: Stage::Connected, error: None };
            c.login(&p, Stage::Connected, Stage::LoginSuccessReceived, &mut out).await;
            let key = out.packets.iter().find_map(|p| if let Pkt::EncryptionRequest { public_key, .. } = p { Some(public_key.clone()) } else { None }).unwrap_or_default();
            let mut all = SECRET16.to_vec();
            all.extend_from_slice(&key);
            let hash = minecraft_hex(&sha1(&all));
            let seen: Vec<String> = log.lock().unwrap().clone();
            let replay = json!({"e2e": label, "name": name});
            match (expect_request, seen.as_slice()) {
                (false, []) => {}
                (true, []) if may_refuse && out.stage != Stage::LoginSuccessReceived => {}
                (false, many) => rep.violation(Violation { key: format!("e2e-request-although-cookie-vouches:{label}"), text: format!("{many:?}"), replay, weight: 1 }),
                (true, [line]) => {
                    requests.fetch_add(1, Ordering::Relaxed);
                    if let Some((k, t)) = judge_request(line, name, &hash) {
                        rep.violation(Violation { key: format!("e2e-{k}:{label}"), text: format!("connection claiming {name:?} ({label}): {t}; request line {line:?}"), replay, weight: 1 });
                    }
                    if out.stage != Stage::LoginSuccessReceived {
                        rep.violation(Violation { key: format!("e2e-login-failed:{label}"), text: format!("{:?} {:?}", out.stage, out.error), replay: json!({"e2e": label}), weight: 1 });
                    }
                }
                (true, other) => rep.violation(Violation { key: format!("e2e-request-count:{label}"), text: format!("{} has-joined requests for one connection: {other:?} (login {:?} {:?})", other.len(), out.stage, out.error), replay, weight: 1 }),
            }
        }
        // Histories of several connections: the same claimed name with different shared secrets, one after
        // the other and overlapping while the session server is slow. Every connection must cause exactly
        // one request, asking about its claimed name with ITS OWN hash.
        let hash_of = |secret: &[u8; 16], key: &[u8]| {
            let mut all = secret.to_vec();
            all.extend_from_slice(key);
            minecraft_hex(&sha1(&all))
        };
        let histories: Vec<(&str, u64, u64, Vec<(&str, [u8; 16])>)> = vec![
            // (label, mock delay ms, start offset between connections ms, [(claimed name, secret)])
            ("same-name-sequential", 0, 0, vec![("Repeated", *b"secret-number-01"), ("Repeated", *b"secret-number-02"), ("Repeated", *b"secret-number-01")]),
            ("same-name-overlapping", 600, 120, vec![("Twin", *b"secret-number-03"), ("Twin", *b"secret-number-04")]),
            ("three-overlapping", 600, 60, vec![("Twin", *b"secret-number-05"), ("Other", *b"secret-number-05"), ("Twin", *b"secret-number-06")]),
        ];
        for (label, delay, offset, conns) in histories {
            log.lock().unwrap().clear();
            MOCK_DELAY_MS.store(delay, Ordering::Relaxed);
            let overlapping = delay > 0;
            let mut tasks = vec![];
            for (i, (name, secret)) in conns.iter().enumerate() {
                let (name, secret) = (name.to_string(), *secret);
                let fut = async move {
                    let Ok(mut c) = McClient::connect(addr, None).await else { return (name, secret, vec![], None) };
                    let p = LoginParams { intent: 2, name: name.clone(), wait: std::time::Duration::from_secs(4), secret, ..Default::default() };
                    let mut out = LoginOutcome { packets: vec![], stage: Stage::Connected, error: None };
                    c.login(&p, Stage::Connected, Stage::LoginSuccessReceived, &mut out).await;
                    let key = out.packets.iter().find_map(|p| if let Pkt::EncryptionRequest { public_key, .. } = p { Some(public_key.clone()) } else { None }).unwrap_or_default();
                    let granted = out.packets.iter().find_map(|p| if let Pkt::LoginSuccess { name, .. } = p { Some(name.clone()) } else { None });
                    (name, secret, key, granted)
                };
                if overlapping {
                    tasks.push(tokio::task::spawn_local(async move {
                        tokio::time::sleep(std::time::Duration::from_millis(offset * i as u64)).await;
                        fut.await
                    }));
                } else {
                    let r = fut.await;
                    tasks.push(tokio::task::spawn_local(async move { r }));
                }
            }
            let mut results = vec![];
            for t in tasks {
                if let Ok(r) = t.await {
                    results.push(r);
                }
            }
            MOCK_DELAY_MS.store(0, Ordering::Relaxed);
            let mut seen: Vec<String> = log.lock().unwrap().clone();
            let replay = json!({"e2e": label});
            for (name, secret, key, granted) in &results {
                let hash = hash_of(secret, key);
                // one recorded request must be this connection's
                match seen.iter().position(|line| judge_request(line, name, &hash).is_none()) {
                    Some(i) => {
                        seen.remove(i);
                        requests.fetch_add(1, Ordering::Relaxed);
                    }
                    None => rep.violation(Violation {
                        key: format!("e2e-no-request-with-this-connections-hash:{label}"),
                        text: format!("history {label}: the connection claiming {name:?} with secret {} caused no has-joined request for that name with its own hash {hash} (granted: {granted:?}); unmatched requests: {seen:?}", common::hex(secret)),
                        replay: replay.clone(),
                        weight: 2,
                    }),
                }
                if granted.is_none() {
                    rep.violation(Violation { key: format!("e2e-login-failed:{label}"), text: format!("history {label}: the connection claiming {name:?} was not admitted"), replay: replay.clone(), weight: 2 });
                }
            }
            if !seen.is_empty() {
                rep.violation(Violation { key: format!("e2e-request-count:{label}"), text: format!("history {label}: requests that belong to no connection: {seen:?}"), replay, weight: 2 });
            }
        }
        stop.cancel();
        let _ = tokio::time::timeout(std::time::Duration::from_secs(2), done).await;
    });
}

pub fn run(cli: Cli) -> ! {
    let rep = Report::new("C12", cli.tier, "exploration");
    let thorough = cli.tier.thorough();
    // no proxy may sit between the adapter and the loopback mock
    for v in ["http_proxy", "HTTP_PROXY", "https_proxy", "HTTPS_PROXY", "all_proxy", "ALL_PROXY"] {
        unsafe { std::env::remove_var(v) };
    }
    let symbols: Vec<&str> = vec!["a", "&", "=", "#", "?", "%", "+", " ", "/", "\\", ".", ":", "@", ";", "\"", "<", "\r", "\n", "\t", "\0", "é", "😀", "%26", "../"];
    let mut names: Vec<String> = vec![];
    if let Some(case) = &cli.replay {
        names.push(case["name"].as_str().unwrap_or("").to_string());
    } else {
        for s in &symbols {
            names.push(s.to_string());
            names.push(format!("a{s}b"));
        }
        for p in ["Victim&serverId=0", "a#", "a?x=1", "a%26serverId%3D0", "../../x", "Notch", "", "a&username=b", "x&serverId", "%", "%zz", "a+b", "name with spaces", "&", "=&="] {
            names.push(p.to_string());
        }
        for a in &symbols {
            for b in &symbols {
                names.push(format!("{a}{b}"));
                names.push(format!("p{a}{b}q"));
            }
        }
        // every byte below 0x20 and DEL on its own and between letters
        for c in (0u8..0x20).chain([0x7f]) {
            names.push((c as char).to_string());
            names.push(format!("A{}41", c as char));
        }
        if thorough {
            let reduced = ["a", "&", "=", "#", "?", "%", "+", " ", "/", "\n", "\u{4}", "é"];
            for a in reduced {
                for b in reduced {
                    for c in reduced {
                        names.push(format!("{a}{b}{c}"));
                    }
                }
            }
        }
        names.sort();
        names.dedup();
    }
    let server_ids = ["", "srv"];
    let pubkey: Vec<u8> = (0..162u32).map(|i| (i * 5 + 1) as u8).collect();
    // Shared secrets chosen (with the independent reference) so that the digests cover every combination
    // of sign x last byte {00, 01, 80, ff, other} x leading zero nibbles {0, 1, 2+} that a counter search
    // of 400 000 secrets reaches - the shapes where a hand-made signed-hex conversion goes wrong.
    let edge_secrets = |sid: &str| -> Vec<[u8; 16]> {
        let mut seen = std::collections::BTreeMap::new();
        for i in 0u128..400_000 {
            let secret = (i.wrapping_mul(0x9E37_79B9_7F4A_7C15_F39C_C060_5CED_C835) ^ 0x5a5a).to_be_bytes();
            let mut all = sid.as_bytes().to_vec();
            all.extend_from_slice(&secret);
            all.extend_from_slice(&pubkey);
            let d = sha1(&all);
            let neg = d[0] & 0x80 != 0;
            // magnitude shape: of the digest if positive, of its two's complement if negative
            let h = minecraft_hex(&d);
            let lead = (40 - h.trim_start_matches('-').len()).min(2);
            let last = match d[19] { 0 => 0, 1 => 1, 0x80 => 2, 0xff => 3, _ => 4 };
            seen.entry((neg, last, lead)).or_insert(secret);
            if seen.len() == 30 {
                break;
            }
        }
        seen.into_values().collect()
    };
    let secrets_by_sid: Vec<Vec<[u8; 16]>> = server_ids.iter().map(|sid| edge_secrets(sid)).collect();
    rep.set("digest_shape_classes_covered_by_the_secrets", json!(secrets_by_sid.iter().map(|v| v.len()).collect::<Vec<_>>()));
    let requests = AtomicU64::new(0);
    let errors = AtomicU64::new(0);

    let rt = tokio::runtime::Builder::new_current_thread().enable_all().build().expect("rt");
    rt.block_on(async {
        let log = Arc::new(Mutex::new(vec![]));
        let addr = mock_server(log.clone()).await;
        unsafe { std::env::set_var("PASSAGE_VERIF_SESSION_URL", format!("http://{addr}")) };
        let client: std::net::SocketAddr = "198.51.100.7:40123".parse().unwrap();
        for (ni, name) in names.iter().enumerate() {
            for (si, sid) in server_ids.into_iter().enumerate() {
                let secret = &secrets_by_sid[si][ni % secrets_by_sid[si].len()];
                // the adapter as the application builds it from its configuration
                let adapter = passage::adapter::authentication::DynAuthenticationAdapter::from_config(passage::config::AuthenticationAdapter::Mojang(passage::config::MojangAuthentication { server_id: sid.to_string() }))
                    .await
                    .unwrap_or_else(|e| common::machinery(&format!("from_config(authentication): {e}")));
                let mut all = sid.as_bytes().to_vec();
                all.extend_from_slice(secret);
                all.extend_from_slice(&pubkey);
                let hash = minecraft_hex(&sha1(&all));
                log.lock().unwrap().clear();
                let uuid = Uuid::from_u128(7);
                let r = tokio::time::timeout(std::time::Duration::from_secs(5), adapter.authenticate(&client, ("h", 1), 769, (name, &uuid), secret, &pubkey)).await;
                let seen: Vec<String> = log.lock().unwrap().clone();
                let replay = json!({"name": name, "server_id": sid, "secret_hex": common::hex(secret)});
                let class = class_of(name);
                match (r, seen.as_slice()) {
                    (Err(_), _) => rep.violation(Violation { key: "request-hangs".into(), text: format!("name {name:?}: no answer within 5 s"), replay, weight: name.len() as u64 }),
                    (Ok(Err(_)), []) => {
                        // the name could not be sent at all: an error, and no request went out
                        errors.fetch_add(1, Ordering::Relaxed);
                    }
                    (Ok(res), [line]) => {
                        requests.fetch_add(1, Ordering::Relaxed);
                        if let Some((k, t)) = judge_request(line, name, &hash) {
                            rep.violation(Violation { key: format!("{k}:{class}"), text: format!("claimed name {name:?}, server id {sid:?}: {t}; request line {line:?}"), replay, weight: name.len() as u64 });
                        } else if res.is_err() {
                            rep.violation(Violation { key: "valid-reply-rejected".into(), text: format!("name {name:?}: the mock's 200 profile was rejected: {res:?}"), replay, weight: name.len() as u64 });
                        }
                    }
                    (Ok(_), many) => rep.violation(Violation { key: format!("request-count:{class}"), text: format!("name {name:?}: {} requests were sent: {many:?}", many.len()), replay, weight: name.len() as u64 }),
                }
            }
        }
        // Accumulation on one adapter instance: 1 300 different players log in, then the ones around every
        // power of two up to 1 024 and the last hundred come back (twice), then twenty with hostile names. Every request
        // asks about the name of the player of *this* login.
        {
            let adapter = passage::adapter::authentication::DynAuthenticationAdapter::from_config(passage::config::AuthenticationAdapter::Mojang(passage::config::MojangAuthentication { server_id: "many".to_string() }))
                .await
                .unwrap_or_else(|e| common::machinery(&format!("from_config(authentication): {e}")));
            let secret = [7u8; 16];
            let mut all = b"many".to_vec();
            all.extend_from_slice(&secret);
            all.extend_from_slice(&pubkey);
            let hash = minecraft_hex(&sha1(&all));
            let mut order: Vec<String> = (0..1_300).map(|i| format!("Player_{i}")).collect();
            for round in 0..2 {
                let _ = round;
                for i in [0usize, 1, 2, 255, 256, 511, 512, 1_021, 1_022, 1_023, 1_024, 1_025, 1_026].into_iter().chain(1_200..1_300) {
                    order.push(format!("Player_{i}"));
                }
            }
            for i in 0..20 {
                order.push(format!("P&{i}=#?/%"));
            }
            for (n, name) in order.iter().enumerate() {
                log.lock().unwrap().clear();
                let uuid = Uuid::from_u128(n as u128);
                let _ = tokio::time::timeout(std::time::Duration::from_secs(5), adapter.authenticate(&client, ("h", 1), 769, (name, &uuid), &secret, &pubkey)).await;
                requests.fetch_add(1, Ordering::Relaxed);
                let seen: Vec<String> = log.lock().unwrap().clone();
                let fault = match seen.as_slice() {
                    [line] => judge_request(line, name, &hash).map(|(k, t)| (k, format!("{t}; request line {line:?}"))),
                    other => Some(("request-count".to_string(), format!("{} requests: {other:?}", other.len()))),
                };
                if let Some((k, t)) = fault {
                    rep.violation(Violation { key: format!("{k}:after-many-players"), text: format!("login #{n} on one adapter instance, player {name:?}: {t}"), replay: json!({"accumulation": "many-players", "n": n}), weight: 1 });
                    break;
                }
            }
        }
        // A session server that fails: refusals, server errors, dropped connections. Whether and how often
        // the adapter asks again is its business; every request it sends must still be the one request the
        // statement describes.
        if cli.replay.is_none() || cli.replay.as_ref().is_some_and(|c| c.get("plan").is_some()) {
            let plans: Vec<Vec<u16>> = vec![vec![503], vec![500, 502], vec![0], vec![204], vec![403], vec![429], vec![503, 503, 503], vec![0, 0], vec![504, 0, 500]];
            let some: Vec<&str> = vec!["Notch", "Victim&serverId=0", "a#", "a b", "é😀", "%26", "a&username=b", "", "a?x=1", "../../x", "\n", "+"];
            for plan in &plans {
                for name in &some {
                    let sid = "srv";
                    let secret = &secrets_by_sid[1][0];
                    let adapter = MojangAdapter::default().with_server_id(sid.to_string());
                    let mut all = sid.as_bytes().to_vec();
                    all.extend_from_slice(secret);
                    all.extend_from_slice(&pubkey);
                    let hash = minecraft_hex(&sha1(&all));
                    log.lock().unwrap().clear();
                    *MOCK_PLAN.lock().unwrap() = plan.clone();
                    let uuid = Uuid::from_u128(7);
                    let r = tokio::time::timeout(std::time::Duration::from_secs(8), adapter.authenticate(&client, ("h", 1), 769, (name, &uuid), secret, &pubkey)).await;
                    MOCK_PLAN.lock().unwrap().clear();
                    let seen: Vec<String> = log.lock().unwrap().clone();
                    let replay = json!({"name": name, "plan": plan});
                    if r.is_err() {
                        rep.violation(Violation { key: "request-hangs:failing-session-server".into(), text: format!("name {name:?}, session server answers {plan:?}: no result within 8 s"), replay: replay.clone(), weight: 50 });
                    }
                    if plan[0] != 200 && seen.len() == 1 && matches!(r, Ok(Ok(_))) && plan[0] != 0 {
                        rep.violation(Violation { key: "granted-although-session-server-refused".into(), text: format!("name {name:?}: the only request was answered {} and the adapter still vouched", plan[0]), replay: replay.clone(), weight: 50 });
                    }
                    for (i, line) in seen.iter().enumerate() {
                        requests.fetch_add(1, Ordering::Relaxed);
                        if let Some((k, t)) = judge_request(line, name, &hash) {
                            rep.violation(Violation { key: format!("{k}:request-{}-after-failures", i + 1), text: format!("claimed name {name:?}, session server answers {plan:?}: request #{} of {}: {t}; request line {line:?}", i + 1, seen.len()), replay: replay.clone(), weight: 50 + i as u64 });
                            break;
                        }
                    }
                }
            }
        }
    });
    if cli.replay.is_none() || cli.replay.as_ref().is_some_and(|c| c.get("e2e").is_some()) {
        end_to_end(&rep, &requests);
    }
    let n = requests.load(Ordering::Relaxed);
    rep.require("requests captured by the mock session server", n, if cli.replay.is_some() { 1 } else { 50 });
    rep.set("evaluations", json!(names.len() * 2));
    rep.set("distinct_nontrivial", json!(names.iter().filter(|n| class_of(n) != "plain").count() * 2));
    rep.set("requests_captured", json!(n));
    rep.set("names_refused_by_the_client_library", json!(errors.load(Ordering::Relaxed)));
    rep.set("exhaustive", json!(true));
    rep.set("rule", json!("every name X, aXb for X in a 24-symbol alphabet (a & = # ? % + space / \\ . : @ ; \" < CR LF TAB NUL é 😀 %26 ../), 15 targeted payloads, every XY and pXYq, every control byte alone and inside A_41, and in thorough every XYZ over a reduced alphabet of 12; x server id {\"\", \"srv\"}, shared secrets rotating over up to 30 digest shapes (sign x last byte x leading zero nibbles); the raw request line recorded by the mock is parsed independently. Plus 8 whole connections (real Listener + Connection + MojangAdapter over TCP: login and transfer intents, names with special characters, stale / foreign / forged / valid cookies of another name) whose request must ask about the claimed name and that connection's hash, and 3 histories of 2-3 connections claiming the same name with different shared secrets, one after the other and overlapping while the session server takes 600 ms, each of which must cause exactly one request with its own hash; and 12 names x 9 answer plans of a failing session server (5xx, 4xx, 204, dropped connections, several in a row) where every request the adapter sends, first or repeated, is judged the same way. Non-trivial = the name contains a character outside [A-Za-z0-9_]."));
    rep.sample(json!({"name": "Victim&serverId=0", "server_id": "srv", "expect": "one username parameter decoding to the whole name, one serverId equal to the hash"}));
    rep.sample(json!({"name": "a#", "expect": "username decodes to 'a#'; no raw # in the request target"}));
    rep.sample(json!({"name": names[names.len() / 2]}));
    rep.assume("needs the add-only verif-hooks feature of passage-adapters-http (origin override from PASSAGE_VERIF_SESSION_URL); path and query are assembled by the unhooked code; TLS to the real session server is not exercised");
    rep.assume("both RFC 3986 and form encoding of the same name are accepted ('+' may stand for a space)");
    crate::app::mojang_host(&rep, "C12");
    rep.finish()
}
