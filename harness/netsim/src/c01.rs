//! C01: only an authenticated identity is ever admitted.
//!
//! Two parts, one report: (1) vsim's sweep over the real `Connection` with scripted services; (2) whole
//! connections over TCP through the real Listener and Connection whose authentication service is the real
//! MojangAdapter talking to a mock session server that answers 200 with something that is not a complete
//! profile, or does not answer 200: nobody was vouched for, so nothing may be granted.
use crate::c12::{MOCK_BODY, MOCK_PLAN, mock_server};
use crate::net::*;
use common::refs::codec::Pkt;
use common::{Cli, Report, Violation};
use passage_adapters::FixedLocalizationAdapter;
use passage_adapters_http::MojangAdapter;
use passage_protocol::listener::Listener;
use serde_json::json;
use std::sync::atomic::{AtomicU64, Ordering};
use std::sync::{Arc, Mutex};
use std::time::Duration;

fn session_server_answers(rep: &Report) -> u64 {
    let n = AtomicU64::new(0);
    run_local(async {
        let log = Arc::new(Mutex::new(vec![]));
        let mock = mock_server(log.clone()).await;
        unsafe { std::env::set_var("PASSAGE_VERIF_SESSION_URL", format!("http://{mock}")) };
        let a = Arc::new(NetAdapters::new());
        let port = free_port();
        let addr: std::net::SocketAddr = format!("127.0.0.1:{port}").parse().unwrap();
        let stop = tokio_util::sync::CancellationToken::new();
        let mut listener = Listener::new(a.clone(), a.clone(), a.clone(), a.clone(), Arc::new(MojangAdapter::default()), Arc::new(FixedLocalizationAdapter::default()))
            .with_auth_secret(Some(b"c01-e2e-secret".to_vec()))
            .with_connection_timeout(Duration::from_secs(20));
        let stop2 = stop.clone();
        let done = tokio::task::spawn_local(async move { listener.listen(addr, stop2).await.map_err(|e| e.to_string()) });
        for _ in 0..400 {
            if tokio::net::TcpStream::connect(addr).await.is_ok() {
                break;
            }
            tokio::time::sleep(Duration::from_millis(5)).await;
        }
        // (label, status plan, body of a 200 answer, the service vouched for this name)
        let full = br#"{"id":"069a79f444e94726a5befca90e38aaf5","name":"FromSessionServer","properties":[]}"#.to_vec();
        let cases: Vec<(&str, Vec<u16>, Option<Vec<u8>>, Option<&str>)> = vec![
            ("complete profile", vec![], Some(full.clone()), Some("FromSessionServer")),
            ("empty object", vec![], Some(b"{}".to_vec()), None),
            ("id only", vec![], Some(br#"{"id":"069a79f444e94726a5befca90e38aaf5"}"#.to_vec()), None),
            ("name only", vec![], Some(br#"{"name":"OnlyAName"}"#.to_vec()), None),
            ("properties only", vec![], Some(br#"{"properties":[]}"#.to_vec()), None),
            ("an error document with status 200", vec![], Some(br#"{"error":"ForbiddenOperationException","errorMessage":"Invalid token","path":"/session/minecraft/hasJoined"}"#.to_vec()), None),
            ("null", vec![], Some(b"null".to_vec()), None),
            ("an array", vec![], Some(b"[]".to_vec()), None),
            ("a string", vec![], Some(b"\"ok\"".to_vec()), None),
            ("an empty body", vec![], Some(vec![]), None),
            ("an id that is no UUID", vec![], Some(br#"{"id":"not-a-uuid","name":"Somebody"}"#.to_vec()), None),
            ("a name that is no string", vec![], Some(br#"{"id":"069a79f444e94726a5befca90e38aaf5","name":42}"#.to_vec()), None),
            ("204 No Content", vec![204], None, None),
            ("403", vec![403], None, None),
            ("500", vec![500, 500, 500], None, None),
            ("connection dropped", vec![0, 0, 0], None, None),
        ];
        for (label, plan, body, vouched) in cases {
            for intent in [2, 3] {
                n.fetch_add(1, Ordering::Relaxed);
                *MOCK_PLAN.lock().unwrap() = plan.clone();
                *MOCK_BODY.lock().unwrap() = body.clone();
                let replay = json!({"session_server": label, "intent": intent});
                let Ok(mut c) = McClient::connect(addr, None).await else {
                    rep.violation(Violation { key: "e2e-connect-failed".into(), text: label.into(), replay, weight: 9 });
                    continue;
                };
                let p = LoginParams { intent, name: "Claimed_A".into(), wait: Duration::from_secs(3), ..Default::default() };
                let mut out = LoginOutcome { packets: vec![], stage: Stage::Connected, error: None };
                c.login(&p, Stage::Connected, Stage::Transferred, &mut out).await;
                MOCK_PLAN.lock().unwrap().clear();
                *MOCK_BODY.lock().unwrap() = None;
                let granted: Vec<&str> = out.packets.iter().map(|p| p.kind()).filter(|k| matches!(*k, "LoginSuccess" | "StoreCookie" | "Transfer")).collect();
                let under = out.packets.iter().find_map(|p| if let Pkt::LoginSuccess { name, .. } = p { Some(name.clone()) } else { None });
                match vouched {
                    Some(name) => {
                        if under.as_deref() != Some(name) || out.stage != Stage::Transferred {
                            rep.violation(Violation { key: "e2e-vouched-player-not-admitted".into(), text: format!("session server answers with a {label}: admitted as {under:?}, stage {:?}, error {:?}", out.stage, out.error), replay, weight: 9 });
                        }
                    }
                    None => {
                        if !granted.is_empty() {
                            rep.violation(Violation {
                                key: format!("e2e-granted-without-a-vouched-identity:{}", label.replace(' ', "-")),
                                text: format!("the session server answered the has-joined request with {label} (nobody was vouched for), yet the connection claiming Claimed_A (intent {intent}) was sent {granted:?} under {under:?}"),
                                replay,
                                weight: 9,
                            });
                        }
                    }
                }
            }
        }
        stop.cancel();
        let _ = tokio::time::timeout(Duration::from_secs(2), done).await;
    });
    n.load(Ordering::Relaxed)
}

pub fn run(cli: Cli) -> ! {
    if let Some(case) = &cli.replay {
        if case.get("session_server").is_none() {
            vsim::c01::run(cli);
        }
    }
    for v in ["http_proxy", "HTTP_PROXY", "https_proxy", "HTTPS_PROXY", "all_proxy", "ALL_PROXY"] {
        unsafe { std::env::remove_var(v) };
    }
    let rep = Report::new("C01", cli.tier, "model_checking");
    if cli.replay.is_none() {
        vsim::c01::core(&rep, cli.tier.thorough());
    } else {
        rep.set("states", json!(1));
        rep.set("transitions", json!(1));
        rep.set("traces_validated_against_impl", json!(1));
    }
    let n = session_server_answers(&rep);
    rep.require("whole connections against the mock session server", n, 20);
    rep.set("whole_connections_with_the_real_mojang_adapter", json!(n));
    rep.assume("whole connections: the has-joined request goes to a loopback mock through the add-only verif-hooks origin override of passage-adapters-http; everything else is the unhooked code");
    // the assembled router: stage-wise schedules of two clients and of the shutdown signal against the real Listener,
    // and the application started by passage::start from a configuration read by Config::read()
    crate::world::host(&rep, "C01", cli.tier.thorough());
    crate::app::host(&rep, "C01", cli.tier.thorough());
    rep.finish()
}
