//! C09: every packet encodes to the Minecraft wire layout and decodes back losslessly.
//!
//! Two parts, one report: (1) enumk's enumeration over the packet crate; (2) the framing and the decoding that
//! happen inside a connection (`Connection::send_packet` assembles length prefix, packet id and fields itself;
//! serverbound packets are decoded - and their enum ordinals rejected - only where the connection reads them):
//!   (a) every clientbound frame of four exchanges, with each frame in turn taken by the transport only in part
//!       and completed after the next timer event (so that the send is abandoned and resumed), must still decode
//!       completely with the independent codec, to the same packets as in the undisturbed run;
//!   (b) well-framed serverbound packets with an enum ordinal outside the defined range, sent in the configuration
//!       phase before and while routing is in progress (no end of stream behind them), must end the connection
//!       with an error at the moment they arrive.
use common::refs::codec::{self, W};
use common::{Cli, Report, Violation};
use serde_json::json;
use vsim::sim::*;

fn exchanges() -> Vec<(&'static str, Case)> {
    let mut v = vec![];
    let mut status = Case::default();
    status.adapters.status = StatusPlan::Full;
    status.script = vec![
        st(When::Idle, Act::Handshake { proto: 769, host: "mc.example.org".into(), port: 25565, next: 1 }),
        st(When::Idle, Act::StatusRequest),
        st(When::Idle, Act::Ping(0x0102030405060708)),
    ];
    v.push(("status", status));
    let mut login = Case::default();
    login.cfg.auth_secret = Some(b"c09-secret".to_vec());
    login.script = Login::default().steps();
    login.adapters.disc_ms = 20_000;
    login.adapters.filter_ms = 20_000;
    v.push(("login-slow-routing", login));
    let mut refused = Case::default();
    refused.script = Login { locale: "de_de".into(), ..Default::default() }.steps();
    refused.adapters.strat = StratPlan::None;
    refused.adapters.strat_ms = 17_000;
    v.push(("login-no-target", refused));
    let mut silent = Case::default();
    silent.script = Login::default().steps();
    silent.echo = Echo::Never;
    silent.adapters.disc_ms = 60_000;
    v.push(("login-timeout", silent));
    v
}

fn frames_inside_connections(rep: &Report) -> u64 {
    let mut n = 0u64;
    for (label, base) in exchanges() {
        let clean = vsim::sim::run(&base);
        if clean.garbled.is_some() || clean.has("Unknown") {
            rep.violation(Violation { key: format!("connection-frame:{label}:undisturbed"), text: format!("{:?} {:?}", clean.garbled, clean.kinds()), replay: json!({"connection": label}), weight: 20 });
            continue;
        }
        let frames = clean.packets.len();
        for f in 0..frames {
            for first in [1usize, 4, 9] {
                for until in [16_001u64, 20_001, 32_001, 40_001] {
                    n += 1;
                    let mut c = base.clone();
                    c.transport.writes.push(WriteDev { frame: f, prog: vec![WStep::Accept(first), WStep::Until(until)] });
                    let obs = vsim::sim::run(&c);
                    let torn = obs.garbled.is_some() || obs.has("Unknown") || obs.partial_tail > 0;
                    // the timing of the exchange may shift (a frame stuck in the transport delays what is behind it);
                    // every frame that arrives must still be a whole, well-formed packet of the expected kind
                    // (a Keep Alive that reaches the client late may legitimately end in the timeout Disconnect)
                    let kinds_ok = obs.kinds().iter().all(|k| clean.kinds().contains(k) || *k == "ConfDisconnect" || *k == "KeepAlive");
                    if torn || !kinds_ok {
                        rep.violation(Violation {
                            key: format!("connection-frame:{label}:{}", clean.packets[f].1.kind()),
                            text: format!("{label}: clientbound frame #{f} ({}) taken {first} bytes, the rest at {until} ms: the client decodes {:?} (undecodable: {:?}, {} dangling bytes); undisturbed: {:?}", clean.packets[f].1.kind(), obs.kinds(), obs.garbled, obs.partial_tail, clean.kinds()),
                            replay: json!({"connection": label, "frame": f, "first": first, "until": until}),
                            weight: 20 + f as u64,
                        });
                    }
                }
            }
        }
    }
    n
}


/// (c) serverbound frames whose length prefix has two bytes (a 200-byte plugin message, a Client Information with a
/// 140-byte locale), sent while routing is in progress and split after every one of their first four bytes, with the
/// rest arriving at and just after the moment a routing stage answers or a timer fires: the frame must be decoded as
/// one frame (same packets, everything consumed, same outcome as unsplit).
fn split_prefixes_inside_connections(rep: &Report) -> u64 {
    let mut n = 0u64;
    let big = st(When::IdleAfter(1_000), Act::Frame { id: 2, body: W::new().string("minecraft:register").raw(&[0x61; 200]).done() });
    for (label, lat) in [("discovery 5 s, filter 20 s", [5_000u64, 20_000, 0]), ("filter 5 s, strategy 20 s", [0, 5_000, 20_000]), ("discovery 5 s, strategy 12 s", [5_000, 0, 12_000])] {
        let mut base = Case::default();
        base.cfg.auth_secret = Some(b"c09-secret".to_vec());
        base.script = Login { locale: "l".repeat(140), ..Default::default() }.steps();
        base.script.push(big.clone());
        base.adapters.disc_ms = lat[0];
        base.adapters.filter_ms = lat[1];
        base.adapters.strat_ms = lat[2];
        let clean = vsim::sim::run(&base);
        if !clean.has("Transfer") || clean.garbled.is_some() {
            common::machinery(&format!("C09: the undisturbed exchange with a big serverbound frame did not end in a Transfer: {:?} {:?}", clean.kinds(), clean.result));
        }
        // the offsets at which the last two client frames start: read off the frames the client model recorded
        // (what the client model recorded: offset and length of everything it sent; the two frames with a two-byte
        // length prefix are the only ones of 128 bytes or more)
        let mut starts: Vec<usize> = clean.sb_frames.iter().filter(|f| f.1 >= 130).map(|f| f.0).collect();
        // (the Encryption Response is the third such frame; it is exchanged before any routing and is C08's business)
        if starts.len() == 3 {
            starts.remove(0);
        }
        if starts.len() != 2 {
            common::machinery(&format!("C09: expected two big serverbound frames in the exchange, found {:?}", clean.sb_frames));
        }
        let first_answer = lat.iter().copied().find(|l| *l > 0).unwrap_or(0);
        for start in starts {
            for k in 1..=4usize {
                for until in [0u64, first_answer, first_answer + 1, 16_000, 16_001, first_answer + 2_000] {
                    n += 1;
                    let mut c = base.clone();
                    c.transport.splits.push(Split { offset: start + k, pause: if until == 0 { Pause::Yield } else { Pause::Until(until) } });
                    let obs = vsim::sim::run(&c);
                    let same = obs.kinds().iter().filter(|k| **k != "KeepAlive").collect::<Vec<_>>() == clean.kinds().iter().filter(|k| **k != "KeepAlive").collect::<Vec<_>>();
                    if !same || obs.garbled.is_some() || obs.partial_tail > 0 || obs.consumed != obs.emitted || obs.result != clean.result {
                        rep.violation(Violation {
                            key: "connection-frame:serverbound-frame-split-inside-its-length-prefix".into(),
                            text: format!("{label}: the client's frame starting at byte {start} of its stream (two-byte length prefix) split after {k} byte(s), the rest arriving at {until} ms: the client is sent {:?}, result {:?}, {} of {} bytes consumed; unsplit: {:?}, {:?}, {} consumed", obs.kinds(), obs.result, obs.consumed, obs.emitted, clean.kinds(), clean.result, clean.consumed),
                            replay: json!({"connection": "split-prefix", "latencies": lat, "start": start, "after": k, "until": until}),
                            weight: 22,
                        });
                    }
                }
            }
        }
    }
    n
}


/// (d) serverbound packets at the upper end of what the protocol allows, in the phase in which they are legal: login
/// Cookie Responses whose payload is 1 KiB ... 5 000 bytes (a signed authentication cookie with a large profile
/// property; a session cookie padded with a long trace id) must be decoded and honoured like small ones.
fn large_cookie_responses_inside_connections(rep: &Report) -> u64 {
    let mut n = 0;
    let secret = b"c09-large-cookies".to_vec();
    for size in [200usize, 900, 1_100, 2_000, 3_500, 4_900] {
        for which in ["authentication", "session"] {
            n += 1;
            let mut c = Case::default();
            c.cfg.auth_secret = Some(secret.clone());
            let addr = c.cfg.client_addr.to_string();
            let mut login = Login { intent: 3, ..Default::default() };
            let cookie = vsim::util::valid_cookie(&secret, 5, &addr, "Cookie_Holder", 0x0987, &[Prop { name: "textures".into(), value: "v".repeat(if which == "authentication" { size } else { 10 }), signature: None }]);
            login.auth_cookie = Some(Some(cookie.clone()));
            if which == "session" {
                login.session = Some(serde_json::to_vec(&json!({"id": "116934ee-8b5a-49d4-8b54-af0b4d6dbe5f", "server_address": "h".repeat(size.min(200)), "server_port": 25565, "trace_id": "0".repeat(size)})).unwrap());
            }
            c.script = login.steps();
            let obs = vsim::sim::run(&c);
            let flag = obs.packets.iter().find_map(|(_, p)| if let codec::Pkt::EncryptionRequest { should_authenticate, .. } = p { Some(*should_authenticate) } else { None });
            if flag != Some(false) || !obs.has("Transfer") {
                rep.violation(Violation {
                    key: format!("connection-decoding:large-{which}-cookie-response-refused"),
                    text: format!("a returning player whose {which} Cookie Response carries about {size} bytes (authentication cookie {} bytes, valid): should_authenticate = {flag:?}, packets {:?}, result {:?}", cookie.len(), obs.kinds(), obs.result),
                    replay: json!({"connection": "large-cookie", "which": which, "size": size}),
                    weight: 24,
                });
            }
        }
    }
    n
}

fn ordinals_inside_connections(rep: &Report) -> u64 {
    let mut n = 0u64;
    // (label, frame) - complete, well-framed packets whose only fault is one ordinal
    let info = |chat: i32, hand: i32, particle: i32| codec::frame(0x00, &codec::sb_client_information_body("en_us", 10, chat, true, 0x7f, hand, false, true, particle));
    let pack = |result: i32| codec::frame(0x06, &W::new().u128(7).varint(result).done());
    let bad: Vec<(&str, Vec<u8>)> = vec![
        ("client-information chat mode 3", info(3, 1, 0)),
        ("client-information chat mode -1", info(-1, 1, 0)),
        ("client-information main hand 2", info(0, 2, 0)),
        ("client-information particle status 3", info(0, 1, 3)),
        ("client-information particle status -1", info(0, 1, -1)),
        ("resource-pack-response result 8", pack(8)),
        ("resource-pack-response result -1", pack(-1)),
        ("resource-pack-response result i32::MAX", pack(i32::MAX)),
    ];
    let good: Vec<(&str, Vec<u8>)> = vec![("client-information (valid)", info(2, 0, 2)), ("resource-pack-response (valid)", pack(7))];
    for phase in ["before-client-information", "while-routing"] {
        for (label, frame, valid) in bad.iter().map(|(l, f)| (l, f, false)).chain(good.iter().map(|(l, f)| (l, f, true))) {
            n += 1;
            let mut c = Case::default();
            let mut steps = Login::default().steps();
            if phase == "before-client-information" {
                let ci = steps.pop().unwrap();
                steps.push(st(When::Idle, Act::Raw(frame.clone())));
                steps.push(ci);
            } else {
                steps.push(st(When::IdleAfter(1_000), Act::Raw(frame.clone())));
            }
            c.script = steps;
            c.adapters.disc_ms = 30_000;
            c.horizon_ms = 120_000;
            let obs = vsim::sim::run(&c);
            let sent_at = if phase == "while-routing" { 1_000 } else { 0 };
            let replay = json!({"ordinal": label, "phase": phase});
            if valid {
                if !obs.has("Transfer") {
                    rep.violation(Violation { key: "connection-decoding:valid-packet-refused".into(), text: format!("{label} {phase}: {:?} {:?}", obs.kinds(), obs.result), replay, weight: 30 });
                }
            } else if !obs.result.is_err() || obs.end_ms != sent_at || obs.has("Transfer") {
                rep.violation(Violation {
                    key: format!("connection-decoding:ordinal-not-rejected:{phase}"),
                    text: format!("a well-framed {label} sent {phase} (at {sent_at} ms): the connection went on: result {:?} at {} ms, packets {:?}", obs.result, obs.end_ms, obs.kinds()),
                    replay,
                    weight: 30,
                });
            }
        }
    }
    n
}

pub fn run(cli: Cli) -> ! {
    if let Some(case) = &cli.replay {
        if case.get("connection").is_none() && case.get("ordinal").is_none() {
            enumk::c09::run(cli);
        }
    }
    let rep = Report::new("C09", cli.tier, "exploration");
    if cli.replay.is_none() {
        enumk::c09::core(&rep, cli.tier.thorough());
    }
    let a = frames_inside_connections(&rep);
    let b = ordinals_inside_connections(&rep);
    let c = split_prefixes_inside_connections(&rep);
    let d = large_cookie_responses_inside_connections(&rep);
    rep.set("large_cookie_responses_inside_connections", json!(d));
    rep.set("serverbound_frames_split_inside_their_length_prefix", json!(c));
    rep.require("connection-level framing cases", a, 100);
    rep.require("connection-level ordinal cases", b, 10);
    rep.set("frames_inside_connections", json!(a));
    rep.set("ordinals_inside_connections", json!(b));
    rep.assume("connection-level part: the real Connection over the virtual transport; frames are decoded by the harness's independent codec");
    // clientbound frames of every length around the places where the length prefix grows (127/128, 16383/16384
    // bytes), under frame limits from tiny to the protocol maximum: each must arrive as one well-formed frame
    {
        let sweep = vsim::sim::status_size_sweep(cli.tier.thorough());
        for (label, want, obs) in &sweep {
            if let Some(f) = vsim::sim::status_fault(want, obs) {
                rep.violation(Violation { key: "connection-frame:status-answer-of-graded-length".into(), text: format!("{label}: {f}"), replay: json!({"connection": "status-size", "label": label}), weight: 25 });
            }
        }
        rep.set("clientbound_frames_of_graded_length", json!(sweep.len()));
    }
    // the assembled router: stage-wise schedules of two clients and of the shutdown signal against the real Listener,
    // and the application started by passage::start from a configuration read by Config::read()
    crate::world::host(&rep, "C09", cli.tier.thorough());
    crate::app::host(&rep, "C09", cli.tier.thorough());
    rep.finish()
}
