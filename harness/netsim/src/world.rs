//! The assembled router explored at the granularity of protocol stages.
//!
//! Subject: the real `Listener` on a loopback port with recording adapters, one fresh instance per run. Actors: two
//! scripted clients (A is always an honest player; B is a second player, a client that goes away in the middle, a
//! client that answers with A's verify token, a status client ...), the discovery backend's gate and the shutdown
//! signal. A run is a *schedule*: a merge of the two clients' stage sequences (each action advances one client by
//! one protocol stage, lock-step with the server), then the gate opens and the routed clients finish. The schedules
//! of a pair are enumerated exhaustively up to a bound on the number of switches between the two clients (thorough:
//! all merges). Oracles compare each client with the same client served alone, per property view.
#![allow(dead_code)]
use crate::net::*;
use common::refs::codec::Pkt;
use common::refs::sha::hmac_sha256;
use passage_adapters::authentication::{AuthenticationAdapter, Profile, ProfileProperty};
use passage_adapters::discovery::DiscoveryAdapter;
use passage_adapters::filter::FilterAdapter;
use passage_adapters::status::StatusAdapter;
use passage_adapters::strategy::StrategyAdapter;
use passage_adapters::{Protocol, ServerStatus, ServerVersion, Target};
use serde_json::{Value, json};
use std::net::{IpAddr, SocketAddr};
use std::sync::atomic::{AtomicUsize, Ordering};
use std::sync::{Arc, Mutex};
use std::time::Duration;
use tokio::sync::Semaphore;
use uuid::Uuid;

pub const WORLD_SECRET: &[u8] = b"world secret, first line\nsecond line \n";

// ---------------------------------------------------------------------------------------
// recording adapters
// ---------------------------------------------------------------------------------------

#[derive(Default, Clone, Debug)]
pub struct WorldLog {
    /// (claimed name, effective client address) of every authentication request
    pub auth: Vec<(String, SocketAddr)>,
    /// per discovery call: the identifiers returned (None: the call failed)
    pub discovered: Vec<Option<Vec<String>>>,
    /// (player name given to the filters, identifiers offered)
    pub filtered: Vec<(String, Vec<String>)>,
    /// (player name given to the strategy, identifiers offered, choice)
    pub selected: Vec<(String, Vec<String>, Option<(String, SocketAddr)>)>,
    pub status: Vec<SocketAddr>,
}

pub struct WorldAdapters {
    pub log: Arc<Mutex<WorldLog>>,
    /// discovery waits for a permit
    pub gate: Arc<Semaphore>,
    /// these discovery calls (by index) fail once they are let through
    pub fail_calls: Vec<usize>,
    /// every discovery call finds other servers (identifiers and addresses carry the call's index)
    pub vary_by_call: bool,
    calls: AtomicUsize,
}

impl std::fmt::Debug for WorldAdapters {
    fn fmt(&self, f: &mut std::fmt::Formatter<'_>) -> std::fmt::Result {
        write!(f, "WorldAdapters")
    }
}

impl WorldAdapters {
    pub fn new(fail_calls: Vec<usize>) -> Self {
        Self { log: Arc::new(Mutex::new(WorldLog::default())), gate: Arc::new(Semaphore::new(0)), fail_calls, vary_by_call: false, calls: AtomicUsize::new(0) }
    }
}

pub fn vouched(claimed: &str) -> String {
    let mut n = format!("V_{claimed}");
    n.truncate(16);
    n
}

pub fn world_targets() -> Vec<Target> {
    vec![
        Target { identifier: "w-alpha".into(), address: "10.77.0.1:25565".parse().unwrap(), meta: Default::default() },
        Target { identifier: "w-beta".into(), address: "10.77.0.2:25566".parse().unwrap(), meta: Default::default() },
        Target { identifier: "w-gamma".into(), address: "[fd00:77::3]:25567".parse().unwrap(), meta: Default::default() },
    ]
}

/// what the n-th discovery call finds when every call finds other servers
pub fn targets_of_call(n: usize) -> Vec<Target> {
    (0..3).map(|k| Target { identifier: format!("call{n}-{k}"), address: format!("10.88.{}.{}:{}", n % 250, k + 1, 25_565 + k).parse().unwrap(), meta: Default::default() }).collect()
}

/// the strategy's rule: by the last letter of the player's name
pub fn world_choice(player: &str, offered: &[Target]) -> Option<Target> {
    if offered.is_empty() {
        return None;
    }
    let k = player.bytes().last().unwrap_or(0) as usize % offered.len();
    Some(offered[k].clone())
}

impl StatusAdapter for WorldAdapters {
    async fn status(&self, client_addr: &SocketAddr, _server_addr: (&str, u16), _protocol: Protocol) -> passage_adapters::Result<Option<ServerStatus>> {
        self.log.lock().unwrap().status.push(*client_addr);
        Ok(Some(ServerStatus { version: ServerVersion { name: "World".into(), protocol: 769 }, players: None, description: None, favicon: None, enforces_secure_chat: None }))
    }
}

impl AuthenticationAdapter for WorldAdapters {
    async fn authenticate(&self, client_addr: &SocketAddr, _s: (&str, u16), _p: Protocol, user: (&str, &Uuid), _secret: &[u8], _key: &[u8]) -> passage_adapters::Result<Profile> {
        self.log.lock().unwrap().auth.push((user.0.to_string(), *client_addr));
        if user.0.starts_with("Deny") {
            return Err(passage_adapters::Error::FailedFetch { adapter_type: "verif", cause: "not vouched for (on purpose)".into() });
        }
        Ok(Profile {
            id: Uuid::from_u128(user.1.as_u128() ^ 0xffff),
            name: vouched(user.0),
            properties: vec![ProfileProperty { name: "textures".into(), value: format!("dGV4{}", user.0), signature: Some("c2ln".into()) }],
            profile_actions: vec![],
        })
    }
}

impl DiscoveryAdapter for WorldAdapters {
    async fn discover(&self) -> passage_adapters::Result<Vec<Target>> {
        let n = self.calls.fetch_add(1, Ordering::SeqCst);
        let p = self.gate.acquire().await.expect("gate");
        p.forget();
        if self.fail_calls.contains(&n) {
            self.log.lock().unwrap().discovered.push(None);
            return Err(passage_adapters::Error::FailedFetch { adapter_type: "verif", cause: "the discovery backend fails on purpose".into() });
        }
        let t = if self.vary_by_call { targets_of_call(n) } else { world_targets() };
        self.log.lock().unwrap().discovered.push(Some(t.iter().map(|t| t.identifier.clone()).collect()));
        Ok(t)
    }
}

impl FilterAdapter for WorldAdapters {
    async fn filter(&self, _c: &SocketAddr, _s: (&str, u16), _p: Protocol, u: (&str, &Uuid), targets: Vec<Target>) -> passage_adapters::Result<Vec<Target>> {
        self.log.lock().unwrap().filtered.push((u.0.to_string(), targets.iter().map(|t| t.identifier.clone()).collect()));
        if u.0.starts_with("V_FailF") {
            return Err(passage_adapters::Error::FailedFetch { adapter_type: "verif", cause: "the filter backend fails on purpose".into() });
        }
        Ok(targets)
    }
}

impl StrategyAdapter for WorldAdapters {
    async fn select(&self, _c: &SocketAddr, _s: (&str, u16), _p: Protocol, u: (&str, &Uuid), targets: Vec<Target>) -> passage_adapters::Result<Option<Target>> {
        if u.0.starts_with("V_FailS") {
            self.log.lock().unwrap().selected.push((u.0.to_string(), targets.iter().map(|t| t.identifier.clone()).collect(), None));
            return Err(passage_adapters::Error::FailedFetch { adapter_type: "verif", cause: "the strategy backend fails on purpose".into() });
        }
        let choice = if u.0.starts_with("V_NoneS") { None } else { world_choice(u.0, &targets) };
        self.log.lock().unwrap().selected.push((u.0.to_string(), targets.iter().map(|t| t.identifier.clone()).collect(), choice.as_ref().map(|t| (t.identifier.clone(), t.address))));
        Ok(choice)
    }
}

// ---------------------------------------------------------------------------------------
// plans, schedules, records
// ---------------------------------------------------------------------------------------

#[derive(Clone, Debug)]
pub struct Plan {
    pub label: String,
    pub params: LoginParams,
    /// source announced in a PROXY v1 header (used only when the listener expects one)
    pub announce: SocketAddr,
    pub bind_ip: IpAddr,
    /// number of stages the client performs before it drops the connection (login: 6 = all of them; status: 3)
    pub stages: usize,
    /// the client answers the Encryption Request with the other client's verify token (if that one has been
    /// issued; 32 zero bytes otherwise)
    pub takes_others_token: bool,
    pub status: bool,
}

impl Plan {
    pub fn login(name: &str, uuid: u128, ip: &str) -> Plan {
        Plan {
            label: format!("{name} logs in"),
            params: LoginParams { name: name.into(), uuid, wait: Duration::from_millis(1500), ..Default::default() },
            announce: format!("{ip}:40000").parse().unwrap(),
            bind_ip: if name == "Ann" { "127.0.0.1" } else { "127.0.0.3" }.parse().unwrap(),
            stages: 6,
            takes_others_token: false,
            status: false,
        }
    }
    pub fn status(ip: &str) -> Plan {
        let mut p = Plan::login("Status", 0, ip);
        p.label = "a status exchange".into();
        p.status = true;
        p.stages = 3;
        p.params.intent = 1;
        p
    }
    pub fn to_json(&self) -> Value {
        json!({"label": self.label, "name": self.params.name, "intent": self.params.intent, "proto": self.params.proto, "pipelined": self.params.pipelined, "stages": self.stages,
               "announce": self.announce.to_string(), "takes_others_token": self.takes_others_token, "cookie": self.params.auth_cookie.as_ref().map(|c| c.len())})
    }
    fn full(&self) -> usize {
        if self.status { 3 } else { 6 }
    }
    /// actions before the gate opens (the last login stage - reading up to the Transfer - comes after it)
    fn pre(&self) -> usize {
        if self.status {
            self.stages.min(3) + usize::from(self.stages < 3)
        } else {
            self.stages.min(5) + usize::from(self.stages < 6)
        }
    }
    fn fin(&self) -> usize {
        usize::from(!self.status && self.stages >= 6)
    }
}

#[derive(Clone, Copy, Debug, PartialEq, Eq, serde::Serialize, serde::Deserialize)]
pub enum Act {
    A,
    B,
    Gate,
    Stop,
}

/// every merge of `na` actions of A and `nb` of B with at most `bound` switches between the two
pub fn merges(na: usize, nb: usize, bound: usize) -> Vec<Vec<Act>> {
    fn go(a: usize, b: usize, cur: &mut Vec<Act>, out: &mut Vec<Vec<Act>>, bound: usize) {
        if a == 0 && b == 0 {
            out.push(cur.clone());
            return;
        }
        for (who, left) in [(Act::A, a), (Act::B, b)] {
            if left == 0 {
                continue;
            }
            let switches = cur.windows(2).filter(|w| w[0] != w[1]).count() + usize::from(cur.last().is_some_and(|l| *l != who));
            if switches > bound {
                continue;
            }
            cur.push(who);
            if who == Act::A { go(a - 1, b, cur, out, bound) } else { go(a, b - 1, cur, out, bound) }
            cur.pop();
        }
    }
    let mut out = vec![];
    go(na, nb, &mut vec![], &mut out, bound);
    out
}

/// the schedules of a pair: merges of the pre-gate actions, the gate, the finishes in both orders
pub fn pair_schedules(a: &Plan, b: &Plan, bound: usize) -> Vec<Vec<Act>> {
    let mut out = vec![];
    for m in merges(a.pre(), b.pre(), bound) {
        let tails: Vec<Vec<Act>> = match (a.fin(), b.fin()) {
            (1, 1) => vec![vec![Act::A, Act::B], vec![Act::B, Act::A]],
            (1, 0) => vec![vec![Act::A]],
            (0, 1) => vec![vec![Act::B]],
            _ => vec![vec![]],
        };
        for t in tails {
            let mut s = m.clone();
            s.push(Act::Gate);
            s.extend(t);
            out.push(s);
        }
    }
    out
}

pub fn solo_schedule(p: &Plan) -> Vec<Act> {
    let mut s = vec![Act::A; p.pre()];
    s.push(Act::Gate);
    s.extend(vec![Act::A; p.fin()]);
    s
}

/// what one client saw
#[derive(Clone, Debug)]
pub struct Rec {
    pub packets: Vec<Pkt>,
    pub stage: Stage,
    pub error: Option<ReadErr>,
    /// how the connection ended after the last scripted stage: eof | reset | open (nothing more within 250 ms) | dropped (by the client)
    pub ended: String,
    pub connected: bool,
}

struct Cl {
    plan: Plan,
    c: Option<McClient>,
    out: LoginOutcome,
    done: usize,
    dropped: bool,
    connected: bool,
}

const STAGES: [Stage; 6] = [Stage::HandshakeSent, Stage::LoginStartSent, Stage::EncryptionRequestReceived, Stage::LoginSuccessReceived, Stage::InConfiguration, Stage::Transferred];

fn token_of(out: &LoginOutcome) -> Option<Vec<u8>> {
    out.packets.iter().find_map(|p| if let Pkt::EncryptionRequest { verify_token, .. } = p { Some(verify_token.clone()) } else { None })
}

async fn advance(cl: &mut Cl, addr: SocketAddr, proxied: bool, others_token: Option<Vec<u8>>) {
    if cl.dropped {
        return;
    }
    if cl.c.is_none() && cl.done == 0 {
        match McClient::connect(addr, Some(cl.plan.bind_ip)).await {
            Ok(mut c) => {
                cl.connected = true;
                if proxied {
                    let _ = c.send_raw(&proxy_v1(cl.plan.announce, addr)).await;
                }
                cl.c = Some(c);
            }
            Err(e) => {
                cl.out.error = Some(ReadErr::Reset(format!("connect: {}", e.kind())));
                cl.dropped = true;
                return;
            }
        }
    }
    if cl.done >= cl.plan.stages.min(cl.plan.full()) {
        // the client goes away
        cl.c = None;
        cl.dropped = true;
        return;
    }
    let Some(c) = cl.c.as_mut() else { return };
    if cl.out.error.is_some() {
        cl.done += 1;
        return;
    }
    if cl.plan.status {
        let io = |e: std::io::Error| ReadErr::Reset(e.kind().to_string());
        let wait = cl.plan.params.wait;
        match cl.done {
            0 => {
                if let Err(e) = c.handshake("status.world", 25565, 1).await.map_err(io) {
                    cl.out.error = Some(e);
                }
            }
            1 => match c.send(&common::refs::codec::sb_status_request()).await.map_err(io) {
                Err(e) => cl.out.error = Some(e),
                Ok(()) => match c.read_packet(wait).await {
                    Ok(p) => cl.out.packets.push(p),
                    Err(e) => cl.out.error = Some(e),
                },
            },
            _ => match c.send(&common::refs::codec::sb_ping(0x5eed)).await.map_err(io) {
                Err(e) => cl.out.error = Some(e),
                Ok(()) => match c.read_packet(wait).await {
                    Ok(p) => cl.out.packets.push(p),
                    Err(e) => cl.out.error = Some(e),
                },
            },
        }
        cl.done += 1;
        return;
    }
    let mut p = cl.plan.params.clone();
    if cl.plan.takes_others_token {
        p.foreign_token = Some(others_token.unwrap_or_else(|| vec![0u8; 32]));
    }
    let from = cl.out.stage;
    c.login(&p, from, STAGES[cl.done], &mut cl.out).await;
    cl.done += 1;
}

async fn finish(cl: &mut Cl) -> Rec {
    let mut ended = if cl.dropped { "dropped".to_string() } else { "open".to_string() };
    let mut packets = cl.out.packets.clone();
    if let Some(c) = cl.c.as_mut() {
        loop {
            match c.read_packet(Duration::from_millis(250)).await {
                Ok(p) => packets.push(p),
                Err(ReadErr::Eof) => {
                    ended = "eof".into();
                    break;
                }
                Err(ReadErr::Reset(_)) => {
                    ended = "reset".into();
                    break;
                }
                Err(ReadErr::Timeout) => break,
                Err(ReadErr::Garbled(g)) => {
                    ended = format!("garbled: {g}");
                    break;
                }
            }
        }
    }
    Rec { packets, stage: cl.out.stage, error: cl.out.error.clone(), ended, connected: cl.connected }
}

#[derive(Clone, Debug)]
pub struct WorldCfg {
    pub proxy: bool,
    pub limiter: bool,
    pub secret: bool,
    pub fail_calls: Vec<usize>,
}

impl WorldCfg {
    pub fn to_json(&self) -> Value {
        json!({"proxy": self.proxy, "limiter": self.limiter, "secret": self.secret, "fail_calls": self.fail_calls})
    }
}

pub struct RunOut {
    pub recs: Vec<Rec>,
    pub log: WorldLog,
    /// the listener returned within 3 s of the stop signal / of the end of the run
    pub listener_returned: bool,
    pub panics: u64,
    /// a fresh status client was served after everything else (None: shutdown had been requested, no probe)
    pub probe: Option<Result<(), String>>,
    /// an ordinary player ("Zed") who logs in after everything else (None: shutdown had been requested)
    pub late: Option<Rec>,
}

static PANICS: std::sync::atomic::AtomicU64 = std::sync::atomic::AtomicU64::new(0);

pub fn install_panic_counter() {
    let prev = std::panic::take_hook();
    std::panic::set_hook(Box::new(move |info| {
        PANICS.fetch_add(1, Ordering::SeqCst);
        prev(info);
    }));
}

/// One run: a fresh listener, the clients of `plans` (one or two), the schedule. Must be called inside `run_local`.
pub async fn run_schedule(cfg: &WorldCfg, plans: &[Plan], schedule: &[Act]) -> RunOut {
    let adapters = Arc::new(WorldAdapters::new(cfg.fail_calls.clone()));
    let log = adapters.log.clone();
    let gate = adapters.gate.clone();
    let lcfg = ListenerCfg {
        proxy: cfg.proxy.then_some((true, true)),
        limiter: cfg.limiter.then_some((60, 100_000)),
        timeout: Duration::from_secs(20),
        auth_secret: cfg.secret.then(|| WORLD_SECRET.to_vec()),
        ..Default::default()
    };
    let panics_before = PANICS.load(Ordering::SeqCst);
    let running = start_listener_with(&lcfg, adapters).await;
    let mut cls: Vec<Cl> = plans.iter().map(|p| Cl { plan: p.clone(), c: None, out: LoginOutcome { packets: vec![], stage: Stage::Connected, error: None }, done: 0, dropped: false, connected: false }).collect();
    let mut stopped = false;
    for act in schedule {
        match act {
            Act::A | Act::B => {
                let i = usize::from(*act == Act::B);
                if i >= cls.len() {
                    continue;
                }
                let other = if cls.len() > 1 { token_of(&cls[1 - i].out) } else { None };
                advance(&mut cls[i], running.addr, cfg.proxy, other).await;
            }
            Act::Gate => gate.add_permits(8),
            Act::Stop => {
                running.stop.cancel();
                stopped = true;
                tokio::time::sleep(Duration::from_millis(150)).await;
            }
        }
        // let the server act on what it was sent before the other client moves
        tokio::time::sleep(Duration::from_millis(4)).await;
    }
    let mut recs = vec![];
    for cl in cls.iter_mut() {
        recs.push(finish(cl).await);
    }
    drop(cls);
    let mut probe = None;
    let mut late = None;
    if !stopped {
        let r = async {
            let mut c = McClient::connect(running.addr, Some("127.0.0.9".parse().unwrap())).await.map_err(|e| format!("connect: {e}"))?;
            if cfg.proxy {
                c.send_raw(&proxy_v1("198.51.100.99:4242".parse().unwrap(), running.addr)).await.map_err(|e| format!("header: {e}"))?;
            }
            c.status_exchange(Duration::from_millis(1500)).await.map(|_| ()).map_err(|e| format!("{e:?}"))
        }
        .await;
        probe = Some(r);
        let mut zed = Cl { plan: late_plan(), c: None, out: LoginOutcome { packets: vec![], stage: Stage::Connected, error: None }, done: 0, dropped: false, connected: false };
        gate.add_permits(2);
        for _ in 0..6 {
            advance(&mut zed, running.addr, cfg.proxy, None).await;
        }
        late = Some(finish(&mut zed).await);
        running.stop.cancel();
    }
    let listener_returned = tokio::time::timeout(Duration::from_secs(3), running.done).await.is_ok();
    let log = log.lock().unwrap().clone();
    RunOut { recs, log, listener_returned, panics: PANICS.load(Ordering::SeqCst) - panics_before, probe, late }
}

// ---------------------------------------------------------------------------------------
// views (what of a record a property is about)
// ---------------------------------------------------------------------------------------

pub fn open_auth_cookie(payload: &[u8], secret: &[u8]) -> Value {
    if payload.len() < 32 {
        return json!({"short": payload.len()});
    }
    let tag_ok = hmac_sha256(secret, &payload[32..])[..] == payload[..32];
    let mut body: Value = serde_json::from_slice(&payload[32..]).unwrap_or(json!("unparseable"));
    if let Some(o) = body.as_object_mut() {
        o.remove("timestamp");
    }
    json!({"tag_ok": tag_ok, "body": body})
}

pub fn pkt_view(p: &Pkt) -> Value {
    match p {
        Pkt::EncryptionRequest { server_id, public_key, verify_token, should_authenticate } => json!({"EncryptionRequest": {"server_id": server_id, "key": public_key.len(), "token": verify_token.len(), "should_authenticate": should_authenticate}}),
        Pkt::StoreCookie { key, payload } if key == "passage:authentication" => json!({"StoreCookie": {"key": key, "cookie": open_auth_cookie(payload, WORLD_SECRET)}}),
        Pkt::StoreCookie { key, payload } => {
            let mut body: Value = serde_json::from_slice(payload).unwrap_or(json!("unparseable"));
            if let Some(o) = body.as_object_mut() {
                o.remove("id");
            }
            json!({"StoreCookie": {"key": key, "body": body}})
        }
        other => other.to_json(),
    }
}

/// everything but Keep Alive packets and volatile fields
pub fn full_view(r: &Rec) -> Value {
    json!({
        "packets": r.packets.iter().filter(|p| !matches!(p, Pkt::KeepAlive { .. })).map(pkt_view).collect::<Vec<_>>(),
        "stage": format!("{:?}", r.stage),
        "error": r.error.as_ref().map(|e| match e { ReadErr::Reset(_) => "reset".to_string(), other => format!("{other:?}") }),
        "ended": if r.ended == "reset" { "eof" } else { r.ended.as_str() },
    })
}

/// only the packets of the given kinds
pub fn kinds_view(r: &Rec, kinds: &[&str]) -> Value {
    json!(r.packets.iter().filter(|p| kinds.contains(&p.kind())).map(pkt_view).collect::<Vec<_>>())
}

/// frames that are not packets the router may send, and garbled streams
pub fn wire_faults(r: &Rec) -> Vec<String> {
    let mut v: Vec<String> = r.packets.iter().filter_map(|p| if let Pkt::Unknown { phase, id, body, why } = p { Some(format!("frame id {id:#x} in {phase:?} ({} bytes): {why}", body.len())) } else { None }).collect();
    if let Some(ReadErr::Garbled(g)) = &r.error {
        if !g.starts_with("unexpected") && !g.starts_with("expected") && g != "disconnected" && g != "no encryption request" {
            v.push(format!("garbled stream: {g}"));
        }
    }
    if r.ended.starts_with("garbled") {
        v.push(r.ended.clone());
    }
    v
}

/// the order a login may be answered in (C06), as a check on the sequence of kinds
pub fn order_fault(r: &Rec) -> Option<String> {
    let rank = |k: &str| match k {
        "LoginCookieRequest" => Some(0),
        "EncryptionRequest" => Some(1),
        "LoginSuccess" => Some(2),
        "KeepAlive" | "StoreCookie" => Some(3),
        "Transfer" | "ConfDisconnect" => Some(4),
        _ => None,
    };
    let kinds: Vec<&str> = r.packets.iter().map(|p| p.kind()).collect();
    let mut last = 0;
    for (i, k) in kinds.iter().enumerate() {
        match rank(k) {
            None => return Some(format!("packet #{i} is a {k}: {kinds:?}")),
            Some(x) if x < last => return Some(format!("{k} after a later-phase packet: {kinds:?}")),
            Some(4) if i + 1 != kinds.len() => return Some(format!("{k} is not the last packet: {kinds:?}")),
            Some(x) => last = x,
        }
    }
    if kinds.iter().filter(|k| **k == "LoginSuccess").count() > 1 || kinds.iter().filter(|k| **k == "EncryptionRequest").count() > 1 {
        return Some(format!("a packet of the login phase was sent twice: {kinds:?}"));
    }
    None
}

pub fn valid_world_cookie(secret: &[u8], age_s: i64, client_ip: &str, name: &str, uuid: u128) -> Vec<u8> {
    let now = std::time::SystemTime::now().duration_since(std::time::UNIX_EPOCH).unwrap().as_secs() as i64;
    let h = format!("{uuid:032x}");
    let body = serde_json::to_vec(&json!({
        "timestamp": (now - age_s).max(0), "client_addr": format!("{client_ip}:40000"), "user_name": name,
        "user_id": format!("{}-{}-{}-{}-{}", &h[0..8], &h[8..12], &h[12..16], &h[16..20], &h[20..32]), "target": "w-old", "profile_properties": [], "extra": {},
    }))
    .unwrap();
    let mut out = hmac_sha256(secret, &body).to_vec();
    out.extend_from_slice(&body);
    out
}

// ---------------------------------------------------------------------------------------
// the exploration shared by the property hosts
// ---------------------------------------------------------------------------------------

pub struct Situation {
    pub cfg: WorldCfg,
    pub plans: Vec<Plan>,
    pub schedule: Vec<Act>,
    pub out: RunOut,
    /// the same clients, each served alone by a listener of the same configuration
    pub alone: Vec<Arc<RunOut>>,
}

impl Situation {
    pub fn replay(&self) -> Value {
        json!({"world": {"cfg": self.cfg.to_json(), "plans": self.plans.iter().map(|p| p.to_json()).collect::<Vec<_>>(), "schedule": self.schedule}})
    }
    pub fn describe(&self) -> String {
        let s: String = self.schedule.iter().map(|a| match a { Act::A => 'A', Act::B => 'B', Act::Gate => 'g', Act::Stop => '!' }).collect();
        format!("listener {}; A = {}{}; schedule {s} (one letter per protocol stage a client advances, g = discovery answers, ! = shutdown is requested)", self.cfg.to_json(), self.plans[0].label, self.plans.get(1).map(|b| format!(", B = {}", b.label)).unwrap_or_default())
    }
}

const A_IP: &str = "198.51.100.10";
const B_IP: &str = "198.51.100.20";
pub const A_UUID: u128 = 0x0a0a_0a0a_0a0a_4a0a_8a0a_0a0a_0a0a_0a0a;
pub const B_UUID: u128 = 0x0b0b_0b0b_0b0b_4b0b_8b0b_0b0b_0b0b_0b0b;

/// the ordinary player who comes after everything else
pub fn late_plan() -> Plan {
    let mut p = Plan::login("Zed", 0x0d0d_0d0d_0d0d_4d0d_8d0d_0d0d_0d0d_0d0d, "198.51.100.30");
    p.label = "Zed logs in after the others are gone".into();
    p.bind_ip = "127.0.0.9".parse().unwrap();
    p
}

/// the honest players A can be
pub fn a_plans(cfg: &WorldCfg) -> Vec<Plan> {
    let ip = if cfg.proxy { A_IP } else { "127.0.0.1" };
    let mut v = vec![Plan::login("Ann", A_UUID, A_IP)];
    let mut pipelined = Plan::login("Ann", A_UUID, A_IP);
    pipelined.label = "Ann logs in without waiting for Login Success (Encryption Response, Login Acknowledged, Client Information in one write)".into();
    pipelined.params.pipelined = true;
    v.push(pipelined);
    if cfg.secret {
        let mut t = Plan::login("Ann", A_UUID, A_IP);
        t.label = "Ann returns with her authentication cookie (Transfer intent)".into();
        t.params.intent = 3;
        t.params.auth_cookie = Some(valid_world_cookie(WORLD_SECRET, 5, ip, "Cookie_Ann", A_UUID));
        v.push(t);
    }
    v
}

/// what B can be
pub fn b_plans(cfg: &WorldCfg) -> Vec<Plan> {
    let ip = if cfg.proxy { A_IP } else { "127.0.0.1" };
    let mut v = vec![];
    v.push(Plan::login("Bob", B_UUID, B_IP));
    let mut old = Plan::login("Bob", B_UUID, B_IP);
    old.label = "Bob logs in with a 1.20.5 client (protocol 766)".into();
    old.params.proto = 766;
    v.push(old);
    for k in [1usize, 3, 5] {
        let mut gone = Plan::login("Bob", B_UUID, B_IP);
        gone.label = format!("Bob goes away after {k} of 6 login stages");
        gone.stages = k;
        v.push(gone);
    }
    let mut thief = Plan::login("Bob", B_UUID, B_IP);
    thief.label = "Bob answers the Encryption Request with the verify token issued to A".into();
    thief.takes_others_token = true;
    v.push(thief);
    let mut twin = Plan::login("Bob", B_UUID, A_IP);
    twin.label = "Bob announces the very source address (and port) A announces".into();
    twin.announce = format!("{A_IP}:40000").parse().unwrap();
    if cfg.proxy {
        v.push(twin);
    }
    if cfg.secret {
        let mut again = Plan::login("Ann", A_UUID, A_IP);
        again.label = "a second connection presents the same authentication cookie A holds".into();
        again.params.intent = 3;
        again.params.auth_cookie = Some(valid_world_cookie(WORLD_SECRET, 5, ip, "Cookie_Ann", A_UUID));
        v.push(again);
        let mut forged = Plan::login("Mallory", 0x0c0c, B_IP);
        forged.label = "Mallory presents a cookie signed with the empty key".into();
        forged.params.intent = 3;
        forged.params.auth_cookie = Some(valid_world_cookie(b"", 5, if cfg.proxy { B_IP } else { "127.0.0.3" }, "Admin", 0xad));
        v.push(forged);
    }
    let mut denied = Plan::login("Deny_Bob", B_UUID, B_IP);
    denied.label = "a player the authentication service does not vouch for".into();
    v.push(denied);
    for (name, what) in [("FailF_Bob", "a player for whom the filter backend fails"), ("FailS_Bob", "a player for whom the strategy backend fails"), ("NoneS_Bob", "a player for whom the strategy chooses nothing")] {
        let mut p = Plan::login(name, B_UUID, B_IP);
        p.label = what.into();
        v.push(p);
    }
    v.push(Plan::status(B_IP));
    v
}

pub fn world_cfgs() -> Vec<WorldCfg> {
    vec![WorldCfg { proxy: false, limiter: false, secret: false, fail_calls: vec![] }, WorldCfg { proxy: true, limiter: true, secret: true, fail_calls: vec![] }]
}

/// the first discovery call that is let through fails (whose call that is depends on the schedule: no comparison
/// with the client alone is meaningful here, only absolute oracles)
pub fn failing_discovery_cfg() -> WorldCfg {
    WorldCfg { proxy: false, limiter: true, secret: true, fail_calls: vec![0] }
}

/// Runs the pair exploration: for every listener configuration, every A, every B, every schedule within the bound.
/// `visit` is called for every situation (from several threads).
pub fn explore_pairs(bound: usize, cfgs: &[WorldCfg], visit: &(dyn Fn(&Situation) + Sync)) -> (u64, u64) {
    install_panic_counter();
    let mut jobs: Vec<(WorldCfg, Plan, Plan)> = vec![];
    for cfg in cfgs.iter().cloned() {
        for a in a_plans(&cfg) {
            for b in b_plans(&cfg) {
                jobs.push((cfg.clone(), a.clone(), b.clone()));
            }
        }
    }
    let runs = std::sync::atomic::AtomicU64::new(0);
    let alone_cache: Mutex<std::collections::HashMap<String, Arc<RunOut>>> = Mutex::new(Default::default());
    let alone_of = |cfg: &WorldCfg, p: &Plan| -> Arc<RunOut> {
        let key = format!("{}|{}", cfg.to_json(), p.to_json());
        if let Some(r) = alone_cache.lock().unwrap().get(&key) {
            return r.clone();
        }
        let mut solo = p.clone();
        if solo.takes_others_token {
            solo.label.push_str(" (alone: 32 zero bytes)");
        }
        let r = Arc::new(run_local(run_schedule(cfg, std::slice::from_ref(&solo), &solo_schedule(&solo))));
        alone_cache.lock().unwrap().insert(key, r.clone());
        r
    };
    common::par_for(jobs.len(), |i| {
        let (cfg, a, b) = &jobs[i];
        let alone = vec![alone_of(cfg, a), alone_of(cfg, b)];
        for schedule in pair_schedules(a, b, bound) {
            let out = run_local(run_schedule(cfg, &[a.clone(), b.clone()], &schedule));
            runs.fetch_add(1, Ordering::Relaxed);
            visit(&Situation { cfg: cfg.clone(), plans: vec![a.clone(), b.clone()], schedule, out, alone: alone.clone() });
        }
    });
    (jobs.len() as u64, runs.load(Ordering::Relaxed))
}

/// Shutdown requested while A is in flight: after each of A's stages (and before the first), with the gate opening
/// after the request. `visit` gets the situation; `alone` holds the undisturbed run.
pub fn explore_stops(visit: &(dyn Fn(&Situation) + Sync)) -> u64 {
    install_panic_counter();
    let mut jobs: Vec<(WorldCfg, Plan, usize)> = vec![];
    for cfg in world_cfgs().into_iter().filter(|c| c.fail_calls.is_empty()) {
        let mut plans = a_plans(&cfg);
        if cfg.secret {
            let ip = if cfg.proxy { A_IP } else { "127.0.0.3" };
            for (what, key) in [("the empty key", &b""[..]), ("a key of zero bytes as long as the secret", &[0u8; 38][..]), ("the first line of the secret", &b"world secret, first line"[..])] {
                let mut forged = Plan::login("Mallory", 0x0c0c, A_IP);
                forged.label = format!("Mallory presents a cookie signed with {what}");
                forged.params.intent = 3;
                forged.params.auth_cookie = Some(valid_world_cookie(key, 5, ip, "Admin", 0xad));
                plans.push(forged);
            }
        }
        for p in plans {
            for at in 1..=p.pre() {
                jobs.push((cfg.clone(), p.clone(), at));
            }
        }
    }
    let runs = std::sync::atomic::AtomicU64::new(0);
    common::par_for(jobs.len(), |i| {
        let (cfg, p, at) = &jobs[i];
        let alone = Arc::new(run_local(run_schedule(cfg, std::slice::from_ref(p), &solo_schedule(p))));
        let mut schedule = vec![Act::A; *at];
        schedule.push(Act::Stop);
        schedule.extend(vec![Act::A; p.pre() - at]);
        schedule.push(Act::Gate);
        schedule.extend(vec![Act::A; p.fin()]);
        let out = run_local(run_schedule(cfg, std::slice::from_ref(p), &schedule));
        runs.fetch_add(1, Ordering::Relaxed);
        visit(&Situation { cfg: cfg.clone(), plans: vec![p.clone()], schedule, out, alone: vec![alone] });
    });
    runs.load(Ordering::Relaxed)
}

// ---------------------------------------------------------------------------------------
// oracles, per property
// ---------------------------------------------------------------------------------------

fn has_valid_cookie(p: &Plan) -> bool {
    p.params.auth_cookie.is_some() && p.params.name == "Ann"
}

/// the kinds an honest, complete login must be answered with (Keep Alives aside)
/// does `got` answer an honest, complete client? (`want` from [`expected_kinds`]; a player admitted by a cookie
/// may be given a refreshed authentication cookie as well: no property forbids it)
pub fn kinds_ok(got: &[&str], want: &[&'static str], p: &Plan) -> bool {
    // (the authentication Cookie Request is optional - the statement says so -: one or two requests are the same thing)
    fn one_request<'a>(v: &[&'a str]) -> Vec<&'a str> {
        let mut out: Vec<&'a str> = vec![];
        for k in v {
            if *k == "LoginCookieRequest" && out.last() == Some(&"LoginCookieRequest") {
                continue;
            }
            out.push(*k);
        }
        out
    }
    let (got, want) = (&one_request(got)[..], &one_request(want)[..]);
    if got == want {
        return true;
    }
    let mut with_refresh = want.to_vec();
    if !p.status && has_valid_cookie(p) && with_refresh.len() >= 2 {
        with_refresh.insert(with_refresh.len() - 1, "StoreCookie");
        return got == with_refresh.as_slice();
        // (`want` is already reduced to one request)
    }
    false
}

pub fn expected_kinds(cfg: &WorldCfg, p: &Plan) -> Option<Vec<&'static str>> {
    if p.status {
        return (p.stages >= 3).then(|| vec!["StatusResponse", "Pong"]);
    }
    if p.stages < 6 || p.takes_others_token || ["Deny", "FailF", "FailS", "NoneS"].iter().any(|x| p.params.name.starts_with(x)) || !cfg.fail_calls.is_empty() {
        return None;
    }
    let mut v = vec!["LoginCookieRequest"];
    if p.params.intent == 3 && cfg.secret {
        v.push("LoginCookieRequest");
    }
    v.extend(["EncryptionRequest", "LoginSuccess"]);
    if cfg.secret && !has_valid_cookie(p) {
        v.push("StoreCookie");
    }
    v.extend(["StoreCookie", "Transfer"]);
    Some(v)
}

/// the names the router may use for this client once it is authenticated
fn identity_of(p: &Plan) -> String {
    if has_valid_cookie(p) { "Cookie_Ann".to_string() } else { vouched(&p.params.name) }
}

pub fn judge(prop: &str, s: &Situation) -> Vec<(String, String)> {
    let mut v: Vec<(String, String)> = vec![];
    let comparable = s.cfg.fail_calls.is_empty();
    let ids: Vec<String> = world_targets().iter().map(|t| t.identifier.clone()).collect();
    let diff = |v: &mut Vec<(String, String)>, key: &str, what: &str, view: &dyn Fn(&Rec) -> Value| {
        if !comparable {
            return;
        }
        for (k, rec) in s.out.recs.iter().enumerate() {
            let (x, y) = (view(&s.alone[k].recs[0]), view(rec));
            if x != y {
                v.push((format!("world:{key}"), format!("{what} of client {} depends on what else happens: served alone {x}; here {y}", ["A", "B"][k])));
            }
        }
    };
    match prop {
        "C01" => {
            diff(&mut v, "identity-depends-on-company", "the identity granted", &|r| kinds_view(r, &["LoginSuccess", "StoreCookie", "Transfer"]));
            for (k, rec) in s.out.recs.iter().enumerate() {
                let p = &s.plans[k];
                let may = !(p.takes_others_token || p.params.name.starts_with("Deny"));
                for pk in &rec.packets {
                    if let Pkt::LoginSuccess { name, .. } = pk {
                        if !may || *name != identity_of(p) {
                            v.push(("world:admitted-under-an-identity-nobody-vouched-for".into(), format!("client {} ({}) was sent Login Success as '{name}'; the only identity vouched for on that connection is {}", ["A", "B"][k], p.label, if may { identity_of(p) } else { "none".into() })));
                        }
                    }
                }
            }
            let mut allowed: Vec<String> = s.plans.iter().map(identity_of).collect();
            allowed.push("V_Zed".into());
            for name in s.out.log.filtered.iter().map(|(n, _)| n).chain(s.out.log.selected.iter().map(|(n, _, _)| n)) {
                if !allowed.contains(name) {
                    v.push(("world:routing-under-an-identity-nobody-vouched-for".into(), format!("filtering or selection was asked about player '{name}'; vouched identities: {allowed:?}")));
                }
            }
        }
        "C02" => {
            diff(&mut v, "authentication-skip-depends-on-company", "whether authentication is skipped", &|r| kinds_view(r, &["EncryptionRequest", "LoginSuccess"]));
            for (k, rec) in s.out.recs.iter().enumerate() {
                for pk in &rec.packets {
                    if let Pkt::EncryptionRequest { should_authenticate: false, .. } = pk {
                        if !(has_valid_cookie(&s.plans[k]) && s.cfg.secret && s.plans[k].params.intent == 3) {
                            v.push(("world:authentication-skipped-without-a-valid-cookie".into(), format!("client {} ({}) was told not to authenticate", ["A", "B"][k], s.plans[k].label)));
                        }
                    }
                }
            }
        }
        "C03" => {
            diff(&mut v, "transfer-depends-on-company", "the final Transfer or Disconnect", &|r| kinds_view(r, &["Transfer", "ConfDisconnect"]));
            let returned: Vec<&Vec<String>> = s.out.log.discovered.iter().flatten().collect();
            for (who, offered) in &s.out.log.filtered {
                if !returned.contains(&offered) {
                    v.push(("world:filters-offered-what-discovery-never-returned".into(), format!("the filters were offered {offered:?} for player {who}; discovery returned {:?}", s.out.log.discovered)));
                }
            }
            for (who, offered, _) in &s.out.log.selected {
                if *offered != ids {
                    v.push(("world:strategy-offered-what-the-filters-never-returned".into(), format!("the strategy was offered {offered:?} for player {who}; the filters returned {ids:?}")));
                }
            }
            for (k, rec) in s.out.recs.iter().enumerate() {
                let name = rec.packets.iter().find_map(|p| if let Pkt::LoginSuccess { name, .. } = p { Some(name.clone()) } else { None });
                for (i, pk) in rec.packets.iter().enumerate() {
                    if let Pkt::Transfer { host, port } = pk {
                        let want = name.as_deref().and_then(|n| world_choice(n, &world_targets()));
                        let ok = want.as_ref().is_some_and(|t| host.parse::<IpAddr>().ok() == Some(t.address.ip()) && *port == t.address.port() as i32);
                        if !ok || i + 1 != rec.packets.len() {
                            v.push(("world:transfer-is-not-the-strategys-choice".into(), format!("client {} was sent Transfer to {host}:{port} (packet {} of {}); the strategy chose {:?} for {name:?}", ["A", "B"][k], i + 1, rec.packets.len(), want.map(|t| t.address))));
                        }
                    }
                }
            }
            if !comparable {
                let ok_calls = s.out.log.discovered.iter().flatten().count();
                let transfers = s.out.recs.iter().filter(|r| r.packets.iter().any(|p| matches!(p, Pkt::Transfer { .. }))).count();
                if transfers > ok_calls {
                    v.push(("world:transfer-without-a-discovery-result".into(), format!("{transfers} clients were transferred, discovery answered {ok_calls} calls: {:?}", s.out.log.discovered)));
                }
            }
        }
        "C04" => {
            if s.out.panics > 0 {
                v.push(("world:panic".into(), format!("{} panics in the router's tasks", s.out.panics)));
            }
            if let Some(Err(e)) = &s.out.probe {
                v.push(("world:later-connection-not-served".into(), format!("a fresh status client that connected after these connections had ended was not served: {e}")));
            }
        }
        "C05" | "C09" => {
            for (k, rec) in s.out.recs.iter().enumerate() {
                for f in wire_faults(rec) {
                    v.push((if prop == "C05" { "world:stream-not-decryptable-as-frames" } else { "world:frame-is-not-a-protocol-packet" }.into(), format!("client {} ({}): {f}", ["A", "B"][k], s.plans[k].label)));
                }
            }
            if prop == "C05" {
                diff(&mut v, "encrypted-exchange-depends-on-company", "what the client could decrypt", &|r| full_view(r));
            }
        }
        "C06" => {
            for (k, rec) in s.out.recs.iter().enumerate() {
                if s.plans[k].status {
                    continue;
                }
                let kinds: Vec<&str> = rec.packets.iter().map(|p| p.kind()).collect();
                if let Some(f) = order_fault(rec) {
                    // a login Disconnect is no part of the order the statement lists; the router sends none on its own
                    v.push(("world:packet-out-of-protocol-order".into(), format!("client {} ({}): {f}", ["A", "B"][k], s.plans[k].label)));
                } else if kinds.contains(&"LoginSuccess") && !kinds.contains(&"EncryptionRequest") {
                    v.push(("world:login-success-without-encryption".into(), format!("client {}: {kinds:?}", ["A", "B"][k])));
                }
            }
            diff(&mut v, "replies-depend-on-company", "the sequence of replies", &|r| full_view(r));
        }
        "C08" => {
            diff(&mut v, "connection-depends-on-another-connection", "what the connection did", &|r| full_view(r));
            if !s.out.listener_returned {
                v.push(("world:listener-did-not-return".into(), "the listener had not returned 3 s after shutdown was requested although every client was gone".into()));
            }
        }
        "C10" => {
            diff(&mut v, "cookies-depend-on-company", "the cookies issued", &|r| kinds_view(r, &["StoreCookie", "EncryptionRequest"]));
            for (k, rec) in s.out.recs.iter().enumerate() {
                let name = rec.packets.iter().find_map(|p| if let Pkt::LoginSuccess { name, .. } = p { Some(name.clone()) } else { None });
                for pk in &rec.packets {
                    if let Pkt::StoreCookie { key, payload } = pk {
                        if key == "passage:authentication" {
                            let c = open_auth_cookie(payload, WORLD_SECRET);
                            let ip = if s.cfg.proxy { s.plans[k].announce.ip() } else { s.plans[k].bind_ip };
                            let addr_ok = c["body"]["client_addr"].as_str().and_then(|a| a.parse::<SocketAddr>().ok()).is_some_and(|a| a.ip() == ip);
                            if c["tag_ok"] != json!(true) || c["body"]["user_name"].as_str() != name.as_deref() || !addr_ok {
                                v.push(("world:issued-cookie-wrong".into(), format!("client {} ({}), admitted as {name:?} from {ip}, was issued {c}", ["A", "B"][k], s.plans[k].label)));
                            }
                        }
                    }
                }
            }
        }
        _ => {}
    }
    // whatever happened before - failures, refusals, clients that went away - an ordinary player who comes afterwards
    // is served in full, as himself
    if matches!(prop, "C01" | "C03" | "C04" | "C05" | "C06" | "C08" | "C10") {
        if let (Some(late), Some(want)) = (&s.out.late, expected_kinds(&s.cfg, &late_plan())) {
            let got: Vec<&str> = late.packets.iter().map(|p| p.kind()).filter(|k| *k != "KeepAlive").collect();
            let name = late.packets.iter().find_map(|p| if let Pkt::LoginSuccess { name, .. } = p { Some(name.as_str()) } else { None });
            let t = world_choice("V_Zed", &world_targets()).expect("target");
            let went = late.packets.iter().find_map(|p| if let Pkt::Transfer { host, port } = p { Some((host.parse::<IpAddr>().ok(), *port)) } else { None });
            if !kinds_ok(&got, &want, &late_plan()) || name != Some("V_Zed") || went != Some((Some(t.address.ip()), t.address.port() as i32)) || !wire_faults(late).is_empty() {
                v.push(("world:later-player-not-served-correctly".into(), format!("an ordinary player who logged in after the others were gone was answered with {got:?} as {name:?}, sent to {went:?} (stage {:?}, error {:?}); expected {want:?} as V_Zed, sent to {}", late.stage, late.error, t.address)));
            }
        }
    }
    // what every hosted property relies on: an honest, complete client is served in full
    if matches!(prop, "C01" | "C03" | "C05" | "C06" | "C08" | "C10") && s.plans.len() == 1 {
        if let Some(want) = expected_kinds(&s.cfg, &s.plans[0]) {
            let got: Vec<&str> = s.out.recs[0].packets.iter().map(|p| p.kind()).filter(|k| *k != "KeepAlive").collect();
            if !kinds_ok(&got, &want, &s.plans[0]) {
                v.push(("world:honest-client-not-served".into(), format!("{}: answered with {got:?} (stage {:?}, error {:?}, {}); expected {want:?}", s.plans[0].label, s.out.recs[0].stage, s.out.recs[0].error, s.out.recs[0].ended)));
            }
        }
    }
    v.sort();
    v.dedup();
    v
}

/// The stage-wise exploration as one section of a property's report.
pub fn host(rep: &common::Report, prop: &str, thorough: bool) {
    let bound = if thorough { 99 } else { 2 };
    let mut cfgs = world_cfgs();
    if prop == "C03" {
        cfgs.push(failing_discovery_cfg());
    }
    let visit = |s: &Situation| {
        let first = judge(prop, s);
        if first.is_empty() {
            return;
        }
        // A finding is confirmed before it is reported: the same schedule, and the same clients alone, are run once
        // more against fresh listeners, and only what is found both times counts. What the subject does wrong it does
        // wrong again (the harness is deterministic at this granularity); a hiccup of a busy machine - a reply that
        // took longer than a wait - does not come back.
        let again = Situation {
            cfg: s.cfg.clone(),
            plans: s.plans.clone(),
            schedule: s.schedule.clone(),
            out: run_local(run_schedule(&s.cfg, &s.plans, &s.schedule)),
            alone: s
                .plans
                .iter()
                .map(|p| {
                    let mut solo = p.clone();
                    if solo.takes_others_token {
                        solo.label.push_str(" (alone: 32 zero bytes)");
                    }
                    Arc::new(run_local(run_schedule(&s.cfg, std::slice::from_ref(&solo), &solo_schedule(&solo))))
                })
                .collect(),
        };
        let second = judge(prop, &again);
        for (k, t) in first {
            if second.iter().any(|(k2, _)| *k2 == k) {
                rep.violation(common::Violation { key: k, text: format!("{t}; situation: {}", s.describe()), replay: s.replay(), weight: 6_000_000 + s.schedule.len() as u64 });
            } else {
                rep.add("world_findings_not_confirmed_by_a_second_run", 1);
            }
        }
    };
    // every plan alone first (the references of the comparison are themselves judged)
    let mut solos = 0u64;
    for cfg in &cfgs {
        let mut plans = a_plans(cfg);
        plans.extend(b_plans(cfg));
        for p in plans {
            let out = run_local(run_schedule(cfg, std::slice::from_ref(&p), &solo_schedule(&p)));
            solos += 1;
            let again = Arc::new(run_local(run_schedule(cfg, std::slice::from_ref(&p), &solo_schedule(&p))));
            if cfg.fail_calls.is_empty() && full_view(&out.recs[0]) != full_view(&again.recs[0]) {
                // (the harness is deterministic on the unchanged tree - zero differences in thousands of schedules -;
                // if the subject itself answers the same client differently from run to run, the comparisons below
                // are not meaningful: said once, and the absolute oracles still apply)
                rep.inconclusive(&format!("world: two runs of the same client alone differ ({}): {} / {}", p.label, full_view(&out.recs[0]), full_view(&again.recs[0])));
            }
            visit(&Situation { cfg: cfg.clone(), plans: vec![p.clone()], schedule: solo_schedule(&p), out, alone: vec![again] });
        }
    }
    if matches!(prop, "C01" | "C03" | "C06" | "C08" | "C10") {
        let (logins, viols) = many_logins(if thorough { 3_000 } else { 400 });
        for (k, t, replay) in viols {
            rep.violation(common::Violation { key: k, text: t, replay, weight: 6_300_000 });
        }
        rep.set("world_logins_one_after_the_other_on_one_listener", json!(logins));
    }
    if prop == "C04" {
        let (crowd, viols) = crowd_after_idle(if thorough { 20_000 } else { 6_000 });
        for (k, t, replay) in viols {
            rep.violation(common::Violation { key: k, text: t, replay, weight: 6_400_000 });
        }
        rep.set("world_crowd_of_distinct_sources_after_an_idle_time", json!(crowd));
    }
    if prop == "C03" {
        let (logins, viols) = discovery_over_time();
        for (k, t, replay) in viols {
            rep.violation(common::Violation { key: k, text: t, replay, weight: 6_200_000 });
        }
        rep.set("world_logins_while_discovery_changes_and_fails", json!(logins));
    }
    let (jobs, runs) = explore_pairs(bound, &cfgs, &visit);
    let stops = explore_stops(&visit);
    rep.require("stage-wise schedules of two clients against the real Listener", runs, 300);
    rep.set("world_pairs_of_plans", json!(jobs));
    rep.set("world_schedules_of_two_clients", json!(runs));
    rep.set("world_shutdown_placements", json!(stops));
    rep.set("world_clients_alone", json!(solos));
    rep.set("world_switch_bound", json!(if thorough { "none (every merge of the two stage sequences)".to_string() } else { format!("{bound} switches between the two clients") }));
    rep.assume("world part: real TCP on loopback, one fresh Listener per schedule; a client's stage is complete when the packets that answer it have arrived, 4 ms are left between two actions; each client is compared with the same client served alone by a listener of the same configuration (Keep Alives and volatile fields - tokens, timestamps, session ids, ephemeral ports - aside)");
}

/// C07 among many: `n` players are inside slow routing at the same time (discovery answers nobody until every one
/// of them has echoed its first Keep Alive). Each of them must be sent a Keep Alive within 16 s of its Login Success
/// and must be transferred correctly once routing completes. Returns (players, violations).
pub fn crowd_kept_alive(n: usize) -> (u64, Vec<(String, String, Value)>) {
    let out: Mutex<Vec<(String, String, Value)>> = Mutex::new(vec![]);
    run_local(async {
        let adapters = Arc::new(WorldAdapters::new(vec![]));
        let gate = adapters.gate.clone();
        let cfg = ListenerCfg { timeout: Duration::from_secs(60), ..Default::default() };
        let running = start_listener_with(&cfg, adapters).await;
        let addr = running.addr;
        let echoed = Arc::new(AtomicUsize::new(0));
        let mut tasks = vec![];
        for i in 0..n {
            let echoed = echoed.clone();
            tasks.push(tokio::task::spawn_local(async move {
                let name = format!("Crowd{i}");
                let replay = json!({"world": {"crowd": n, "player": i}});
                let Ok(mut c) = McClient::connect(addr, Some("127.0.0.4".parse().unwrap())).await else { return Some(("world:crowd-connect-failed".to_string(), name, replay)) };
                let p = LoginParams { name: name.clone(), uuid: 0xc0 + i as u128, wait: Duration::from_secs(5), ..Default::default() };
                let mut o = LoginOutcome { packets: vec![], stage: Stage::Connected, error: None };
                c.login(&p, Stage::Connected, Stage::InConfiguration, &mut o).await;
                if o.error.is_some() {
                    echoed.fetch_add(1, Ordering::SeqCst);
                    return Some(("world:honest-client-not-served".to_string(), format!("{name}: {:?}", o.error), replay));
                }
                let t0 = std::time::Instant::now();
                let first = c.read_packet(Duration::from_millis(17_500)).await;
                let at = t0.elapsed();
                echoed.fetch_add(1, Ordering::SeqCst);
                match first {
                    Ok(Pkt::KeepAlive { id }) if at <= Duration::from_millis(17_000) => {
                        let _ = c.send(&common::refs::codec::sb_keep_alive(id)).await;
                    }
                    other => return Some(("world:waiting-player-not-kept-alive".to_string(), format!("{name}, one of {n} players inside slow routing at the same time, got {other:?} {at:?} after it entered the configuration phase; a Keep Alive is due within 16 s"), replay)),
                }
                let mut got = vec![];
                while let Ok(pk) = c.read_packet(Duration::from_secs(8)).await {
                    let end = matches!(pk, Pkt::Transfer { .. } | Pkt::ConfDisconnect { .. });
                    if let Pkt::KeepAlive { id } = &pk {
                        let _ = c.send(&common::refs::codec::sb_keep_alive(*id)).await;
                    }
                    got.push(pk);
                    if end {
                        break;
                    }
                }
                let want = world_choice(&vouched(&name), &world_targets()).expect("target");
                let ok = matches!(got.last(), Some(Pkt::Transfer { host, port }) if host.parse::<IpAddr>().ok() == Some(want.address.ip()) && *port == want.address.port() as i32);
                if !ok {
                    return Some(("world:waiting-player-not-routed".to_string(), format!("{name} echoed its Keep Alive, then routing completed: it got {:?}; the strategy's choice is {}", got.iter().map(|p| p.kind()).collect::<Vec<_>>(), want.address), replay));
                }
                None
            }));
        }
        // routing completes once everybody has had its first Keep Alive (or has given up waiting for it)
        let t0 = std::time::Instant::now();
        while echoed.load(Ordering::SeqCst) < n && t0.elapsed() < Duration::from_secs(25) {
            tokio::time::sleep(Duration::from_millis(50)).await;
        }
        tokio::time::sleep(Duration::from_millis(200)).await;
        gate.add_permits(n * 2);
        for t in tasks {
            if let Ok(Some(v)) = t.await {
                out.lock().unwrap().push(v);
            }
        }
        running.stop.cancel();
        let _ = tokio::time::timeout(Duration::from_secs(3), running.done).await;
    });
    (n as u64, out.into_inner().unwrap())
}

/// C03 over time: logins one after the other on one listener while every discovery call finds other servers and some
/// calls fail. Every login consults discovery itself; the filters are offered exactly what that call returned; the
/// player is transferred to the strategy's choice among them - or, when the call failed, not at all. What an earlier
/// login found, or that an earlier call failed, changes nothing for a later one.
pub fn discovery_over_time() -> (u64, Vec<(String, String, Value)>) {
    let mut out = vec![];
    let mut n = 0u64;
    for failing in [vec![], vec![0usize], vec![1], vec![2], vec![1, 2], vec![0, 1, 2], vec![0, 2]] {
        let label = format!("five logins one after the other, every discovery call finds other servers, calls {failing:?} fail");
        let v: Vec<(String, String)> = run_local(async {
            let mut v = vec![];
            let mut adapters = WorldAdapters::new(failing.clone());
            adapters.vary_by_call = true;
            adapters.gate.add_permits(1_000);
            let adapters = Arc::new(adapters);
            let log = adapters.log.clone();
            let running = start_listener_with(&ListenerCfg { timeout: Duration::from_secs(20), ..Default::default() }, adapters).await;
            for i in 0..5usize {
                let name = format!("Seq{i}");
                let calls_before = log.lock().unwrap().discovered.len();
                let Ok(mut c) = McClient::connect(running.addr, Some("127.0.0.5".parse().unwrap())).await else { continue };
                let p = LoginParams { name: name.clone(), uuid: 0x5e00 + i as u128, wait: Duration::from_millis(1500), ..Default::default() };
                let mut o = LoginOutcome { packets: vec![], stage: Stage::Connected, error: None };
                c.login(&p, Stage::Connected, Stage::Transferred, &mut o).await;
                let l = log.lock().unwrap().clone();
                let new_calls = &l.discovered[calls_before.min(l.discovered.len())..];
                let went = o.packets.iter().find_map(|p| if let Pkt::Transfer { host, port } = p { Some((host.parse::<IpAddr>().ok(), *port)) } else { None });
                let offered: Option<Vec<String>> = l.filtered.iter().rev().find(|(who, _)| *who == vouched(&name)).map(|(_, o)| o.clone());
                if new_calls.len() != 1 {
                    v.push(("world:discovery-not-consulted-for-this-login".into(), format!("login #{i}: {} discovery calls were made for it (the filters were offered {offered:?}, the player was sent to {went:?})", new_calls.len())));
                    continue;
                }
                match &new_calls[0] {
                    None => {
                        if went.is_some() || offered.is_some() {
                            v.push(("world:transfer-without-a-discovery-result".into(), format!("login #{i}: its discovery call failed, yet the filters were offered {offered:?} and the player was sent to {went:?}")));
                        }
                    }
                    Some(found) => {
                        let call = calls_before;
                        let want = world_choice(&vouched(&name), &targets_of_call(call)).expect("target");
                        if offered.as_ref() != Some(found) {
                            v.push(("world:filters-offered-what-discovery-never-returned".into(), format!("login #{i}: its discovery call returned {found:?}, the filters were offered {offered:?}")));
                        } else if went != Some((Some(want.address.ip()), want.address.port() as i32)) {
                            v.push(("world:transfer-is-not-the-strategys-choice".into(), format!("login #{i}: discovery returned {found:?}, the strategy chose {}, the player was sent to {went:?} (stage {:?}, error {:?})", want.address, o.stage, o.error)));
                        }
                    }
                }
            }
            running.stop.cancel();
            let _ = tokio::time::timeout(Duration::from_secs(2), running.done).await;
            v
        });
        n += 5;
        for (k, t) in v {
            out.push((k, format!("{label}: {t}"), json!({"world": {"discovery_over_time": failing}})));
        }
    }
    (n, out)
}

/// Accumulation in front of the real Listener: `n` players log in one after the other on one listener (PROXY
/// protocol, limiter, secret; every fifth comes from an address seen before, every seventh only asks for the
/// status first). Every one of them is served in full, as himself, and sent where the strategy chose.
pub fn many_logins(n: usize) -> (u64, Vec<(String, String, Value)>) {
    let mut out = vec![];
    run_local(async {
        let adapters = Arc::new(WorldAdapters::new(vec![]));
        adapters.gate.add_permits(n * 2 + 10);
        let cfg = ListenerCfg { proxy: Some((true, true)), limiter: Some((60, 1_000_000)), timeout: Duration::from_secs(20), auth_secret: Some(WORLD_SECRET.to_vec()), ..Default::default() };
        let running = start_listener_with(&cfg, adapters).await;
        for i in 0..n {
            let name = format!("Seq{i}");
            let src: SocketAddr = format!("198.18.{}.{}:{}", (i % 5 * 50 + i / 250) % 250, i % 250 + 1, 30_000 + i).parse().unwrap();
            let replay = json!({"world": {"many_logins": n, "index": i}});
            if i % 7 == 3 {
                if let Ok(mut c) = McClient::connect(running.addr, Some("127.0.0.6".parse().unwrap())).await {
                    let _ = c.send_raw(&proxy_v2(src, running.addr)).await;
                    if let Err(e) = c.status_exchange(Duration::from_millis(1500)).await {
                        out.push(("world:later-player-not-served-correctly".to_string(), format!("connection #{i} of {n} on one listener, a status exchange, failed: {e:?}"), replay.clone()));
                    }
                }
            }
            let Ok(mut c) = McClient::connect(running.addr, Some("127.0.0.6".parse().unwrap())).await else {
                out.push(("world:later-player-not-served-correctly".to_string(), format!("connection #{i} of {n} on one listener could not be opened"), replay));
                break;
            };
            let _ = c.send_raw(&proxy_v1(src, running.addr)).await;
            let p = LoginParams { name: name.clone(), uuid: 0x5e0000 + i as u128, wait: Duration::from_millis(1500), ..Default::default() };
            let mut o = LoginOutcome { packets: vec![], stage: Stage::Connected, error: None };
            c.login(&p, Stage::Connected, Stage::Transferred, &mut o).await;
            let got: Vec<&str> = o.packets.iter().map(|p| p.kind()).filter(|k| *k != "KeepAlive").collect();
            let who = o.packets.iter().find_map(|p| if let Pkt::LoginSuccess { name, .. } = p { Some(name.clone()) } else { None });
            let t = world_choice(&vouched(&name), &world_targets()).expect("target");
            let went = o.packets.iter().find_map(|p| if let Pkt::Transfer { host, port } = p { Some((host.parse::<IpAddr>().ok(), *port)) } else { None });
            let cookie_ok = o.packets.iter().any(|p| matches!(p, Pkt::StoreCookie { key, payload } if key == "passage:authentication" && { let c = open_auth_cookie(payload, WORLD_SECRET); c["tag_ok"] == json!(true) && c["body"]["user_name"] == json!(vouched(&name)) && c["body"]["client_addr"] == json!(src.to_string()) }));
            if common::one_cookie_request(&got) != ["LoginCookieRequest", "EncryptionRequest", "LoginSuccess", "StoreCookie", "StoreCookie", "Transfer"] || who.as_deref() != Some(vouched(&name).as_str()) || went != Some((Some(t.address.ip()), t.address.port() as i32)) || !cookie_ok {
                out.push(("world:later-player-not-served-correctly".to_string(), format!("connection #{i} of {n} on one listener (player {name} announced as {src}): answered with {got:?} as {who:?}, sent to {went:?}, cookie for him and his address: {cookie_ok} (stage {:?}, error {:?})", o.stage, o.error), replay));
                if out.len() > 3 {
                    break;
                }
            }
        }
        running.stop.cancel();
        let _ = tokio::time::timeout(Duration::from_secs(3), running.done).await;
    });
    (n as u64, out)
}

/// C04 at scale: whatever the listener keeps per client address - with a one second limiter window it is cleaned up
/// every two seconds - five early visitors, a pause of 2.3 s, then 6 000 clients announcing 6 000 different sources.
/// Nothing the crowd sends may crash a task of the router, and a later, ordinary client is served.
pub fn crowd_after_idle(n: usize) -> (u64, Vec<(String, String, Value)>) {
    install_panic_counter();
    let mut out = vec![];
    run_local(async {
        let before = PANICS.load(Ordering::SeqCst);
        let adapters = Arc::new(WorldAdapters::new(vec![]));
        let cfg = ListenerCfg { proxy: Some((true, true)), limiter: Some((1, 5)), timeout: Duration::from_secs(20), ..Default::default() };
        let running = start_listener_with(&cfg, adapters).await;
        let addr = running.addr;
        let visit = move |i: usize| async move {
            let src: SocketAddr = format!("10.{}.{}.{}:4000", 50 + i / 62_500, (i / 250) % 250, i % 250 + 1).parse().unwrap();
            let Ok(mut c) = McClient::connect(addr, Some("127.0.0.7".parse().unwrap())).await else { return false };
            let _ = c.send_raw(&proxy_v2(src, addr)).await;
            c.status_exchange(Duration::from_millis(1500)).await.is_ok()
        };
        for i in 0..5 {
            let _ = visit(i).await;
        }
        tokio::time::sleep(Duration::from_millis(2_300)).await;
        let mut tasks = vec![];
        let served = Arc::new(AtomicUsize::new(0));
        for t in 0..8usize {
            let served = served.clone();
            tasks.push(tokio::task::spawn_local(async move {
                let mut i = 100 + t;
                while i < 100 + n {
                    if visit(i).await {
                        served.fetch_add(1, Ordering::SeqCst);
                    }
                    i += 8;
                }
            }));
        }
        for t in tasks {
            let _ = t.await;
        }
        let late = visit(1_000_000).await;
        let panics = PANICS.load(Ordering::SeqCst) - before;
        let replay = json!({"world": {"crowd_after_idle": n}});
        if panics > 0 {
            out.push(("world:panic".to_string(), format!("{panics} panics in the router's tasks while {n} clients announcing {n} different sources came by (after five early visitors and an idle time of two limiter windows); {} of them were served", served.load(Ordering::SeqCst)), replay.clone()));
        }
        if !late {
            out.push(("world:later-connection-not-served".to_string(), format!("after {n} clients announcing {n} different sources, a fresh status client was not served ({} of the crowd were)", served.load(Ordering::SeqCst)), replay));
        }
        running.stop.cancel();
        let _ = tokio::time::timeout(Duration::from_secs(3), running.done).await;
    });
    (n as u64, out)
}
