//! E3: loopback peers around the real Listener and the real gRPC / HTTP / Agones adapters.
mod net;
mod world;
mod hosted;
mod app;
mod c01;
mod c02;
mod c08;
mod c09;
mod c11;
mod c12;
mod c13;
mod c14;
mod c15;
mod c16;
mod c17;
mod c18;
mod c19;
mod c20;

/// C04's allocation oracle (vsim's sweep, hosted here) needs the counting allocator to be the global one
#[global_allocator]
static GLOBAL: vsim::alloc::Counting = vsim::alloc::Counting;

fn main() {
    let args: Vec<String> = std::env::args().collect();
    if args.get(1).map(String::as_str) == Some("C14-child") {
        c14::child(&args[2..]);
        return;
    }
    if args.get(1).map(String::as_str) == Some("C14-child-read") {
        c14::child_read();
        return;
    }
    if args.get(1).map(String::as_str) == Some("WORLD-probe") {
        net::raise_fd_limit();
        let t = std::time::Instant::now();
        let bound: usize = args.get(2).and_then(|b| b.parse().ok()).unwrap_or(3);
        let diffs = std::sync::atomic::AtomicU64::new(0);
        let (jobs, runs) = world::explore_pairs(bound, &world::world_cfgs(), &|s| {
            for k in 0..2 {
                let (x, y) = (world::full_view(&s.alone[k].recs[0]), world::full_view(&s.out.recs[k]));
                if x != y || s.out.panics > 0 || !s.out.listener_returned {
                    if diffs.fetch_add(1, std::sync::atomic::Ordering::Relaxed) < 12 {
                        println!("DIFF client {k}: {}\n  alone: {x}\n  here:  {y}\n  panics {} returned {}", s.describe(), s.out.panics, s.out.listener_returned);
                    }
                }
            }
        });
        println!("pairs: jobs {jobs} runs {runs} diffs {} in {:?}", diffs.load(std::sync::atomic::Ordering::Relaxed), t.elapsed());
        let t = std::time::Instant::now();
        let runs = world::explore_stops(&|s| {
            let (x, y) = (world::full_view(&s.alone[0].recs[0]), world::full_view(&s.out.recs[0]));
            if x != y || s.out.panics > 0 || !s.out.listener_returned {
                println!("STOP-DIFF: {}\n  alone: {x}\n  here:  {y}\n  panics {} returned {}", s.describe(), s.out.panics, s.out.listener_returned);
            }
        });
        println!("stops: runs {runs} in {:?}", t.elapsed());
        return;
    }
    if std::env::args().nth(1).as_deref() == Some("C04-after-disconnect") {
        std::panic::set_hook(Box::new(|_| {}));
        vsim::c04::after_final_disconnect_child();
        return;
    }
    let cli = common::cli();
    net::raise_fd_limit();
    match cli.id.as_str() {
        "C01" => c01::run(cli),
        "C02" => c02::run(cli),
        "C03" | "C04" | "C05" | "C06" | "C07" | "C10" => hosted::run(cli),
        "C08" => c08::run(cli),
        "C09" => c09::run(cli),
        "C11" => c11::run(cli),
        "C12" => c12::run(cli),
        "C13" => c13::run(cli),
        "C14" => c14::run(cli),
        "C15" => c15::run(cli),
        "C16" => c16::run(cli),
        "C17" => c17::run(cli),
        "C18" => c18::run(cli),
        "C19" => c19::run(cli),
        "C20" => c20::run(cli),
        other => common::machinery(&format!("netsim does not serve {other}")),
    }
}
