//! E3: loopback peers around the real Listener and the real gRPC / HTTP / Agones adapters.
mod net;
mod c01;
mod c02;
mod c08;
mod c09;
mod c11;
mod c12;
mod c13;
mod c14;
mod c15;
mod c16;
mod c17;
mod c18;
mod c19;
mod c20;

fn main() {
    let args: Vec<String> = std::env::args().collect();
    if args.get(1).map(String::as_str) == Some("C14-child") {
        c14::child(&args[2..]);
        return;
    }
    if args.get(1).map(String::as_str) == Some("C14-child-read") {
        c14::child_read();
        return;
    }
    let cli = common::cli();
    net::raise_fd_limit();
    match cli.id.as_str() {
        "C01" => c01::run(cli),
        "C02" => c02::run(cli),
        "C08" => c08::run(cli),
        "C09" => c09::run(cli),
        "C11" => c11::run(cli),
        "C12" => c12::run(cli),
        "C13" => c13::run(cli),
        "C14" => c14::run(cli),
        "C15" => c15::run(cli),
        "C16" => c16::run(cli),
        "C17" => c17::run(cli),
        "C18" => c18::run(cli),
        "C19" => c19::run(cli),
        "C20" => c20::run(cli),
        other => common::machinery(&format!("netsim does not serve {other}")),
    }
}
