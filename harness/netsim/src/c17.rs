//! C17: shutdown drains in-flight connections and serves no new ones.
//!
//! Schedules: two in-flight connections, each at one of seven progress points, when the stop is
//! requested; a new connection is attempted at one of three later moments; then the in-flight
//! connections are driven to completion. Every observation is taken at a barrier.
use crate::net::*;
use common::refs::codec::Pkt;
use common::{Cli, Report, Violation, par_for};
use serde::{Deserialize, Serialize};
use serde_json::json;
use std::net::SocketAddr;
use std::sync::Arc;
use std::sync::atomic::{AtomicU64, Ordering};
use std::time::{Duration, Instant};
use tokio::sync::Semaphore;

const POINTS: [&str; 7] = ["accepted-nothing-sent", "handshake-sent", "login-start-sent", "encryption-request-received", "login-success-received", "waiting-for-slow-backend", "backend-done-transfer-unread"];

fn point_name(spec_proxy: bool, p: usize) -> String {
    if spec_proxy && p == 0 { "accepted-proxy-header-not-yet-sent".to_string() } else { POINTS[p].to_string() }
}

#[derive(Clone, Debug, Serialize, Deserialize, PartialEq)]
pub struct Spec {
    a: usize,
    /// usize::MAX = there is no second in-flight connection
    b: usize,
    /// 0 = immediately after the stop, 1 = after A finished, 2 = after both finished
    new_conn_at: usize,
    /// A never cooperates; the connection timeout (1 s) must bound the shutdown
    a_stalls: bool,
    /// run through passage::start + SIGINT instead of a bare Listener
    via_start: bool,
    /// PROXY protocol enabled: every client announces a source first (at point 0 the header is still outstanding)
    #[serde(default)]
    proxy: bool,
    /// the in-flight connection keeps waiting for its backend this long (real time) after the stop
    #[serde(default)]
    drain_ms: u64,
    /// a third connection F (a status client) is in progress when the stop is requested and comes to a bad end
    /// during the drain: status-backend-panics | status-backend-fails | sends-garbage | hangs-up. The
    /// cooperating connection A must not notice.
    #[serde(default)]
    fault: Option<String>,
    /// the configured connection timeout is too large for the clock ("no deadline"): the drain is then bounded
    /// by the clients alone
    #[serde(default)]
    no_deadline: bool,
}

struct InFlight {
    client: McClient,
    out: LoginOutcome,
    point: usize,
}

async fn drive_to(server: SocketAddr, point: usize, gate: &Arc<Semaphore>, peer: &str, proxy: bool) -> Option<InFlight> {
    let mut c = McClient::connect(server, Some(peer.parse().unwrap())).await.ok()?;
    if proxy && point > 0 {
        let src: SocketAddr = format!("203.0.113.{}:5555", peer.rsplit('.').next().unwrap()).parse().unwrap();
        c.send_raw(&proxy_v2(src, server)).await.ok()?;
    }
    let mut out = LoginOutcome { packets: vec![], stage: Stage::Connected, error: None };
    let p = LoginParams { wait: Duration::from_secs(5), ..Default::default() };
    let until = match point {
        0 => Stage::Connected,
        1 => Stage::HandshakeSent,
        2 => Stage::LoginStartSent,
        3 => Stage::EncryptionRequestReceived,
        4 => Stage::LoginSuccessReceived,
        _ => Stage::InConfiguration,
    };
    c.login(&p, Stage::Connected, until, &mut out).await;
    if out.error.is_some() {
        return None;
    }
    if point <= 1 {
        // no reply is due yet. The connection has to be in progress - accepted, not still in the kernel's backlog -
        // when the stop is requested, and no amount of waiting proves that on a busy machine. A barrier does:
        // connections are accepted in the order in which they were made, so once a probe that connected later
        // has been served, this one has been accepted.
        let mut probe = McClient::connect(server, Some("127.0.0.6".parse().unwrap())).await.ok()?;
        if proxy {
            probe.send_raw(&proxy_v2("203.0.113.6:5555".parse().unwrap(), server)).await.ok()?;
        }
        probe.status_exchange(Duration::from_secs(3)).await.ok()?;
        drop(probe);
        tokio::time::sleep(Duration::from_millis(5)).await;
    }
    if point == 6 {
        gate.add_permits(1);
        // the Transfer is on its way; it is deliberately not read yet
        tokio::time::sleep(Duration::from_millis(20)).await;
    }
    Some(InFlight { client: c, out, point })
}

/// attempts a fresh connection; returns a description if it received any protocol byte
async fn new_connection_served(server: SocketAddr, proxy: bool) -> Option<String> {
    let Ok(mut c) = McClient::connect(server, Some("127.0.0.4".parse().unwrap())).await else { return None };
    if proxy {
        let _ = c.send_raw(&proxy_v1("203.0.113.4:5555".parse().unwrap(), server)).await;
    }
    match c.status_exchange(Duration::from_millis(300)).await {
        Ok(_) => Some("a connection opened after the stop request completed a status exchange".into()),
        Err(_) if c.received > 0 => Some(format!("a connection opened after the stop request received {} bytes", c.received)),
        Err(_) => None,
    }
}

fn kinds(out: &LoginOutcome) -> Vec<&'static str> {
    out.packets.iter().filter(|p| !matches!(p, Pkt::KeepAlive { .. })).map(|p| p.kind()).collect()
}

const BASELINE: [&str; 5] = ["LoginCookieRequest", "EncryptionRequest", "LoginSuccess", "StoreCookie", "Transfer"];

fn run_schedule(spec: &Spec) -> Vec<(String, String)> {
    // a schedule whose set-up (bringing the in-flight connections to their progress points) does not
    // succeed says nothing about the property: it is retried, and only then reported as a machinery error
    for _ in 0..3 {
        if let Some(v) = run_schedule_once(spec) {
            return v;
        }
    }
    // (reported as a machinery error at the end of the run, unless another schedule shows a violation)
    vec![("machinery:setup".into(), format!("could not bring the in-flight connections of schedule {} to their progress points in three attempts", serde_json::to_string(spec).unwrap_or_default()))]
}

/// A (cooperating, at point spec.a) and F (a status client whose handshake has been sent) are in progress;
/// stop; F comes to its bad end; A is driven to completion and must receive what an undisturbed login
/// receives; then listen() must return.
fn run_fault_schedule_once(spec: &Spec) -> Option<Vec<(String, String)>> {
    let fault = spec.fault.clone().unwrap_or_default();
    run_local(async {
        let mut v: Vec<(String, String)> = vec![];
        let mut adapters = NetAdapters::new();
        let gate = Arc::new(Semaphore::new(0));
        adapters.gate = Some(gate.clone());
        let f_ip: std::net::IpAddr = "127.0.0.5".parse().unwrap();
        match fault.as_str() {
            "status-backend-panics" => adapters.panic_ips = vec![f_ip],
            "status-backend-fails" => adapters.fail_ips = vec![f_ip],
            _ => {}
        }
        let cfg = ListenerCfg { timeout: Duration::from_secs(30), ..Default::default() };
        let running = start_listener(&cfg, adapters).await;
        let Some(mut a) = drive_to(running.addr, spec.a, &gate, "127.0.0.2", false).await else {
            running.stop.cancel();
            return None;
        };
        let Ok(mut f) = McClient::connect(running.addr, Some(f_ip)).await else {
            running.stop.cancel();
            return None;
        };
        if f.send(&common::refs::codec::sb_handshake(769, "faulty.example", 25565, 1)).await.is_err() {
            running.stop.cancel();
            return None;
        }
        tokio::time::sleep(Duration::from_millis(25)).await;
        running.stop.cancel();
        tokio::time::sleep(Duration::from_millis(30)).await;
        let mut done = running.done;
        if done.is_finished() {
            v.push(("listener-returned-with-connections-in-flight".into(), "listen() returned right after the stop although two connections are in progress".into()));
        }
        // ---- F comes to its bad end during the drain
        match fault.as_str() {
            "status-backend-panics" | "status-backend-fails" => {
                let _ = f.send(&common::refs::codec::sb_status_request()).await;
            }
            "sends-garbage" => {
                let _ = f.send_raw(&[0xff, 0xff, 0xff, 0xff, 0xff, 0x01, 0x02]).await;
            }
            _ => drop(f.stream.set_linger(Some(Duration::ZERO))),
        }
        if fault == "hangs-up" {
            drop(f);
        } else {
            let _ = f.wait_closed(Duration::from_millis(500)).await;
        }
        tokio::time::sleep(Duration::from_millis(30)).await;
        if spec.a < 6 && done.is_finished() {
            v.push(("listener-returned-with-connections-in-flight".into(), format!("listen() returned when another connection ended badly ({fault}) although A ({}) is unfinished", POINTS[spec.a])));
        }
        // ---- A is driven to completion
        gate.add_permits(2);
        let p = LoginParams { wait: Duration::from_secs(2), ..Default::default() };
        let from = a.out.stage;
        a.client.login(&p, from, Stage::Transferred, &mut a.out).await;
        if a.out.stage != Stage::Transferred || kinds(&a.out) != BASELINE {
            v.push((format!("in-flight-connection-not-completed:{}:other-connection-{fault}", POINTS[a.point]), format!("A (at '{}' when the stop was requested) received {:?}, stage {:?}, error {:?} after another in-flight connection ended badly ({fault}); an undisturbed login receives {BASELINE:?}", POINTS[a.point], kinds(&a.out), a.out.stage, a.out.error)));
        }
        let _ = a.client.wait_closed(Duration::from_secs(2)).await;
        match tokio::time::timeout(Duration::from_secs(2), &mut done).await {
            Ok(Ok(Ok(()))) => {}
            Ok(other) => v.push(("listener-failed".into(), format!("after another connection ended badly ({fault}): {other:?}"))),
            Err(_) => v.push(("listener-does-not-return-after-drain".into(), format!("listen() had not returned 2 s after the last in-flight connection finished ({fault})"))),
        }
        Some(v)
    })
}

/// PROXY protocol on, connection timeout 3 s: A sends its header only 2.4 s after it was accepted (then a
/// handshake, or nothing) and stalls; shutdown is requested right after the header. The drain is bounded by the
/// connection timeout counted from the moment A was accepted: listen() must have returned 3 s (+ 1 s allowance)
/// after the accept, not later.
fn run_late_header_once(spec: &Spec) -> Option<Vec<(String, String)>> {
    run_local(async {
        let mut v: Vec<(String, String)> = vec![];
        let timeout = Duration::from_secs(3);
        let cfg = ListenerCfg { timeout, proxy: Some((true, true)), ..Default::default() };
        let running = start_listener(&cfg, NetAdapters::new()).await;
        let Ok(mut c) = McClient::connect(running.addr, Some("127.0.0.2".parse().unwrap())).await else {
            running.stop.cancel();
            return None;
        };
        let accepted = Instant::now();
        tokio::time::sleep(Duration::from_millis(2_400)).await;
        let _ = c.send_raw(&proxy_v2("203.0.113.2:5555".parse().unwrap(), running.addr)).await;
        if spec.a >= 1 {
            let _ = c.send(&common::refs::codec::sb_handshake(769, "late.example", 25565, 2)).await;
        }
        tokio::time::sleep(Duration::from_millis(50)).await;
        running.stop.cancel();
        let mut done = running.done;
        let left = (timeout + Duration::from_secs(1)).saturating_sub(accepted.elapsed());
        match tokio::time::timeout(left, &mut done).await {
            Ok(Ok(Ok(()))) => {}
            Ok(other) => v.push(("listener-failed".into(), format!("{other:?}"))),
            Err(_) => v.push(("shutdown-not-bounded-by-connection-timeout".into(), format!("a client that sent its PROXY header 2.4 s after it was accepted and then stalled kept listen() from returning until more than {:?} after the accept; the connection timeout is {timeout:?}", accepted.elapsed()))),
        }
        Some(v)
    })
}

/// Accumulation before the stop: A is in flight (at its point), then 2 500 short-lived connections come and go,
/// then shutdown is requested: listen() still waits for A, A still completes.
fn run_crowd_before_stop_once(spec: &Spec) -> Option<Vec<(String, String)>> {
    run_local(async {
        let mut v: Vec<(String, String)> = vec![];
        let mut adapters = NetAdapters::new();
        let gate = Arc::new(Semaphore::new(0));
        adapters.gate = Some(gate.clone());
        let cfg = ListenerCfg { timeout: Duration::from_secs(30), ..Default::default() };
        let running = start_listener(&cfg, adapters).await;
        let Some(mut a) = drive_to(running.addr, spec.a, &gate, "127.0.0.2", false).await else {
            running.stop.cancel();
            return None;
        };
        for i in 0..2_500usize {
            match McClient::connect(running.addr, Some("127.0.0.3".parse().unwrap())).await {
                Ok(mut c) => {
                    if i % 50 == 0 {
                        let _ = c.status_exchange(Duration::from_millis(500)).await;
                    }
                }
                Err(_) => break,
            }
        }
        tokio::time::sleep(Duration::from_millis(50)).await;
        running.stop.cancel();
        tokio::time::sleep(Duration::from_millis(150)).await;
        let mut done = running.done;
        if done.is_finished() {
            v.push(("listener-returned-with-connections-in-flight".into(), format!("listen() returned right after the stop although A ({}) is unfinished (2 500 short-lived connections had come and gone since A connected)", point_name(false, spec.a))));
        }
        gate.add_permits(2);
        let p = LoginParams { wait: Duration::from_secs(2), ..Default::default() };
        let from = a.out.stage;
        a.client.login(&p, from, Stage::Transferred, &mut a.out).await;
        if a.out.stage != Stage::Transferred || kinds(&a.out) != BASELINE {
            v.push((format!("in-flight-connection-not-completed:{}", point_name(false, a.point)), format!("A (at '{}' when the stop was requested, 2 500 connections after it connected) received {:?}, stage {:?}, error {:?}", point_name(false, a.point), kinds(&a.out), a.out.stage, a.out.error)));
        }
        let _ = a.client.wait_closed(Duration::from_secs(2)).await;
        match tokio::time::timeout(Duration::from_secs(2), &mut done).await {
            Ok(Ok(Ok(()))) => {}
            Ok(other) => v.push(("listener-failed".into(), format!("{other:?}"))),
            Err(_) => v.push(("listener-does-not-return-after-drain".into(), "listen() had not returned 2 s after the last in-flight connection finished".into())),
        }
        Some(v)
    })
}

fn run_schedule_once(spec: &Spec) -> Option<Vec<(String, String)>> {
    if spec.fault.as_deref() == Some("crowd-before-stop") {
        return run_crowd_before_stop_once(spec);
    }
    if spec.fault.as_deref() == Some("late-header-then-stalls") {
        return run_late_header_once(spec);
    }
    if spec.fault.is_some() {
        return run_fault_schedule_once(spec);
    }
    run_local(async {
        let mut v: Vec<(String, String)> = vec![];
        let mut adapters = NetAdapters::new();
        let gate = Arc::new(Semaphore::new(0));
        adapters.gate = Some(gate.clone());
        let timeout = if spec.no_deadline { Duration::from_secs(u64::MAX) } else if spec.a_stalls { Duration::from_secs(1) } else { Duration::from_secs(30) };
        let cfg = ListenerCfg { timeout, proxy: spec.proxy.then_some((true, true)), ..Default::default() };
        let running = start_listener(&cfg, adapters).await;
        let Some(mut a) = drive_to(running.addr, spec.a, &gate, "127.0.0.2", spec.proxy).await else {
            running.stop.cancel();
            return None;
        };
        let mut b = if spec.b == usize::MAX {
            None
        } else {
            match drive_to(running.addr, spec.b, &gate, "127.0.0.3", spec.proxy).await {
                Some(b) => Some(b),
                None => {
                    running.stop.cancel();
                    return None;
                }
            }
        };
        let accept_started = Instant::now();
        // ---- stop
        running.stop.cancel();
        tokio::time::sleep(Duration::from_millis(30)).await;
        let mut done = running.done;
        let finished = |d: &tokio::task::JoinHandle<Result<(), String>>| d.is_finished();
        // a connection whose Transfer was already sent is finished as far as the server is concerned
        let a_open = spec.a < 6;
        let b_open = b.is_some() && spec.b < 6;
        if (a_open || b_open) && finished(&done) {
            v.push(("listener-returned-with-connections-in-flight".into(), format!("listen() returned right after the stop although A ({}) {} unfinished", point_name(spec.proxy, spec.a), if b.is_some() { "and B are" } else { "is" })));
        }
        if spec.new_conn_at == 0 {
            if let Some(t) = new_connection_served(running.addr, spec.proxy).await {
                v.push(("new-connection-served-after-stop".into(), t));
            }
        }
        let p = LoginParams { wait: Duration::from_secs(2), ..Default::default() };
        if spec.a_stalls {
            // A stays where it is; the connection timeout has to end it
            let r = tokio::time::timeout(timeout + Duration::from_secs(2), &mut done).await;
            match r {
                Ok(Ok(Ok(()))) => {
                    if accept_started.elapsed() + Duration::from_millis(200) < timeout && spec.a >= 1 {
                        // finishing early is only fine if A was really over
                        let closed = a.client.wait_closed(Duration::from_millis(200)).await.is_ok();
                        if !closed {
                            v.push(("listener-returned-with-connections-in-flight".into(), "listen() returned before the stalled connection was closed".into()));
                        }
                    }
                }
                Ok(other) => v.push(("listener-failed".into(), format!("{other:?}"))),
                Err(_) => v.push(("shutdown-not-bounded-by-connection-timeout".into(), format!("a non-cooperating client at '{}' kept listen() from returning for more than timeout + 2 s", point_name(spec.proxy, spec.a)))),
            }
            return Some(v);
        }
        if spec.drain_ms > 0 {
            // the backend stays slow: the drain has to last (the connection timeout is 30 s)
            tokio::time::sleep(Duration::from_millis(spec.drain_ms)).await;
            if finished(&done) {
                v.push(("listener-returned-with-connections-in-flight".into(), format!("listen() returned during a drain of {} ms although A ({}) is still waiting for its backend and the connection timeout is {timeout:?}", spec.drain_ms, point_name(spec.proxy, spec.a))));
            }
        }
        // ---- drive A to completion (cooperating); the slow backend answers everybody from now on
        gate.add_permits(2);
        if spec.proxy && spec.a == 0 {
            let _ = a.client.send_raw(&proxy_v2("203.0.113.2:5555".parse().unwrap(), running.addr)).await;
        }
        let from = a.out.stage;
        a.client.login(&p, from, Stage::Transferred, &mut a.out).await;
        if a.out.stage != Stage::Transferred || kinds(&a.out) != BASELINE {
            v.push((format!("in-flight-connection-not-completed:{}", point_name(spec.proxy, a.point)), format!("A (at '{}' when the stop was requested) received {:?}, stage {:?}, error {:?}; an undisturbed login receives {BASELINE:?}", point_name(spec.proxy, a.point), kinds(&a.out), a.out.stage, a.out.error)));
        }
        let _ = a.client.wait_closed(Duration::from_secs(2)).await;
        if b_open && finished(&done) {
            v.push(("listener-returned-with-connections-in-flight".into(), "listen() returned after A finished although B is unfinished".into()));
        }
        if spec.new_conn_at == 1 {
            if let Some(t) = new_connection_served(running.addr, spec.proxy).await {
                v.push(("new-connection-served-after-stop".into(), t));
            }
        }
        if let Some(b) = b.as_mut() {
            if spec.proxy && spec.b == 0 {
                let _ = b.client.send_raw(&proxy_v2("203.0.113.3:5555".parse().unwrap(), running.addr)).await;
            }
            let from = b.out.stage;
            b.client.login(&p, from, Stage::Transferred, &mut b.out).await;
            if b.out.stage != Stage::Transferred || kinds(&b.out) != BASELINE {
                v.push((format!("in-flight-connection-not-completed:{}", point_name(spec.proxy, b.point)), format!("B (at '{}' when the stop was requested) received {:?}, stage {:?}, error {:?}", point_name(spec.proxy, b.point), kinds(&b.out), b.out.stage, b.out.error)));
            }
            let _ = b.client.wait_closed(Duration::from_secs(2)).await;
        }
        // ---- now listen() must return
        match tokio::time::timeout(Duration::from_secs(2), &mut done).await {
            Ok(Ok(Ok(()))) => {}
            Ok(other) => v.push(("listener-failed".into(), format!("{other:?}"))),
            Err(_) => v.push(("listener-does-not-return-after-drain".into(), "listen() had not returned 2 s after the last in-flight connection finished".into())),
        }
        if spec.new_conn_at == 2 {
            if let Some(t) = new_connection_served(running.addr, spec.proxy).await {
                v.push(("new-connection-served-after-stop".into(), t));
            }
        }
        Some(v)
    })
}

/// the same idea through the application's entry point: passage::start + SIGINT
fn run_via_start(spec: &Spec) -> Vec<(String, String)> {
    for _ in 0..3 {
        if let Some(v) = run_via_start_once(spec) {
            return v;
        }
    }
    vec![("machinery:setup".into(), "could not bring connection A to its progress point in three attempts (passage::start)".into())]
}

fn run_via_start_once(spec: &Spec) -> Option<Vec<(String, String)>> {
    let port = free_port();
    let exe = common::self_exe();
    let mut child = std::process::Command::new(exe)
        .args(["C14-child", &port.to_string(), "10000", "60", "30"])
        .stdout(std::process::Stdio::null())
        .stderr(std::process::Stdio::null())
        .spawn()
        .expect("spawn");
    let addr: SocketAddr = format!("127.0.0.1:{port}").parse().unwrap();
    // (the child itself holds the listening socket: see `net::wait_until_listening`)
    let up = wait_until_listening(&mut child, port);
    if !up {
        let _ = child.kill();
        common::machinery("passage::start did not come up");
    }
    let pid = child.id() as i32;
    let set_up = run_local(async {
        let mut v = vec![];
        let gate = Arc::new(Semaphore::new(0));
        let Some(mut a) = drive_to(addr, spec.a.min(4), &gate, "127.0.0.2", false).await else {
            return None;
        };
        unsafe {
            libc::kill(pid, libc::SIGINT);
        }
        tokio::time::sleep(Duration::from_millis(100)).await;
        if let Some(t) = new_connection_served(addr, false).await {
            v.push(("new-connection-served-after-stop".into(), format!("(passage::start + SIGINT) {t}")));
        }
        let p = LoginParams { wait: Duration::from_secs(2), ..Default::default() };
        let from = a.out.stage;
        a.client.login(&p, from, Stage::Transferred, &mut a.out).await;
        if a.out.stage != Stage::Transferred {
            v.push((format!("in-flight-connection-not-completed:{}", point_name(spec.proxy, a.point)), format!("(passage::start + SIGINT) A received {:?}, error {:?}", kinds(&a.out), a.out.error)));
        }
        Some(v)
    });
    let Some(mut v) = set_up else {
        let _ = child.kill();
        let _ = child.wait();
        return None;
    };
    let t0 = Instant::now();
    loop {
        match child.try_wait() {
            Ok(Some(st)) => {
                if st.code() != Some(0) {
                    v.push(("ctrl-c-does-not-stop-cleanly".into(), format!("exit status {st:?}")));
                }
                break;
            }
            _ if t0.elapsed() > Duration::from_secs(3) => {
                let _ = child.kill();
                let _ = child.wait();
                v.push(("listener-does-not-return-after-drain".into(), "(passage::start + SIGINT) the process was still running 3 s after the last connection finished".into()));
                break;
            }
            _ => std::thread::sleep(Duration::from_millis(20)),
        }
    }
    Some(v)
}

/// A client that has received its Transfer - its connection has run to its normal completion - does not hang up and
/// keeps sending packets: the drain is still bounded by the connection timeout (2 s here), counted from the accept.
fn client_that_keeps_talking_after_its_transfer() -> Vec<(String, String)> {
    run_local(async {
        let mut v = vec![];
        let cfg = ListenerCfg { timeout: Duration::from_secs(2), ..Default::default() };
        let running = start_listener(&cfg, NetAdapters::new()).await;
        let t0 = Instant::now();
        let Ok(mut c) = McClient::connect(running.addr, Some("127.0.0.2".parse().unwrap())).await else { return v };
        let mut out = LoginOutcome { packets: vec![], stage: Stage::Connected, error: None };
        c.login(&LoginParams { wait: Duration::from_secs(2), ..Default::default() }, Stage::Connected, Stage::Transferred, &mut out).await;
        if out.stage != Stage::Transferred {
            // (a slow machine: the 2 s were over before the login was; nothing to judge)
            running.stop.cancel();
            return v;
        }
        running.stop.cancel();
        let talk = async {
            loop {
                let _ = c.send(&common::refs::codec::sb_keep_alive(1)).await;
                tokio::time::sleep(Duration::from_millis(100)).await;
            }
        };
        let bound = (Duration::from_millis(3_500)).saturating_sub(t0.elapsed());
        tokio::select! {
            r = tokio::time::timeout(bound, running.done) => {
                if r.is_err() {
                    v.push(("shutdown-not-bounded-by-connection-timeout:client-keeps-talking-after-its-transfer".into(), format!("a client that received its Transfer and then kept sending a packet every 100 ms without hanging up kept listen() from returning for more than {:?} after it connected; the connection timeout is 2 s", t0.elapsed())));
                }
            }
            _ = talk => {}
        }
        v
    })
}

pub fn run(cli: Cli) -> ! {
    // the backend panic of the fault schedules is part of the scenario: keep it out of the output
    let prev = std::panic::take_hook();
    std::panic::set_hook(Box::new(move |info| {
        if !info.to_string().contains("(on purpose)") {
            prev(info)
        }
    }));
    let rep = Report::new("C17", cli.tier, "model_checking");
    if let Some(case) = cli.replay.clone() {
        let spec: Spec = serde_json::from_value(case["spec"].clone()).unwrap_or_else(|e| common::machinery(&format!("bad replay: {e}")));
        let v = if spec.via_start { run_via_start(&spec) } else { run_schedule(&spec) };
        println!("schedule {spec:?}");
        for (k, t) in v {
            println!("{k}: {t}");
            rep.violation(Violation { key: k, text: t, replay: case.clone(), weight: 0 });
        }
        rep.set("states", json!(1));
        rep.set("transitions", json!(1));
        rep.set("traces_validated_against_impl", json!(1));
        rep.finish();
    }
    let thorough = cli.tier.thorough();
    let mut specs = vec![];
    for a in 0..7 {
        for m in 0..3 {
            specs.push(Spec { a, b: usize::MAX, new_conn_at: m, a_stalls: false, via_start: false, proxy: false, drain_ms: 0, fault: None, no_deadline: false });
            specs.push(Spec { a, b: a, new_conn_at: m, a_stalls: false, via_start: false, proxy: false, drain_ms: 0, fault: None, no_deadline: false });
            if thorough {
                for b in 0..7 {
                    if b != a {
                        specs.push(Spec { a, b, new_conn_at: m, a_stalls: false, via_start: false, proxy: false, drain_ms: 0, fault: None, no_deadline: false });
                    }
                }
            }
        }
    }
    if !thorough {
        for (a, b) in [(0, 6), (6, 0), (5, 2), (3, 5)] {
            specs.push(Spec { a, b, new_conn_at: 1, a_stalls: false, via_start: false, proxy: false, drain_ms: 0, fault: None, no_deadline: false });
        }
    }
    // the same placements with PROXY protocol enabled (point 0 = accepted, header still outstanding)
    let plain: Vec<Spec> = specs.clone();
    for s in plain {
        if thorough || s.b == usize::MAX || s.a == 0 || s.b == 0 {
            specs.push(Spec { proxy: true, ..s });
        }
    }
    for a in [0, 3, 5] {
        specs.push(Spec { a, b: usize::MAX, new_conn_at: 0, a_stalls: true, via_start: false, proxy: false, drain_ms: 0, fault: None, no_deadline: false });
    }
    specs.push(Spec { a: 0, b: usize::MAX, new_conn_at: 0, a_stalls: true, via_start: false, proxy: true, drain_ms: 0, fault: None, no_deadline: false });
    for a in [0, 2, 4] {
        specs.push(Spec { a, b: usize::MAX, new_conn_at: 0, a_stalls: false, via_start: true, proxy: false, drain_ms: 0, fault: None, no_deadline: false });
    }
    // no deadline at all (a timeout the clock cannot represent): stop, drain, return
    for (a, b) in [(0usize, usize::MAX), (3, usize::MAX), (5, 2)] {
        specs.push(Spec { a, b, new_conn_at: 1, a_stalls: false, via_start: false, proxy: false, drain_ms: 0, fault: None, no_deadline: true });
    }
    // another in-flight connection comes to a bad end during the drain
    for fault in ["status-backend-panics", "status-backend-fails", "sends-garbage", "hangs-up"] {
        for a in if thorough { vec![0usize, 1, 2, 3, 4, 5] } else { vec![3usize, 5] } {
            specs.push(Spec { a, b: usize::MAX, new_conn_at: 0, a_stalls: false, via_start: false, proxy: false, drain_ms: 0, fault: Some(fault.into()), no_deadline: false });
        }
    }
    for a in [0usize, 1] {
        specs.push(Spec { a, b: usize::MAX, new_conn_at: 0, a_stalls: true, via_start: false, proxy: true, drain_ms: 0, fault: Some("late-header-then-stalls".into()), no_deadline: false });
    }
    for a in [1usize, 3, 5] {
        specs.push(Spec { a, b: usize::MAX, new_conn_at: 0, a_stalls: false, via_start: false, proxy: false, drain_ms: 0, fault: Some("crowd-before-stop".into()), no_deadline: false });
    }
    // a drain that lasts longer than any built-in default (10 s): the configured timeout (30 s) is what bounds it
    specs.push(Spec { a: 5, b: usize::MAX, new_conn_at: 1, a_stalls: false, via_start: false, proxy: false, drain_ms: 11_500, fault: None, no_deadline: false });
    let two = AtomicU64::new(0);
    par_for(specs.len(), |i| {
        // the slow schedules are at the end of the list; start them first
        let s = &specs[specs.len() - 1 - i];
        let _ = &s.drain_ms;
        if s.b != usize::MAX {
            two.fetch_add(1, Ordering::Relaxed);
        }
        let v = if s.via_start { run_via_start(s) } else { run_schedule(s) };
        for (k, t) in v {
            if k.starts_with("machinery:") {
                rep.inconclusive(&t);
                continue;
            }
            rep.violation(Violation { key: k, text: format!("{t}; schedule {}", serde_json::to_string(s).unwrap()), replay: json!({"spec": s}), weight: i as u64 });
        }
    });
    // connections accepted before the stop that announce their source (PROXY header) only afterwards are in progress
    // too: they are admitted or refused on the unchanged budget of the limiter (the histories of C15)
    for (k, t, replay) in crate::c15::admission_while_stopping() {
        rep.violation(Violation { key: format!("in-flight-connection-not-completed:{k}"), text: t, replay, weight: 900 });
    }
    for (k, t) in client_that_keeps_talking_after_its_transfer() {
        rep.violation(Violation { key: k, text: t, replay: json!({"schedule": "client-keeps-talking-after-its-transfer"}), weight: 901 });
    }
    rep.require("schedules with two connections in flight at stop time", two.load(Ordering::Relaxed), 7);
    rep.set("states", json!(specs.len()));
    rep.set("transitions", json!(specs.len()));
    rep.set("traces_validated_against_impl", json!(specs.len()));
    rep.set("evaluations", json!(specs.len()));
    rep.set("distinct_nontrivial", json!(specs.len()));
    rep.set("exhaustive", json!(true));
    rep.set("rule", json!("placements of one or two in-flight connections over 7 progress points (accepted, handshake sent, login start sent, encryption request received, login success received, waiting for a gated backend, backend done but Transfer unread) x the moment a new connection is attempted (right after the stop, after A finished, after both finished); quick: single connections and equal pairs plus four mixed pairs, thorough: all 49 pairs; three schedules with a non-cooperating client and a 1 s connection timeout; three schedules through passage::start stopped by SIGINT; three schedules under a connection timeout too large for the clock; schedules in which a third in-flight connection ends badly during the drain (its backend panics or fails, it sends garbage, it hangs up) while the cooperating one must still complete; three histories (limiter + PROXY protocol) of connections accepted before the stop whose header arrives after it; a client that keeps sending after its Transfer under a 2 s connection timeout. Each schedule is distinct."));
    rep.sample(json!({"spec": specs[0]}));
    rep.sample(json!({"spec": specs[specs.len() - 1]}));
    rep.assume("the slow backend is a semaphore the harness opens (no real time); observations are taken at barriers with 2 s deadlines; a connection opened after the stop is 'not served' if it receives no byte within 300 ms");
    rep.assume("the instant 'a SYN completes after cancel() but is reported before the accept loop is next polled' cannot be produced on a single-threaded runtime and is not covered");
    rep.finish()
}
