//! C14: operator-configured limits and the connection deadline govern every connection.
//!
//! The subject is the application's real entry point `passage::start(config)` running in a child
//! process (one per configuration), driven over loopback TCP and stopped with SIGINT.
use crate::net::*;
use common::refs::codec::{self, Pkt};
use common::refs::sha::hmac_sha256;
use common::{Cli, Report, Violation};
use serde::{Deserialize, Serialize};
use serde_json::json;
use std::net::SocketAddr;
use std::sync::Mutex;
use std::time::{Duration, Instant, SystemTime, UNIX_EPOCH};
use tokio::io::AsyncWriteExt;

/// the configured secret has structure (lines, blanks, a trailing line break, as a secret file written by a
/// shell command has): only the whole of it is the key
const SECRET: &str = "c14-secret line one\nc14 second,line;three \n";
/// pieces and spellings of the configured secret that must not work as keys
/// a secret delivered through the environment that reads like a number in a non-canonical spelling
const ENV_SECRET: &str = "0042";
const SECRET_PARTS: [&str; 7] = ["c14-secret line one", "c14 second,line;three ", "", "c14-secret", "c14-secret line one\nc14 second,line;three", "c14-secret line one\n", "\n"];
const ALLOWANCE: Duration = Duration::from_millis(1500);

#[derive(Clone, Debug, Serialize, Deserialize, PartialEq)]
pub struct Conf {
    max_packet_length: u64,
    expiry: u64,
    timeout: u64,
    /// off | v1 | v2 | v1v2
    #[serde(default)]
    proxy: String,
    /// the status answer is larger than anything the kernel buffers (BIG_STATUS bytes of description)
    #[serde(default)]
    big_status: bool,
    /// "" = the Config value is built in the child; "yaml" = the child calls Config::read(): everything comes from
    /// a YAML file (CONFIG_FILE) and the secret from its own file (AUTH_SECRET_FILE); "yaml+env" = in addition the
    /// YAML file says timeout 60 and another secret, overridden by PASSAGE_TIMEOUT and by the secret file
    #[serde(default)]
    files: String,
}

const BIG_STATUS: usize = 24 << 20;
/// bytes a never-reading status client found once it finally read (evidence of non-vacuity)
static UNREAD_TOTALS: Mutex<Vec<usize>> = Mutex::new(vec![]);

/// child process: `netsim C14-child <port> <max_packet_length> <expiry> <timeout> [off|v1|v2|v1v2] [limit] [bigstatus]`
pub fn child(args: &[String]) {
    // never outlive the check that started this process (a harness that dies must not leave listeners behind)
    unsafe {
        libc::prctl(libc::PR_SET_PDEATHSIG, libc::SIGKILL);
    }
    let port: u16 = args[0].parse().expect("port");
    if std::env::var_os("VERIF_CHILD_STDERR").is_some() {
        // diagnostics only: the application's own log lines on stderr
        let _ = std::fs::create_dir_all("/tmp/verif-child-logs");
        match std::fs::File::create(format!("/tmp/verif-child-logs/{port}.log")) {
            Ok(f) => {
                let _ = tracing_subscriber::fmt().with_env_filter("debug,h2=info,hyper=info,tower=info").with_ansi(false).with_writer(std::sync::Mutex::new(f)).try_init();
            }
            Err(_) => {
                let _ = tracing_subscriber::fmt().with_env_filter("info").with_writer(std::io::stderr).try_init();
            }
        }
    }
    let mut c = passage::config::Config::default();
    c.address = format!("127.0.0.1:{port}");
    c.max_packet_length = args[1].parse().expect("max");
    c.auth_cookie_expiry = args[2].parse().expect("expiry");
    c.timeout = args[3].parse().expect("timeout");
    c.auth_secret = Some(SECRET.to_string());
    match args.get(4).map(String::as_str) {
        Some("v1") => c.proxy_protocol = Some(passage::config::ProxyProtocol { allow_v1: true, allow_v2: false }),
        Some("v2") => c.proxy_protocol = Some(passage::config::ProxyProtocol { allow_v1: false, allow_v2: true }),
        Some("v1v2") => c.proxy_protocol = Some(passage::config::ProxyProtocol { allow_v1: true, allow_v2: true }),
        Some("neither") => c.proxy_protocol = Some(passage::config::ProxyProtocol { allow_v1: false, allow_v2: false }),
        _ => {}
    }
    if let Some(limit) = args.get(5).and_then(|l| l.parse::<usize>().ok()) {
        if limit > 0 {
            c.rate_limiter = Some(passage::config::RateLimiter { duration: 3600, limit });
        }
    }
    if args.get(6).map(String::as_str) == Some("bigstatus") {
        let mut st = passage::config::FixedStatus::default();
        st.description = Some(format!("\"{}\"", "x".repeat(BIG_STATUS)));
        st.favicon = None;
        c.adapters.status = passage::config::StatusAdapter::Fixed(st);
    }
    c.adapters.authentication = passage::config::AuthenticationAdapter::Fixed(passage::config::FixedAuthentication {
        profile: passage_adapters::authentication::Profile { id: uuid::Uuid::from_u128(0xabcdef), name: "Fixed_Profile".into(), properties: vec![], profile_actions: vec![] },
    });
    c.adapters.discovery = passage::config::DiscoveryAdapter::Fixed(passage::config::FixedDiscovery {
        targets: vec![passage_adapters::Target { identifier: "c14-target".into(), address: "10.14.14.14:25565".parse().unwrap(), meta: Default::default() }],
    });
    let rt = tokio::runtime::Builder::new_multi_thread().enable_all().build().expect("rt");
    let r = rt.block_on(passage::start(c));
    match r {
        Ok(()) => std::process::exit(0),
        Err(e) => {
            eprintln!("passage::start failed: {e} (args {args:?})");
            if let Ok(o) = std::process::Command::new("ss").arg("-tanp").output() {
                let port = args.first().cloned().unwrap_or_default();
                for l in String::from_utf8_lossy(&o.stdout).lines().filter(|l| l.contains(&format!(":{port} "))) {
                    eprintln!("    ss: {l}");
                }
            }
            std::process::exit(3)
        }
    }
}

/// child process: `netsim C14-child-read` - the configuration is what `Config::read()` finds in the files and
/// environment variables the parent prepared
pub fn child_read() {
    unsafe {
        libc::prctl(libc::PR_SET_PDEATHSIG, libc::SIGKILL);
    }
    let c = match passage::config::Config::read() {
        Ok(c) => c,
        Err(e) => {
            eprintln!("Config::read failed: {e}");
            std::process::exit(4)
        }
    };
    let rt = tokio::runtime::Builder::new_multi_thread().enable_all().build().expect("rt");
    match rt.block_on(passage::start(c)) {
        Ok(()) => std::process::exit(0),
        Err(e) => {
            eprintln!("passage::start failed: {e}");
            std::process::exit(3)
        }
    }
}

fn spawn_from_files(conf: &Conf) -> App {
    // (see `spawn_app_with`: a port on which something else answers is given up and another one is tried)
    for _attempt in 0..4 {
        if let Some(app) = spawn_from_files_once(conf) {
            return app;
        }
    }
    common::machinery("passage::start (configuration read from files) did not start listening (four attempts on four ports)")
}

fn spawn_from_files_once(conf: &Conf) -> Option<App> {
    let port = free_port();
    let dir = format!("{}/target/c14-files-{}-{port}", common::VERIF_ROOT, std::process::id());
    std::fs::create_dir_all(&dir).expect("config dir");
    let with_env = conf.files == "yaml+env" || conf.files == "yaml+env-secret";
    // the secret comes from the environment only, and looks like a number: it is text all the same
    let env_secret = conf.files == "yaml+env-secret";
    let yaml = format!(
        "address: \"127.0.0.1:{port}\"\ntimeout: {}\nmax_packet_length: {}\nauth_cookie_expiry: {}\n{}{}adapters:\n  discovery:\n    fixed:\n      targets:\n      - identifier: \"c14-target\"\n        address: \"10.14.14.14:25565\"\n        meta: {{}}\n  authentication:\n    fixed:\n      profile:\n        id: \"00000000-0000-0000-0000-000000abcdef\"\n        name: \"Fixed_Profile\"\n        properties: []\n",
        if with_env { 60 } else { conf.timeout },
        conf.max_packet_length,
        conf.expiry,
        if with_env && !env_secret { "auth_secret: \"a-secret-in-the-config-file-that-the-secret-file-overrides\"\n" } else { "" },
        match conf.proxy.as_str() {
            "v1" => "proxy_protocol:\n  allow_v1: true\n  allow_v2: false\n",
            "v2" => "proxy_protocol:\n  allow_v1: false\n  allow_v2: true\n",
            "v1v2" => "proxy_protocol:\n  allow_v1: true\n  allow_v2: true\n",
            _ => "",
        },
    );
    std::fs::write(format!("{dir}/config.yaml"), yaml).expect("write config");
    // ("yaml-no-secret": no secret anywhere - no cookie can be valid, under whatever key it was signed)
    if !env_secret && conf.files != "yaml-no-secret" {
        std::fs::write(format!("{dir}/auth_secret"), SECRET).expect("write secret");
    }
    let exe = common::self_exe();
    let mut cmd = std::process::Command::new(exe);
    cmd.arg("C14-child-read").env("CONFIG_FILE", format!("{dir}/config.yaml")).env("AUTH_SECRET_FILE", format!("{dir}/auth_secret")).env_remove("ENV_PREFIX");
    for (k, _) in std::env::vars().filter(|(k, _)| k.starts_with("PASSAGE_")) {
        cmd.env_remove(k);
    }
    if with_env {
        cmd.env("PASSAGE_TIMEOUT", conf.timeout.to_string());
    }
    if env_secret {
        cmd.env("PASSAGE_AUTHSECRET", ENV_SECRET);
    }
    let child = cmd.stdout(std::process::Stdio::null()).stderr(if std::env::var_os("VERIF_CHILD_STDERR").is_some() { std::process::Stdio::inherit() } else { std::process::Stdio::null() }).spawn().expect("spawn child");
    let mut child = child;
    let addr: SocketAddr = format!("127.0.0.1:{port}").parse().unwrap();
    let up = wait_until_listening(&mut child, port);
    let _ = std::fs::remove_dir_all(&dir);
    if up {
        return Some(App { child, addr });
    }
    let _ = child.kill();
    let _ = child.wait();
    None
}

fn spawn(conf: &Conf) -> App {
    if !conf.files.is_empty() {
        return spawn_from_files(conf);
    }
    spawn_app_with(conf.max_packet_length, conf.expiry, conf.timeout, &conf.proxy, 0, if conf.big_status { &["bigstatus"] } else { &[] })
}

fn stop(app: App) -> Option<i32> {
    stop_app(app)
}

/// a handshake whose declared frame length is exactly `total`; with `legal_only` the host name stays within the
/// protocol's 255 UTF-16 units (three-byte characters make the frame longer without making the name longer), so
/// that a router which enforces the protocol's own field limits still has to serve it
fn handshake_with_length_legal(total: usize, next: i32, legal_only: bool) -> Option<Vec<u8>> {
    let fits = |host: &str| {
        let f = codec::sb_handshake(769, host, 25565, next);
        let (l, _) = codec::get_varint(&f).unwrap();
        (l as usize == total).then_some(f)
    };
    for n in 0..=total.min(255) {
        if let Some(f) = fits(&"h".repeat(n)) {
            return Some(f);
        }
    }
    for wide in 1..=255usize {
        for narrow in 0..=(255 - wide).min(2) {
            if let Some(f) = fits(&format!("{}{}", "\u{20ac}".repeat(wide), "h".repeat(narrow))) {
                return Some(f);
            }
        }
    }
    if legal_only {
        return None;
    }
    for n in 256..=total {
        if let Some(f) = fits(&"h".repeat(n)) {
            return Some(f);
        }
    }
    None
}

fn cookie(age: i64, secret: &str, client_ip: &str) -> Vec<u8> {
    cookie_named(age, secret, client_ip, "Cookie_Holder")
}

fn cookie_named(age: i64, secret: &str, client_ip: &str, user: &str) -> Vec<u8> {
    let now = SystemTime::now().duration_since(UNIX_EPOCH).unwrap().as_secs() as i64;
    let body = serde_json::to_vec(&json!({
        "timestamp": (now - age).max(0), "client_addr": format!("{client_ip}:1"), "user_name": user,
        "user_id": "09879557-e479-45a9-b434-a56377674627", "target": "t", "profile_properties": [], "extra": {},
    }))
    .unwrap();
    let mut out = hmac_sha256(secret.as_bytes(), &body).to_vec();
    out.extend_from_slice(&body);
    out
}

type Viol = (String, String, serde_json::Value);

/// connects and, if the configuration has PROXY protocol on, announces a source address first
async fn connect(addr: SocketAddr, conf: &Conf) -> std::io::Result<McClient> {
    let mut c = McClient::connect(addr, None).await?;
    if !conf.proxy.is_empty() && conf.proxy != "off" {
        let src: SocketAddr = "127.0.0.1:1".parse().unwrap();
        let hdr = if conf.proxy == "v1" || conf.proxy == "v1v2" { proxy_v1(src, addr) } else { proxy_v2(src, addr) };
        c.send_raw(&hdr).await?;
    }
    Ok(c)
}

async fn frame_length_cases(addr: SocketAddr, conf: &Conf, out: &Mutex<Vec<Viol>>) -> u64 {
    let max = conf.max_packet_length as usize;
    let mut n = 0;
    for (len, must_serve) in [(max, true), (max + 1, false), (max.saturating_sub(1).max(7), true), (max + 50, false)] {
        // (a frame that must be served is a legal handshake in every other respect too; longer ones than a legal
        // handshake can be are measured against the limit in `later_frame_length_cases`)
        let Some(hs) = handshake_with_length_legal(len, 1, must_serve) else { continue };
        if len < 7 {
            continue;
        }
        n += 1;
        let Ok(mut c) = connect(addr, conf).await else {
            out.lock().unwrap().push(("connect-refused".into(), "the server did not accept a connection".into(), json!({"conf": conf, "case": "frame-length"})));
            continue;
        };
        c.phase = common::refs::codec::Phase::Status;
        let _ = c.send(&hs).await;
        let _ = c.send(&codec::sb_status_request()).await;
        let r = c.read_packet(Duration::from_secs(2)).await;
        let served = matches!(r, Ok(Pkt::StatusResponse { .. }));
        if served != must_serve {
            out.lock().unwrap().push((
                if must_serve { "frame-within-limit-refused".into() } else { "max-packet-length-not-enforced".into() },
                format!("max_packet_length = {max}: a handshake frame of declared length {len} was {} ({r:?})", if served { "served" } else { "not served" }),
                json!({"conf": conf, "case": "frame-length", "len": len}),
            ));
        }
    }
    // length prefixes that never terminate (all five bytes carry the continuation bit): whatever they
    // announce is far beyond any configured maximum, so they must be refused at once as well
    if conf.timeout >= 3 {
        for prefix in [[0xffu8; 5], [0x80, 0x80, 0x80, 0x80, 0x81]] {
            n += 1;
            let Ok(mut c) = connect(addr, conf).await else { continue };
            let t0 = Instant::now();
            let mut junk = prefix.to_vec();
            junk.extend(std::iter::repeat_n(0x41u8, 70_000));
            let _ = c.send(&junk).await;
            let closed = c.wait_closed(Duration::from_millis(1500)).await.is_ok();
            if !closed {
                out.lock().unwrap().push((
                    "unterminated-length-prefix-not-refused".into(),
                    format!("max_packet_length = {max}: after a length prefix {prefix:02x?} and 70 000 further bytes the server was still reading {:?} later", t0.elapsed()),
                    json!({"conf": conf, "case": "unterminated-prefix"}),
                ));
            }
        }
    }
    n
}

async fn cookie_cases(addr: SocketAddr, conf: &Conf, out: &Mutex<Vec<Viol>>) -> u64 {
    let e = conf.expiry as i64;
    let mut n = 0;
    if conf.max_packet_length < 1000 {
        // the cookie response frame (about 330 bytes) does not fit: nothing to judge here
        return 0;
    }
    let configured: &str = if conf.files == "yaml+env-secret" { ENV_SECRET } else { SECRET };
    let mut cases: Vec<(&str, i64, &str, bool)> = if conf.expiry > u32::MAX as u64 {
        vec![("fresh", 5, configured, true), ("old-but-within-a-huge-expiry", 1_000_000, configured, true), ("other-secret", 0, "another-secret", false)]
    } else {
        vec![("fresh", e - 2, configured, true), ("expired", e + 2, configured, false), ("other-secret", 0, "another-secret", false), ("very-old", e + 100_000, configured, false)]
    };
    if conf.files == "yaml-no-secret" {
        // the operator configured no secret: "only the configured secret validates them" leaves nothing that does
        cases = vec![("no-secret-configured:signed-with-the-empty-key", 5, "", false), ("no-secret-configured:signed-with-some-key", 5, SECRET, false), ("no-secret-configured:signed-with-a-line-break", 5, "\n", false)];
    }
    if configured == ENV_SECRET {
        // what a typed reading of the environment value would turn it into
        for other in ["42", "42.0", "+42", "0x2a"] {
            cases.push(("signed-with-a-number-the-secret-reads-as", e.min(5) - 1, other, false));
        }
    }
    if conf.files != "yaml-no-secret" {
        for part in SECRET_PARTS {
            cases.push(("signed-with-a-part-of-the-secret", e.min(5) - 1, part, false));
        }
        // a history: a genuine cookie is honoured, then its tag comes back in front of another body
        cases.push(("genuine-before-replay", e.min(5) - 1, configured, true));
        cases.push(("replayed-tag-other-body", e.min(5) - 1, configured, false));
    }
    if conf.files != "yaml-no-secret" && conf.timeout >= 4 && conf.expiry <= u32::MAX as u64 && conf.expiry >= 1 {
        // valid when the connection starts (one second left), expired when the client finally presents it
        cases.push(("expires-during-stall", e - 1, configured, false));
    }
    let mut genuine: Vec<u8> = vec![];
    for (name, age, secret, must_accept) in cases {
        if age < -1 {
            continue;
        }
        n += 1;
        // (a login that does not get as far as the Encryption Request says nothing about the cookie: on a busy
        // machine the connection's own short deadline may cut it off. It is tried again, twice; a cookie that had to
        // be refused and is answered with the end of the connection every time has been refused)
        let mut flag = None;
        let mut o = LoginOutcome { packets: vec![], stage: Stage::Connected, error: None };
        let mut refused_connect = false;
        for _attempt in 0..3 {
            let Ok(mut c) = connect(addr, conf).await else {
                refused_connect = true;
                break;
            };
            let payload = match name {
                "genuine-before-replay" => {
                    genuine = cookie(age, secret, "127.0.0.1");
                    genuine.clone()
                }
                "replayed-tag-other-body" => {
                    let other = cookie_named(age, "someone-elses-secret", "127.0.0.1", "Admin");
                    let mut forged = genuine[..32.min(genuine.len())].to_vec();
                    forged.extend_from_slice(&other[32..]);
                    forged
                }
                _ => cookie(age, secret, "127.0.0.1"),
            };
            let delay = if name == "expires-during-stall" { Duration::from_millis(2_200) } else { Duration::ZERO };
            let p = LoginParams { intent: 3, auth_cookie: Some(payload), wait: Duration::from_secs(2), auth_cookie_delay: delay, ..Default::default() };
            o = LoginOutcome { packets: vec![], stage: Stage::Connected, error: None };
            c.login(&p, Stage::Connected, Stage::EncryptionRequestReceived, &mut o).await;
            flag = o.packets.iter().find_map(|p| if let Pkt::EncryptionRequest { should_authenticate, .. } = p { Some(*should_authenticate) } else { None });
            if flag.is_some() {
                break;
            }
        }
        if refused_connect {
            out.lock().unwrap().push(("connect-refused".into(), "the server did not accept a connection".into(), json!({"conf": conf, "case": "cookie"})));
            continue;
        }
        if flag.is_none() && !must_accept {
            continue;
        }
        let accepted = flag == Some(false);
        if flag.is_none() || accepted != must_accept {
            out.lock().unwrap().push((
                if flag.is_none() { format!("cookie-{name}-login-failed") } else { format!("cookie-{name}-{}", if accepted { "accepted" } else { "not-accepted" }) },
                format!("auth_cookie_expiry = {e}: a cookie aged {age} s signed with {} was {} (flag {flag:?}, {:?})", if secret == configured { "the configured secret".to_string() } else { format!("another secret ({secret:?})") }, if accepted { "accepted" } else { "not accepted" }, o.error),
                json!({"conf": conf, "case": "cookie", "name": name}),
            ));
        }
    }
    n
}


/// a cookie signed with `secret`, padded so that the Cookie Response frame carrying it declares exactly `frame_len`
fn padded_cookie_frame(key: &str, secret: &str, frame_len: usize) -> Option<Vec<u8>> {
    let now = SystemTime::now().duration_since(UNIX_EPOCH).unwrap().as_secs() as i64;
    for pad in 0..=frame_len {
        let body = serde_json::to_vec(&json!({
            "timestamp": now - 1, "client_addr": "127.0.0.1:1", "user_name": "Cookie_Holder", "id": "116934ee-8b5a-49d4-8b54-af0b4d6dbe5f", "server_address": "h", "server_port": 1,
            "user_id": "09879557-e479-45a9-b434-a56377674627", "target": "t", "profile_properties": [], "extra": {"pad": "x".repeat(pad)},
        }))
        .unwrap();
        // (a session cookie is plain JSON; an authentication cookie carries its tag in front)
        let mut payload = if key == "passage:session" { vec![] } else { hmac_sha256(secret.as_bytes(), &body).to_vec() };
        payload.extend_from_slice(&body);
        let frame = codec::sb_login_cookie_response(key, Some(&payload));
        let (l, _) = codec::get_varint(&frame).unwrap();
        if l as usize == frame_len {
            return Some(frame);
        }
        if l as usize > frame_len {
            return None;
        }
    }
    None
}

/// The configured maximum governs every frame of a connection, not only the first: Cookie Responses (session and
/// authentication, the latter correctly signed) and a configuration-phase plugin message that declare max + 1 and
/// max + 200 bytes are refused - nothing is granted, the connection ends - while the same frames at exactly max
/// bytes are taken.
async fn later_frame_length_cases(addr: SocketAddr, conf: &Conf, out: &Mutex<Vec<Viol>>) -> u64 {
    let max = conf.max_packet_length as usize;
    if !(1000..60_000).contains(&max) || !conf.files.is_empty() && conf.files != "yaml" {
        return 0;
    }
    let mut n = 0;
    for which in ["session-cookie", "auth-cookie", "plugin-message"] {
        for (len, over) in [(max + 1, true), (max + 200, true), (max, false)] {
            n += 1;
            let Ok(mut c) = connect(addr, conf).await else { continue };
            let p = LoginParams { intent: 3, wait: Duration::from_secs(2), ..Default::default() };
            let mut o = LoginOutcome { packets: vec![], stage: Stage::Connected, error: None };
            let replay = json!({"conf": conf, "case": "later-frame-length", "frame": which, "len": len});
            let sent = match which {
                "session-cookie" => {
                    c.login(&p, Stage::Connected, Stage::LoginStartSent, &mut o).await;
                    padded_cookie_frame("passage:session", "", len)
                }
                "auth-cookie" => {
                    c.login(&p, Stage::Connected, Stage::LoginStartSent, &mut o).await;
                    let _ = c.send(&codec::sb_login_cookie_response("passage:session", None)).await;
                    let _ = c.read_packet(Duration::from_secs(2)).await;
                    padded_cookie_frame("passage:authentication", SECRET, len)
                }
                _ => {
                    c.login(&LoginParams { wait: Duration::from_secs(2), ..Default::default() }, Stage::Connected, Stage::LoginSuccessReceived, &mut o).await;
                    let _ = c.send(&codec::sb_login_ack()).await;
                    let head = codec::sb_plugin_message("minecraft:brand", &[]).len();
                    let mut f = None;
                    for pad in len.saturating_sub(head + 8)..=len {
                        let g = codec::sb_plugin_message("minecraft:brand", &vec![0x61; pad]);
                        if codec::get_varint(&g).map(|x| x.0 as usize) == Ok(len) {
                            f = Some(g);
                            break;
                        }
                    }
                    f
                }
            };
            let Some(frame) = sent else { continue };
            if o.error.is_some() {
                out.lock().unwrap().push(("login-failed".into(), format!("could not reach the state before the {which} frame: {:?}", o.error), replay));
                continue;
            }
            // (what the server sent ahead of time - a router may ask for both cookies at once - is no answer to the
            // frame that follows)
            while let Ok(pk) = c.read_packet(Duration::from_millis(250)).await {
                if !matches!(pk, Pkt::KeepAlive { .. } | Pkt::LoginCookieRequest { .. }) {
                    break;
                }
            }
            let _ = c.send(&frame).await;
            if which == "session-cookie" && !over {
                // (a router that asked for both cookies at once goes on only when both answers are in)
                let _ = c.send(&codec::sb_login_cookie_response("passage:authentication", None)).await;
            }
            if which == "plugin-message" {
                // what follows a tolerated plugin message: Client Information, then routing
                let _ = c.send(&codec::sb_client_information("en_us")).await;
            }
            let mut got = vec![];
            let mut closed = false;
            loop {
                match c.read_packet(Duration::from_millis(1200)).await {
                    Ok(Pkt::KeepAlive { .. }) => {}
                    Ok(pk) => got.push(pk.kind()),
                    Err(ReadErr::Eof) | Err(ReadErr::Reset(_)) => {
                        closed = true;
                        break;
                    }
                    Err(_) => break,
                }
                if got.len() > 6 {
                    break;
                }
            }
            let granted = got.iter().any(|k| matches!(*k, "EncryptionRequest" | "LoginSuccess" | "StoreCookie" | "Transfer" | "LoginCookieRequest"));
            if over && (granted || !closed) {
                out.lock().unwrap().push((
                    format!("max-packet-length-not-enforced:{which}"),
                    format!("max_packet_length = {max}: a {which} frame declaring {len} bytes was {} (the server went on with {got:?}{})", if granted { "accepted" } else { "not refused" }, if closed { "" } else { ", connection still open" }),
                    replay,
                ));
            } else if !over && !granted {
                out.lock().unwrap().push((format!("frame-within-limit-refused:{which}"), format!("max_packet_length = {max}: a {which} frame declaring exactly {len} bytes was not taken (the server sent {got:?}, closed: {closed})"), replay));
            }
        }
    }
    n
}


/// A crowd within one timeout window: 1 500 clients connect within a second or two and stay silent. Each of them is
/// closed no later than the timeout (+ allowance) after it was accepted - the deadline is not a resource that runs out.
async fn silent_crowd_case(addr: SocketAddr, conf: &Conf, out: &Mutex<Vec<Viol>>) -> u64 {
    if !(2..=6).contains(&conf.timeout) || conf.big_status || !conf.files.is_empty() || conf.max_packet_length < 1000 {
        return 0;
    }
    let n = 1_500usize;
    let mut conns = vec![];
    for _ in 0..n {
        if let Ok(c) = connect(addr, conf).await {
            conns.push((Instant::now(), c));
        }
    }
    if conns.len() < n * 9 / 10 {
        out.lock().unwrap().push(("connect-refused".into(), format!("only {} of {n} connections of the crowd could be opened", conns.len()), json!({"conf": conf, "case": "silent-crowd"})));
        return conns.len() as u64;
    }
    let timeout = Duration::from_secs(conf.timeout);
    let mut open = 0usize;
    for (t0, mut c) in conns {
        let left = (timeout + ALLOWANCE + Duration::from_millis(500)).saturating_sub(t0.elapsed());
        if c.wait_closed(left.max(Duration::from_millis(1))).await.is_err() {
            open += 1;
        }
    }
    if open > 0 {
        out.lock().unwrap().push((
            "deadline-not-enforced:silent-crowd".into(),
            format!("timeout = {} s: {open} of {n} silent connections that had arrived within one timeout window were still open {:?} after they were accepted", conf.timeout, timeout + ALLOWANCE),
            json!({"conf": conf, "case": "silent-crowd"}),
        ));
    }
    n as u64
}

/// A client that asks for the (huge) status and does not read: the server's write is blocked when the
/// deadline passes. Once the client finally reads, it may only find what the kernel had buffered by then,
/// followed by the end of the stream - not the complete answer, and not a connection that is still open.
async fn unread_status_case(addr: SocketAddr, conf: &Conf, out: &Mutex<Vec<Viol>>) {
    // On a busy machine the server may not get round to producing its 24 MiB answer before the deadline; the client
    // then finds nothing at all, which says nothing about the deadline. Such an attempt is repeated (twice at most).
    for attempt in 0..3 {
        let total = unread_status_attempt(addr, conf, out).await;
        if total > 0 || attempt == 2 {
            UNREAD_TOTALS.lock().unwrap().push(total);
            break;
        }
    }
}

/// one attempt; returns the number of bytes the client found when it finally read
async fn unread_status_attempt(addr: SocketAddr, conf: &Conf, out: &Mutex<Vec<Viol>>) -> usize {
    use tokio::io::AsyncReadExt;
    let timeout = Duration::from_secs(conf.timeout);
    let Ok(mut c) = McClient::connect_with(addr, None, Some(16 * 1024)).await else {
        out.lock().unwrap().push(("connect-refused".into(), "the server did not accept a connection".into(), json!({"conf": conf, "case": "deadline"})));
        return 1;
    };
    if !conf.proxy.is_empty() && conf.proxy != "off" {
        let src: SocketAddr = "127.0.0.1:1".parse().unwrap();
        let _ = c.send_raw(&if conf.proxy == "v2" { proxy_v2(src, addr) } else { proxy_v1(src, addr) }).await;
    }
    let _ = c.send(&codec::sb_handshake(769, "status.example", 25565, 1)).await;
    let _ = c.send(&codec::sb_status_request()).await;
    tokio::time::sleep(timeout + ALLOWANCE).await;
    // now drain
    let mut total = 0usize;
    let mut buf = vec![0u8; 1 << 16];
    let drain_limit = Duration::from_secs(20);
    let t1 = Instant::now();
    let ended = loop {
        let left = drain_limit.checked_sub(t1.elapsed()).unwrap_or(Duration::ZERO);
        match tokio::time::timeout(left, c.stream.read(&mut buf)).await {
            Ok(Ok(0)) | Ok(Err(_)) => break true,
            Ok(Ok(n)) => total += n,
            Err(_) => break false,
        }
    };
    if total >= BIG_STATUS || !ended {
        out.lock().unwrap().push((
            "deadline-not-enforced:status-never-read".into(),
            format!("timeout = {} s: a client that requested the status and did not read for {:?} afterwards received {total} bytes (the answer has {BIG_STATUS}+ bytes; the kernel buffers far less) and the stream {} - the server kept writing to it after the deadline", conf.timeout, timeout + ALLOWANCE, if ended { "ended only then" } else { "was still open 20 s later" }),
            json!({"conf": conf, "case": "deadline", "behaviour": "status-never-read"}),
        ));
    }
    total
}

async fn deadline_case(addr: SocketAddr, conf: &Conf, behaviour: &str, out: &Mutex<Vec<Viol>>) {
    if behaviour == "status-never-read" {
        return unread_status_case(addr, conf, out).await;
    }
    let timeout = Duration::from_secs(conf.timeout);
    let late_header = behaviour.starts_with("late-proxy-header");
    let connected = if late_header { McClient::connect(addr, None).await } else { connect(addr, conf).await };
    let Ok(mut c) = connected else {
        out.lock().unwrap().push(("connect-refused".into(), "the server did not accept a connection".into(), json!({"conf": conf, "case": "deadline"})));
        return;
    };
    let t0 = Instant::now();
    let p = LoginParams { wait: timeout + ALLOWANCE, ..Default::default() };
    let mut o = LoginOutcome { packets: vec![], stage: Stage::Connected, error: None };
    match behaviour {
        "silent" => {}
        "late-proxy-header-then-silent" | "late-proxy-header-then-handshake" => {
            // a valid header, but only after three quarters of the deadline have passed
            tokio::time::sleep(timeout * 3 / 4).await;
            let src: SocketAddr = "127.0.0.1:1".parse().unwrap();
            let hdr = if conf.proxy == "v2" { proxy_v2(src, addr) } else { proxy_v1(src, addr) };
            let _ = c.send_raw(&hdr).await;
            if behaviour.ends_with("handshake") {
                let _ = c.send(&codec::sb_handshake(769, "late.example", 25565, 2)).await;
            }
        }
        "one-byte-every-100ms" => {
            // a long handshake dribbled in byte by byte, far beyond the deadline
            let f = codec::sb_handshake(769, &"d".repeat(200), 25565, 2);
            for b in f.iter().take(((timeout + ALLOWANCE).as_millis() / 100) as usize + 5) {
                if c.stream.write_all(&[*b]).await.is_err() {
                    break;
                }
                tokio::time::sleep(Duration::from_millis(100)).await;
                if t0.elapsed() > timeout + ALLOWANCE {
                    break;
                }
            }
        }
        "stop-after-handshake" => c.login(&p, Stage::Connected, Stage::HandshakeSent, &mut o).await,
        "stop-after-login-start" => c.login(&p, Stage::Connected, Stage::LoginStartSent, &mut o).await,
        "stop-after-encryption-request" => c.login(&p, Stage::Connected, Stage::EncryptionRequestReceived, &mut o).await,
        "stop-after-login-success" => c.login(&p, Stage::Connected, Stage::LoginSuccessReceived, &mut o).await,
        "stop-mid-frame" => {
            let f = codec::sb_handshake(769, "half.example", 25565, 2);
            let _ = c.send(&f[..f.len() / 2]).await;
        }
        "login-ack-only" => {
            c.login(&p, Stage::Connected, Stage::LoginSuccessReceived, &mut o).await;
            let _ = c.send(&codec::sb_login_ack()).await;
        }
        "floods-ignorable-frames" => {
            // logged in, never sends Client Information, but keeps the server busy: small plugin messages (which
            // the configuration phase tolerates) as fast as the socket takes them, across the deadline
            c.login(&p, Stage::Connected, Stage::LoginSuccessReceived, &mut o).await;
            let _ = c.send(&codec::sb_login_ack()).await;
            let frame = codec::frame(0x02, &common::refs::codec::W::new().string("a:b").done());
            // (large bursts: the server's receive buffer must never run dry)
            let burst: Vec<u8> = frame.iter().copied().cycle().take(frame.len() * 16_384).collect();
            let mut writes = 0u64;
            // (a write is never abandoned half-way: that would garble the stream and get the client thrown out for
            // another reason; the whole flood is bounded instead)
            let limit = (timeout + ALLOWANCE).saturating_sub(t0.elapsed());
            let flood = async {
                loop {
                    if c.send(&burst).await.is_err() {
                        break;
                    }
                    writes += 1;
                    tokio::task::yield_now().await;
                }
            };
            let closed = tokio::time::timeout(limit, flood).await.is_ok();
            if !closed {
                out.lock().unwrap().push((
                    format!("deadline-not-enforced:{behaviour}"),
                    format!("timeout = {} s: a client that floods the configuration phase with ignorable frames could still write {:?} after it connected ({writes} bursts)", conf.timeout, t0.elapsed()),
                    json!({"conf": conf, "case": "deadline", "behaviour": behaviour}),
                ));
            }
            return;
        }
        "exchange-complete-then-trickle" => {
            // the client completes a status exchange - the connection has served its purpose - and then, instead of
            // hanging up, keeps a trickle of bytes coming: the connection is gone by the deadline all the same
            c.phase = common::refs::codec::Phase::Status;
            let _ = c.send(&codec::sb_handshake(769, "t.example", 25565, 1)).await;
            let _ = c.send(&codec::sb_status_request()).await;
            let _ = c.read_packet(Duration::from_millis(700)).await;
            let _ = c.send(&codec::sb_ping(7)).await;
            let _ = c.read_packet(Duration::from_millis(700)).await;
            let limit = (timeout + ALLOWANCE).saturating_sub(t0.elapsed());
            let trickle = async {
                loop {
                    if c.stream.write_all(&[0x01, 0x00]).await.is_err() {
                        break;
                    }
                    tokio::time::sleep(Duration::from_millis(20)).await;
                }
            };
            if tokio::time::timeout(limit, trickle).await.is_err() {
                out.lock().unwrap().push((
                    format!("deadline-not-enforced:{behaviour}"),
                    format!("timeout = {} s: a client that completed its status exchange and then kept sending bytes every 20 ms could still write {:?} after it connected", conf.timeout, t0.elapsed()),
                    json!({"conf": conf, "case": "deadline", "behaviour": behaviour}),
                ));
            }
            return;
        }
        "protocol-error-then-trickle" => {
            // the client breaks the protocol (a frame of length zero after its handshake) and then keeps a trickle
            // of bytes coming, one every 20 ms: whatever the server does once a connection has failed - a notice, a
            // graceful close - the connection is gone by the deadline
            let _ = c.send(&codec::sb_handshake(769, "t.example", 25565, 2)).await;
            let _ = c.send_raw(&[0x00]).await;
            let limit = (timeout + ALLOWANCE).saturating_sub(t0.elapsed());
            let trickle = async {
                loop {
                    if c.stream.write_all(&[0x41]).await.is_err() {
                        break;
                    }
                    tokio::time::sleep(Duration::from_millis(20)).await;
                }
            };
            if tokio::time::timeout(limit, trickle).await.is_err() {
                out.lock().unwrap().push((
                    format!("deadline-not-enforced:{behaviour}"),
                    format!("timeout = {} s: a client that broke the protocol and then kept sending a byte every 20 ms could still write {:?} after it connected", conf.timeout, t0.elapsed()),
                    json!({"conf": conf, "case": "deadline", "behaviour": behaviour}),
                ));
            }
            return;
        }
        other => common::machinery(&format!("behaviour {other}")),
    }
    // from here on the client only listens (and echoes keep-alives if it is in the configuration phase)
    let limit = timeout + ALLOWANCE;
    let closed_at = loop {
        let left = limit.checked_sub(t0.elapsed()).unwrap_or(Duration::ZERO);
        if left.is_zero() {
            break None;
        }
        match c.read_packet(left).await {
            Ok(Pkt::KeepAlive { id }) => {
                let _ = c.send(&codec::sb_keep_alive(id)).await;
            }
            Ok(_) => {}
            Err(ReadErr::Timeout) => break None,
            Err(_) => break Some(t0.elapsed()),
        }
    };
    if closed_at.is_none() {
        out.lock().unwrap().push((
            format!("deadline-not-enforced:{behaviour}"),
            format!("timeout = {} s: a client that behaves '{behaviour}' was still connected {:?} after it connected", conf.timeout, t0.elapsed()),
            json!({"conf": conf, "case": "deadline", "behaviour": behaviour}),
        ));
    }
}

fn run_conf(conf: &Conf, behaviours: &[&str], rep: &Report) -> u64 {
    let server = spawn(conf);
    let addr = server.addr;
    let out: Mutex<Vec<Viol>> = Mutex::new(vec![]);
    let mut n = 0u64;
    run_local(async {
        let a = frame_length_cases(addr, conf, &out);
        let b = cookie_cases(addr, conf, &out);
        let ds = async {
            let futs: Vec<_> = behaviours.iter().map(|bh| deadline_case(addr, conf, bh, &out)).collect();
            // run the deadline cases concurrently (each holds its connection for the whole timeout)
            futures_join_all(futs).await;
        };
        let l = later_frame_length_cases(addr, conf, &out);
        let (x, y, _, z) = tokio::join!(a, b, ds, l);
        n = x + y + z + behaviours.len() as u64;
        // (afterwards: its 1 500 sockets would get in the way of the timing of the cases above)
        n += silent_crowd_case(addr, conf, &out).await;
    });
    // shutdown is requested while connections are in flight (one silent, one stalled after Login Start): they keep
    // their own deadline - closed no later than timeout (+ allowance) after they were accepted, not later because
    // the listener is draining
    if conf.timeout <= 10 && !conf.big_status && conf.max_packet_length >= 64 {
        let pid = server.child.id() as i32;
        run_local(async {
            let mut conns = vec![];
            for stalled in [false, true] {
                if let Ok(mut c) = connect(addr, conf).await {
                    if stalled {
                        let _ = c.send(&codec::sb_handshake(769, "h", 25565, 2)).await;
                        let _ = c.send(&codec::sb_login_start("Stalled", 7)).await;
                    }
                    conns.push((stalled, Instant::now(), c));
                }
            }
            tokio::time::sleep(Duration::from_millis(300)).await;
            unsafe {
                libc::kill(pid, libc::SIGINT);
            }
            for (stalled, t0, mut c) in conns {
                let bound = Duration::from_secs(conf.timeout) + ALLOWANCE;
                let left = bound.saturating_sub(t0.elapsed());
                let closed = c.wait_closed(left).await.is_ok();
                n += 1;
                if !closed {
                    out.lock().unwrap().push((
                        "deadline-not-kept-while-draining".into(),
                        format!("timeout = {} s: a {} connection that was open when shutdown was requested (300 ms after it connected) was still open {:?} after it was accepted", conf.timeout, if stalled { "stalled (Login Start sent, Cookie Request not answered)" } else { "silent" }, t0.elapsed()),
                        json!({"conf": conf, "case": "stop-in-flight", "stalled": stalled}),
                    ));
                }
            }
        });
    }
    // stop it like an operator would and make sure start() returns cleanly
    match stop(server) {
        Some(0) => {}
        other => out.lock().unwrap().push(("ctrl-c-does-not-stop-cleanly".into(), format!("after SIGINT the process ended with {other:?}"), json!({"conf": conf, "case": "sigint"}))),
    }
    for (k, t, r) in out.into_inner().unwrap() {
        rep.violation(Violation { key: k, text: t, replay: r, weight: conf.max_packet_length });
    }
    n
}

async fn futures_join_all<F: std::future::Future<Output = ()>>(futs: Vec<F>) {
    let mut pinned: Vec<std::pin::Pin<Box<F>>> = futs.into_iter().map(Box::pin).collect();
    std::future::poll_fn(|cx| {
        pinned.retain_mut(|f| f.as_mut().poll(cx).is_pending());
        if pinned.is_empty() { std::task::Poll::Ready(()) } else { std::task::Poll::Pending }
    })
    .await
}

pub fn run(cli: Cli) -> ! {
    let rep = Report::new("C14", cli.tier, "exploration");
    let thorough = cli.tier.thorough();
    let all_behaviours = ["silent", "one-byte-every-100ms", "stop-mid-frame", "stop-after-handshake", "stop-after-login-start", "stop-after-encryption-request", "stop-after-login-success", "login-ack-only", "floods-ignorable-frames", "protocol-error-then-trickle", "exchange-complete-then-trickle"];
    let confs: Vec<Conf> = if let Some(case) = &cli.replay {
        vec![serde_json::from_value(case["conf"].clone()).unwrap_or_else(|e| common::machinery(&format!("bad replay: {e}")))]
    } else if thorough {
        vec![
            Conf { max_packet_length: 7, expiry: 60, timeout: 1, proxy: String::new(), big_status: false, files: String::new() },
            Conf { max_packet_length: 64, expiry: 1, timeout: 2, proxy: String::new(), big_status: false, files: String::new() },
            Conf { max_packet_length: 300, expiry: 60, timeout: 2, proxy: String::new(), big_status: false, files: String::new() },
            Conf { max_packet_length: 1_000, expiry: 60, timeout: 2, proxy: String::new(), big_status: false, files: String::new() },
            Conf { max_packet_length: 2_000, expiry: 1, timeout: 1, proxy: String::new(), big_status: false, files: String::new() },
            Conf { max_packet_length: 10_000, expiry: 3, timeout: 3, proxy: String::new(), big_status: false, files: String::new() },
            Conf { max_packet_length: 1_000, expiry: 21_600, timeout: 18, proxy: String::new(), big_status: false, files: String::new() },
            Conf { max_packet_length: 1_000, expiry: 60, timeout: 4, proxy: "v1v2".into(), big_status: false, files: String::new() },
            Conf { max_packet_length: 1_000, expiry: 60, timeout: 3, proxy: "v2".into(), big_status: false, files: String::new() },
            Conf { max_packet_length: 1_000, expiry: u64::MAX, timeout: u64::MAX, proxy: String::new(), big_status: false, files: String::new() },
            Conf { max_packet_length: 1_000, expiry: 60, timeout: u64::MAX / 2, proxy: "v1v2".into(), big_status: false, files: String::new() },
            Conf { max_packet_length: 1_000, expiry: 60, timeout: 5, proxy: String::new(), big_status: false, files: String::new() },
            Conf { max_packet_length: 2_000, expiry: 1, timeout: 6, proxy: "v2".into(), big_status: false, files: String::new() },
            Conf { max_packet_length: 1_000, expiry: 60, timeout: 2, proxy: String::new(), big_status: true, files: String::new() },
            Conf { max_packet_length: 1_000, expiry: 60, timeout: 1, proxy: "v1v2".into(), big_status: true, files: String::new() },
            Conf { max_packet_length: 1_200, expiry: 3, timeout: 2, proxy: String::new(), big_status: false, files: "yaml".into() },
            Conf { max_packet_length: 2_000, expiry: 60, timeout: 1, proxy: "v1v2".into(), big_status: false, files: "yaml+env".into() },
            Conf { max_packet_length: 300, expiry: 1, timeout: 3, proxy: "v2".into(), big_status: false, files: "yaml".into() },
            Conf { max_packet_length: 10_000, expiry: 2, timeout: 2, proxy: String::new(), big_status: false, files: "yaml+env".into() },
            Conf { max_packet_length: 1_500, expiry: 60, timeout: 2, proxy: String::new(), big_status: false, files: "yaml+env-secret".into() },
            Conf { max_packet_length: 1_400, expiry: 60, timeout: 2, proxy: String::new(), big_status: false, files: "yaml-no-secret".into() },
        ]
    } else {
        vec![
            Conf { max_packet_length: 7, expiry: 60, timeout: 1, proxy: String::new(), big_status: false, files: String::new() },
            Conf { max_packet_length: 64, expiry: 60, timeout: 2, proxy: String::new(), big_status: false, files: String::new() },
            Conf { max_packet_length: 1_000, expiry: 60, timeout: 2, proxy: String::new(), big_status: false, files: String::new() },
            Conf { max_packet_length: 2_000, expiry: 1, timeout: 1, proxy: String::new(), big_status: false, files: String::new() },
            Conf { max_packet_length: 1_000, expiry: 60, timeout: 4, proxy: "v1v2".into(), big_status: false, files: String::new() },
            Conf { max_packet_length: 1_000, expiry: u64::MAX, timeout: u64::MAX, proxy: String::new(), big_status: false, files: String::new() },
            Conf { max_packet_length: 1_000, expiry: 60, timeout: 5, proxy: String::new(), big_status: false, files: String::new() },
            Conf { max_packet_length: 1_000, expiry: 60, timeout: 2, proxy: String::new(), big_status: true, files: String::new() },
            // the same limits read by Config::read() from a YAML file, a secret file and the environment
            Conf { max_packet_length: 1_200, expiry: 3, timeout: 2, proxy: String::new(), big_status: false, files: "yaml".into() },
            Conf { max_packet_length: 2_000, expiry: 60, timeout: 1, proxy: "v1v2".into(), big_status: false, files: "yaml+env".into() },
            Conf { max_packet_length: 1_500, expiry: 60, timeout: 2, proxy: String::new(), big_status: false, files: "yaml+env-secret".into() },
            Conf { max_packet_length: 1_400, expiry: 60, timeout: 2, proxy: String::new(), big_status: false, files: "yaml-no-secret".into() },
            // an expiry shorter than the timeout (a cookie may be older than the expiry and younger than the timeout)
            Conf { max_packet_length: 1_100, expiry: 2, timeout: 6, proxy: String::new(), big_status: false, files: "yaml".into() },
        ]
    };
    let total = std::sync::atomic::AtomicU64::new(0);
    std::thread::scope(|s| {
        for conf in &confs {
            let rep = &rep;
            let total = &total;
            let all = &all_behaviours;
            s.spawn(move || {
                // with a tiny max_packet_length a login cannot get past the handshake: only the
                // behaviours that do not need one are meaningful
                let mut bh: Vec<&str> = if conf.max_packet_length < 1000 { all[..4].to_vec() } else { all.to_vec() };
                if conf.timeout > 1_000 {
                    // "no deadline in practice": only that connections are handled at all is judged
                    bh.clear();
                }
                if conf.big_status {
                    bh = vec!["status-never-read", "silent", "stop-after-handshake"];
                }
                if !conf.proxy.is_empty() && conf.proxy != "off" && conf.timeout <= 1_000 {
                    bh.push("late-proxy-header-then-silent");
                    bh.push("late-proxy-header-then-handshake");
                }
                let n = run_conf(conf, &bh, rep);
                total.fetch_add(n, std::sync::atomic::Ordering::Relaxed);
            });
        }
    });
    let n = total.load(std::sync::atomic::Ordering::Relaxed);
    rep.require("connections made", n, 10);
    rep.set("evaluations", json!(n));
    rep.set("distinct_nontrivial", json!(n));
    rep.set("configurations", json!(confs.len()));
    let totals = UNREAD_TOTALS.lock().unwrap().clone();
    if cli.replay.is_none() && totals.iter().all(|t| *t == 0) {
        // nothing at all arrived: the status answer never started, the case would be vacuous
        common::machinery("C14: the never-reading status client received nothing; the big-status configuration did not take effect");
    }
    rep.set("status_never_read_bytes_found_after_deadline", json!(totals));
    rep.set("status_answer_bytes", json!(BIG_STATUS));
    rep.set("exhaustive", json!(true));
    rep.set("rule", json!("one child process running passage::start(config) per configuration (max_packet_length, auth_cookie_expiry, timeout; three of them read by Config::read() from a YAML file, a secret file and PASSAGE_TIMEOUT, one with a number-like secret given in PASSAGE_AUTHSECRET only); per configuration: handshake frames of declared length max-1, max, max+1, max+50; cookies aged expiry-2 / expiry+2 / very old / signed with another secret / signed with each of 7 pieces of the configured secret (its lines, the empty key, the secret without its trailing line break), a genuine cookie followed by its tag in front of another body, and (timeout >= 4 s) a cookie with one second left that the client presents 2.2 s later; client behaviours silent, flooding the configuration phase with ignorable frames, one byte every 100 ms, stopping mid-frame and after each protocol step, and (with PROXY protocol configured) a valid header sent only after 3/4 of the timeout, each required to be disconnected by timeout + 1.5 s; with a 24 MiB status answer, a client that requests it and reads nothing until timeout + 1.5 s must then find a truncated answer and the end of the stream; the process is stopped with SIGINT and must exit cleanly. Each connection is a distinct case."));
    rep.sample(json!({"conf": confs[0], "case": "frame-length", "len": confs[0].max_packet_length + 1, "expect": "closed unanswered"}));
    rep.sample(json!({"conf": confs[confs.len() - 1], "case": "deadline", "behaviour": "stop-after-encryption-request", "expect": "closed by timeout + 1.5 s"}));
    rep.assume("real time: 'closed too late' uses a 1.5 s allowance; closing earlier is never a violation");
    rep.assume("the behaviour 'answers every keep-alive forever while routing never completes' needs a backend that never answers and is covered in C17's slow-backend schedules and C07's virtual-time runs, not here");
    rep.finish()
}
