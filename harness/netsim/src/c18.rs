//! C18: built-in filters and strategies never pick a disqualified target.
//!
//! Two parts, one report: (1) enumk's enumeration of filter chains x strategies x target lists x players x host
//! names on adapters built from configuration values; (2) whole connections over TCP through the real Listener
//! and Connection with the built-in host-scoped filters and the default strategy: "the host name the player
//! connected with" is the one in the handshake of that connection - not one the client stores and hands back
//! (session cookie), whatever the intent and whatever other cookies it presents.
use crate::net::*;
use common::refs::codec::Pkt;
use common::refs::sha::hmac_sha256;
use common::{Cli, Report, Violation};
use passage::adapter::filter::DynFilterAdapters;
use passage::adapter::strategy::DynStrategyAdapter;
use passage::config as cfg;
use passage_adapters::discovery::DiscoveryAdapter;
use passage_adapters::{FixedLocalizationAdapter, Target};
use passage_protocol::listener::Listener;
use serde_json::json;
use std::net::SocketAddr;
use std::sync::Arc;
use std::sync::atomic::{AtomicU64, Ordering};
use std::time::Duration;

const SECRET: &[u8] = b"c18-cookie-secret";

#[derive(Debug)]
struct TwoTiers;

impl DiscoveryAdapter for TwoTiers {
    async fn discover(&self) -> passage_adapters::Result<Vec<Target>> {
        let t = |id: &str, addr: &str, tier: &str| Target { identifier: id.into(), address: addr.parse().unwrap(), meta: [("tier".to_string(), tier.to_string())].into_iter().collect() };
        Ok(vec![t("staff-1", "10.0.0.1:25565", "staff"), t("public-1", "10.0.0.2:25565", "public")])
    }
}

fn session_cookie(host: &str) -> Vec<u8> {
    serde_json::to_vec(&json!({"id": "116934ee-8b5a-49d4-8b54-af0b4d6dbe5f", "server_address": host, "server_port": 25565})).unwrap()
}

fn auth_cookie(name: &str) -> Vec<u8> {
    let now = std::time::SystemTime::now().duration_since(std::time::UNIX_EPOCH).unwrap().as_secs();
    let body = serde_json::to_vec(&json!({
        "timestamp": now - 5, "client_addr": "127.0.0.1:1", "user_name": name,
        "user_id": "069a79f4-44e9-4726-a5be-fca90e38aaf5", "target": "public-1", "profile_properties": [], "extra": {},
    }))
    .unwrap();
    let mut out = hmac_sha256(SECRET, &body).to_vec();
    out.extend_from_slice(&body);
    out
}

struct ConnCase {
    label: &'static str,
    intent: i32,
    handshake_host: &'static str,
    session_host: Option<&'static str>,
    with_auth_cookie: bool,
    name: &'static str,
    /// Some(ip) = must be transferred there; None = must be refused (no Transfer)
    expect: Option<&'static str>,
}

pub fn whole_connections(rep: &Report) -> u64 {
    let n = AtomicU64::new(0);
    run_local(async {
        let meta = |host: &str, tier: &str| cfg::OptionFilterAdapter {
            hostname: Some(host.to_string()),
            filter: cfg::FilterAdapter::Meta(cfg::MetaFilter { rules: vec![cfg::FilterRule { key: "tier".into(), operation: cfg::FilterOperation::Equals(tier.into()) }] }),
        };
        let block = cfg::OptionFilterAdapter {
            hostname: Some("^play\\.".to_string()),
            filter: cfg::FilterAdapter::PlayerBlock(cfg::PlayerBlockFilter { usernames: Some(vec!["Blocked_One".into()]), username: None, ids: None }),
        };
        let filters = DynFilterAdapters::from_config(vec![meta("^play\\.", "public"), meta("^staff\\.", "staff"), block]).await.unwrap_or_else(|e| common::machinery(&format!("from_config(filter): {e}")));
        let strategy = DynStrategyAdapter::from_config(cfg::StrategyAdapter::Any).await.unwrap_or_else(|e| common::machinery(&format!("from_config(strategy): {e}")));
        let a = Arc::new(NetAdapters::new());
        let port = free_port();
        let addr: SocketAddr = format!("127.0.0.1:{port}").parse().unwrap();
        let stop = tokio_util::sync::CancellationToken::new();
        let mut listener = Listener::new(a.clone(), Arc::new(TwoTiers), Arc::new(filters), Arc::new(strategy), a.clone(), Arc::new(FixedLocalizationAdapter::default()))
            .with_auth_secret(Some(SECRET.to_vec()))
            .with_connection_timeout(Duration::from_secs(20));
        let stop2 = stop.clone();
        let done = tokio::task::spawn_local(async move { listener.listen(addr, stop2).await.map_err(|e| e.to_string()) });
        let mut up = false;
        for _ in 0..400 {
            if tokio::net::TcpStream::connect(addr).await.is_ok() {
                up = true;
                break;
            }
            tokio::time::sleep(Duration::from_millis(5)).await;
        }
        if !up {
            common::machinery("C18: the listener with the built-in filters did not come up");
        }
        let c = |label, intent, handshake_host, session_host, with_auth_cookie, name, expect| ConnCase { label, intent, handshake_host, session_host, with_auth_cookie, name, expect };
        let (staff, public) = (Some("10.0.0.1"), Some("10.0.0.2"));
        let cases = vec![
            c("login to the public host", 2, "play.example.net", None, false, "NetPlayer", public),
            c("login to the staff host", 2, "staff.example.net", None, false, "NetPlayer", staff),
            c("login to a host no filter names", 2, "other.example.net", None, false, "NetPlayer", staff),
            c("transfer to the public host, session cookie of the staff host", 3, "play.example.net", Some("staff.example.net"), false, "NetPlayer", public),
            c("transfer to the staff host, session cookie of the public host", 3, "staff.example.net", Some("play.example.net"), false, "NetPlayer", staff),
            c("transfer to a host no filter names, session cookie of the public host", 3, "other.example.net", Some("play.example.net"), false, "NetPlayer", staff),
            c("transfer to the public host, session cookie of a host no filter names", 3, "play.example.net", Some("other.example.net"), false, "NetPlayer", public),
            c("login to the public host, session cookie of the staff host", 2, "play.example.net", Some("staff.example.net"), false, "NetPlayer", public),
            c("transfer to the public host, valid authentication cookie, session cookie of the staff host", 3, "play.example.net", Some("staff.example.net"), true, "NetPlayer", public),
            c("transfer to the staff host, valid authentication cookie, session cookie of the public host", 3, "staff.example.net", Some("play.example.net"), true, "NetPlayer", staff),
            // the authentication cookie names the target of the last visit (public-1): where the player goes now is
            // still the strategy's decision among the targets that qualify now (default strategy: the first)
            c("transfer to a host no filter names, valid authentication cookie naming the second target", 3, "other.example.net", None, true, "NetPlayer", staff),
            c("transfer to a host no filter names, valid authentication cookie, session cookie of the public host", 3, "other.example.net", Some("play.example.net"), true, "NetPlayer", staff),
            c("blocked player on the public host", 2, "play.example.net", None, false, "Blocked_One", None),
            c("blocked player on the public host, session cookie of the staff host", 3, "play.example.net", Some("staff.example.net"), false, "Blocked_One", None),
            c("blocked player on the public host, valid authentication cookie, session cookie of the staff host", 3, "play.example.net", Some("staff.example.net"), true, "Blocked_One", None),
            c("blocked player on the staff host, session cookie of the public host", 3, "staff.example.net", Some("play.example.net"), false, "Blocked_One", staff),
        ];
        for case in cases {
            n.fetch_add(1, Ordering::Relaxed);
            let replay = json!({"connection": case.label});
            let Ok(mut cl) = McClient::connect(addr, None).await else {
                rep.violation(Violation { key: "connection:connect-failed".into(), text: case.label.into(), replay, weight: 3 });
                continue;
            };
            let p = LoginParams {
                intent: case.intent,
                host: case.handshake_host.into(),
                name: case.name.into(),
                session_cookie: case.session_host.map(session_cookie),
                auth_cookie: case.with_auth_cookie.then(|| auth_cookie(case.name)),
                wait: Duration::from_secs(2),
                ..Default::default()
            };
            let mut out = LoginOutcome { packets: vec![], stage: Stage::Connected, error: None };
            cl.login(&p, Stage::Connected, Stage::Transferred, &mut out).await;
            let went: Option<String> = out.packets.iter().find_map(|p| if let Pkt::Transfer { host, .. } = p { Some(host.clone()) } else { None });
            let ok = match (case.expect, &went) {
                (Some(ip), Some(h)) => h.parse::<std::net::IpAddr>().ok() == ip.parse().ok(),
                (None, None) => true,
                _ => false,
            };
            if !ok {
                let key = match (case.expect, &went) {
                    (None, Some(_)) => "connection:disqualified-player-routed",
                    (Some(_), None) => "connection:qualified-player-refused",
                    _ => "connection:rules-of-another-host-applied",
                };
                rep.violation(Violation {
                    key: key.into(),
                    text: format!("{} (handshake host {:?}, session cookie host {:?}, player {}): transferred to {went:?}, expected {:?}; stage {:?} error {:?}", case.label, case.handshake_host, case.session_host, case.name, case.expect, out.stage, out.error),
                    replay,
                    weight: 3,
                });
            }
        }
        stop.cancel();
        let _ = tokio::time::timeout(Duration::from_secs(2), done).await;
    });
    n.load(Ordering::Relaxed)
}


/// An authentication service that vouches for another name than the one the client claimed.
#[derive(Debug)]
struct Renaming;

fn real_name(claimed: &str) -> &str {
    match claimed {
        "Guest_A" => "Blocked_One",
        "Blocked_One" => "Fine_Player",
        "Vip_One" => "Guest_B",
        "Guest_C" => "Vip_One",
        other => other,
    }
}

impl passage_adapters::authentication::AuthenticationAdapter for Renaming {
    async fn authenticate(&self, _c: &SocketAddr, _s: (&str, u16), _p: passage_adapters::Protocol, user: (&str, &uuid::Uuid), _secret: &[u8], _key: &[u8]) -> passage_adapters::Result<passage_adapters::authentication::Profile> {
        Ok(passage_adapters::authentication::Profile { id: *user.1, name: real_name(user.0).to_string(), properties: vec![], profile_actions: vec![] })
    }
}

/// discovery whose answer changes: the first call finds `a` online and `b` offline, every later call the other way
/// round; later calls wait at a gate, and the calls listed in `fail` fail once they are let through
#[derive(Debug)]
struct Changing {
    calls: std::sync::atomic::AtomicUsize,
    gate: Arc<tokio::sync::Semaphore>,
    fail: Vec<usize>,
}

impl DiscoveryAdapter for Changing {
    async fn discover(&self) -> passage_adapters::Result<Vec<Target>> {
        let n = self.calls.fetch_add(1, Ordering::SeqCst);
        let t = |id: &str, addr: &str, status: &str| Target { identifier: id.into(), address: addr.parse().unwrap(), meta: [("status".to_string(), status.to_string())].into_iter().collect() };
        if n == 0 {
            return Ok(vec![t("a", "10.0.0.1:25565", "online"), t("b", "10.0.0.2:25565", "offline")]);
        }
        let p = self.gate.acquire().await.expect("gate");
        p.forget();
        if self.fail.contains(&n) {
            return Err(passage_adapters::Error::FailedFetch { adapter_type: "verif", cause: "the discovery backend fails on purpose".into() });
        }
        Ok(vec![t("a", "10.0.0.1:25565", "offline"), t("b", "10.0.0.2:25565", "online")])
    }
}

async fn listener_with<D: DiscoveryAdapter + 'static, A: passage_adapters::authentication::AuthenticationAdapter + 'static>(disc: Arc<D>, auth: Arc<A>, filters: Vec<cfg::OptionFilterAdapter>) -> (SocketAddr, tokio_util::sync::CancellationToken, tokio::task::JoinHandle<Result<(), String>>) {
    let filters = DynFilterAdapters::from_config(filters).await.unwrap_or_else(|e| common::machinery(&format!("from_config(filter): {e}")));
    let strategy = DynStrategyAdapter::from_config(cfg::StrategyAdapter::Any).await.unwrap_or_else(|e| common::machinery(&format!("from_config(strategy): {e}")));
    let a = Arc::new(NetAdapters::new());
    let port = free_port();
    let addr: SocketAddr = format!("127.0.0.1:{port}").parse().unwrap();
    let stop = tokio_util::sync::CancellationToken::new();
    let mut listener = Listener::new(a.clone(), disc, Arc::new(filters), Arc::new(strategy), auth, Arc::new(FixedLocalizationAdapter::default())).with_auth_secret(Some(SECRET.to_vec())).with_connection_timeout(Duration::from_secs(20));
    let stop2 = stop.clone();
    let done = tokio::task::spawn_local(async move { listener.listen(addr, stop2).await.map_err(|e| e.to_string()) });
    for _ in 0..400 {
        if tokio::net::TcpStream::connect(addr).await.is_ok() {
            return (addr, stop, done);
        }
        tokio::time::sleep(Duration::from_millis(5)).await;
    }
    common::machinery("C18: the listener with the built-in filters did not come up")
}

fn went(out: &LoginOutcome) -> Option<String> {
    out.packets.iter().find_map(|p| if let Pkt::Transfer { host, .. } = p { Some(host.clone()) } else { None })
}

/// Whole connections on which the authenticated name differs from the claimed one: the allow and block lists are
/// about the player who was authenticated (by the service or by a cookie), not about what Login Start says.
pub fn renamed_connections(rep: &Report) -> u64 {
    let mut n = 0;
    run_local(async {
        let names = |v: &[&str]| Some(v.iter().map(|s| s.to_string()).collect::<Vec<_>>());
        let filters = vec![
            cfg::OptionFilterAdapter { hostname: Some("^play\\.".to_string()), filter: cfg::FilterAdapter::PlayerBlock(cfg::PlayerBlockFilter { usernames: names(&["Blocked_One"]), username: None, ids: None }) },
            cfg::OptionFilterAdapter { hostname: Some("^vip\\.".to_string()), filter: cfg::FilterAdapter::PlayerAllow(cfg::PlayerAllowFilter { usernames: names(&["Vip_One"]), username: None, ids: None }) },
        ];
        let (addr, stop, done) = listener_with(Arc::new(TwoTiers), Arc::new(Renaming), filters).await;
        // (label, host, claimed, cookie for, routed?)
        let cases: Vec<(&str, &str, &str, Option<&str>, bool)> = vec![
            ("claims Guest_A, is Blocked_One, public host", "play.example.net", "Guest_A", None, false),
            ("claims Blocked_One, is Fine_Player, public host", "play.example.net", "Blocked_One", None, true),
            ("claims Plain, is Plain, public host", "play.example.net", "Plain", None, true),
            ("claims Vip_One, is Guest_B, vip host", "vip.example.net", "Vip_One", None, false),
            ("claims Guest_C, is Vip_One, vip host", "vip.example.net", "Guest_C", None, true),
            ("claims Plain, holds a cookie for Blocked_One, public host", "play.example.net", "Plain", Some("Blocked_One"), false),
            ("claims Blocked_One, holds a cookie for Plain, public host", "play.example.net", "Blocked_One", Some("Plain"), true),
            ("claims Plain, holds a cookie for Vip_One, vip host", "vip.example.net", "Plain", Some("Vip_One"), true),
            ("claims Vip_One, holds a cookie for Plain, vip host", "vip.example.net", "Vip_One", Some("Plain"), false),
        ];
        for (label, host, claimed, cookie_for, routed) in cases {
            n += 1;
            let replay = json!({"renamed": label});
            let Ok(mut cl) = McClient::connect(addr, None).await else { continue };
            let p = LoginParams { intent: if cookie_for.is_some() { 3 } else { 2 }, host: host.into(), name: claimed.into(), auth_cookie: cookie_for.map(auth_cookie), wait: Duration::from_secs(2), ..Default::default() };
            let mut out = LoginOutcome { packets: vec![], stage: Stage::Connected, error: None };
            cl.login(&p, Stage::Connected, Stage::Transferred, &mut out).await;
            let w = went(&out);
            let admitted = out.packets.iter().find_map(|p| if let Pkt::LoginSuccess { name, .. } = p { Some(name.clone()) } else { None });
            if w.is_some() != routed {
                rep.violation(Violation {
                    key: if routed { "connection:qualified-player-refused".into() } else { "connection:disqualified-player-routed".into() },
                    text: format!("{label}: admitted as {admitted:?}, transferred to {w:?} (stage {:?}, error {:?}); the lists are about the authenticated player: {}", out.stage, out.error, if routed { "a target qualifies" } else { "no target qualifies" }),
                    replay,
                    weight: 4,
                });
            }
        }
        stop.cancel();
        let _ = tokio::time::timeout(Duration::from_secs(2), done).await;
    });
    n
}

/// Connections that overlap in the discovery step while the discovered metadata changes: each player is routed on
/// what discovery answered for that very connection. (An earlier player was sent to `a`, which was online then; by
/// now only `b` is.) The first of the overlapping connections ends without a result - its client goes away, or its
/// discovery call fails.
pub fn overlapping_connections(rep: &Report) -> u64 {
    let mut n = 0;
    for (label, earlier, fail) in [("the first one's client goes away", true, false), ("the first one's discovery call fails", true, true), ("the first one's client goes away, nobody was routed before", false, false), ("the first one's discovery call fails, nobody was routed before", false, true)] {
        n += 1;
        run_local(async {
            let gate = Arc::new(tokio::sync::Semaphore::new(0));
            let first_gated = if earlier { 1 } else { 0 };
            let disc = Arc::new(Changing { calls: std::sync::atomic::AtomicUsize::new(if earlier { 0 } else { 1 }), gate: gate.clone(), fail: if fail { vec![1] } else { vec![] } });
            let _ = first_gated;
            let filters = vec![cfg::OptionFilterAdapter { hostname: None, filter: cfg::FilterAdapter::Meta(cfg::MetaFilter { rules: vec![cfg::FilterRule { key: "status".into(), operation: cfg::FilterOperation::Equals("online".into()) }] }) }];
            let (addr, stop, done) = listener_with(disc, Arc::new(NetAdapters::new()), filters).await;
            let replay = json!({"overlapping": label});
            let params = |name: &str| LoginParams { name: name.into(), host: "any.example.net".into(), wait: Duration::from_secs(2), ..Default::default() };
            if earlier {
                let mut c = McClient::connect(addr, None).await.expect("connect");
                let mut o = LoginOutcome { packets: vec![], stage: Stage::Connected, error: None };
                c.login(&params("Earlier"), Stage::Connected, Stage::Transferred, &mut o).await;
                if went(&o).as_deref() != Some("10.0.0.1") {
                    rep.violation(Violation { key: "connection:qualified-player-refused".into(), text: format!("{label}: the earlier player (only `a` online) was sent to {:?}", went(&o)), replay: replay.clone(), weight: 4 });
                }
            }
            let mut first = McClient::connect(addr, None).await.expect("connect");
            let mut o1 = LoginOutcome { packets: vec![], stage: Stage::Connected, error: None };
            first.login(&params("First"), Stage::Connected, Stage::InConfiguration, &mut o1).await;
            tokio::time::sleep(Duration::from_millis(30)).await;
            let mut second = McClient::connect(addr, None).await.expect("connect");
            let mut o2 = LoginOutcome { packets: vec![], stage: Stage::Connected, error: None };
            second.login(&params("Second"), Stage::Connected, Stage::InConfiguration, &mut o2).await;
            tokio::time::sleep(Duration::from_millis(30)).await;
            if fail {
                // the first player's call is let through (and fails); then everybody else's
                gate.add_permits(1);
                tokio::time::sleep(Duration::from_millis(60)).await;
                gate.add_permits(4);
                let from = o1.stage;
                first.login(&LoginParams { wait: Duration::from_millis(1200), ..params("First") }, from, Stage::Transferred, &mut o1).await;
                // whether or not the router asks discovery again for this player: if it is routed at all, then to a
                // target that qualifies now
                if went(&o1).is_some() && went(&o1).as_deref() != Some("10.0.0.2") {
                    rep.violation(Violation { key: "connection:disqualified-target-chosen".into(), text: format!("{label}: the first player, whose discovery call failed, was sent to {:?}; only `b` (10.0.0.2) is online", went(&o1)), replay: replay.clone(), weight: 4 });
                }
            } else {
                drop(first);
                tokio::time::sleep(Duration::from_millis(60)).await;
                gate.add_permits(4);
            }
            let from = o2.stage;
            second.login(&params("Second"), from, Stage::Transferred, &mut o2).await;
            if went(&o2).as_deref() != Some("10.0.0.2") {
                rep.violation(Violation {
                    key: if went(&o2).is_some() { "connection:disqualified-target-chosen".into() } else { "connection:qualified-player-refused".into() },
                    text: format!("{label}: the second player, whose own discovery finds `a` offline and `b` online, was sent to {:?} (stage {:?}, error {:?}); only `b` (10.0.0.2) qualifies", went(&o2), o2.stage, o2.error),
                    replay,
                    weight: 4,
                });
            }
            stop.cancel();
            let _ = tokio::time::timeout(Duration::from_secs(2), done).await;
        });
    }
    n
}


/// Accumulation on one set of filters: a player joins through eu.example (a scoped rule applies), then players join
/// through 1 100 other host names, then through eu.example, us.example and a host no rule names again. Which rules
/// apply depends on the host name of *this* connection only.
pub fn many_hostnames(rep: &Report) -> u64 {
    use passage_adapters::filter::FilterAdapter;
    let mut n = 0u64;
    run_local(async {
        let rule = |host: &str, region: &str| cfg::OptionFilterAdapter {
            hostname: Some(host.to_string()),
            filter: cfg::FilterAdapter::Meta(cfg::MetaFilter { rules: vec![cfg::FilterRule { key: "region".into(), operation: cfg::FilterOperation::Equals(region.into()) }] }),
        };
        let block = cfg::OptionFilterAdapter { hostname: Some("^eu\\.".to_string()), filter: cfg::FilterAdapter::PlayerBlock(cfg::PlayerBlockFilter { usernames: Some(vec!["Blocked_One".into()]), username: None, ids: None }) };
        let filters = DynFilterAdapters::from_config(vec![rule("^eu\\.", "eu"), rule("^us\\.", "us"), block]).await.unwrap_or_else(|e| common::machinery(&format!("from_config(filter): {e}")));
        let t = |id: &str, addr: &str, region: &str| Target { identifier: id.into(), address: addr.parse().unwrap(), meta: [("region".to_string(), region.to_string())].into_iter().collect() };
        let all = vec![t("us-1", "10.0.1.1:25565", "us"), t("eu-1", "10.0.2.1:25565", "eu"), t("ap-1", "10.0.3.1:25565", "ap")];
        let client: SocketAddr = "198.51.100.9:40000".parse().unwrap();
        let uuid = uuid::Uuid::from_u128(9);
        let mut hosts: Vec<(String, &str, Vec<&str>)> = vec![("eu.example".into(), "Player", vec!["eu-1"]), ("us.example".into(), "Player", vec!["us-1"]), ("eu.example".into(), "Blocked_One", vec![])];
        for i in 0..1_100 {
            hosts.push((format!("h{i}.example"), "Player", vec!["us-1", "eu-1", "ap-1"]));
        }
        for _ in 0..2 {
            hosts.extend([("eu.example".to_string(), "Player", vec!["eu-1"]), ("us.example".into(), "Player", vec!["us-1"]), ("eu.example".into(), "Blocked_One", vec![]), ("h3.example".into(), "Blocked_One", vec!["us-1", "eu-1", "ap-1"]), ("h1023.example".into(), "Player", vec!["us-1", "eu-1", "ap-1"])]);
        }
        for (i, (host, player, want)) in hosts.iter().enumerate() {
            n += 1;
            let got = filters.filter(&client, (host, 25565), 769, (player, &uuid), all.clone()).await;
            let ids: Option<Vec<String>> = got.as_ref().ok().map(|v| v.iter().map(|t| t.identifier.clone()).collect());
            if ids.as_deref() != Some(&want.iter().map(|s| s.to_string()).collect::<Vec<_>>()[..]) {
                rep.violation(Violation {
                    key: "connection:rules-of-another-host-applied".into(),
                    text: format!("call #{i} on one set of filters (after {} other host names): player {player} joining through {host} is left with {ids:?}; the rules for that host leave {want:?}", i.saturating_sub(3)),
                    replay: json!({"accumulation": "many-hostnames", "call": i}),
                    weight: 5,
                });
                break;
            }
        }
    });
    n
}

pub fn run(cli: Cli) -> ! {
    let rep = Report::new("C18", cli.tier, "exploration");
    if cli.replay.is_some() {
        println!("C18 cases are printed in full in the replay file; the sweep is re-run, which re-evaluates that case.");
    }
    enumk::c18::core(&rep, cli.tier.thorough());
    let n = whole_connections(&rep) + renamed_connections(&rep) + overlapping_connections(&rep);
    let many = many_hostnames(&rep);
    rep.set("filter_calls_over_1100_host_names_on_one_instance", json!(many));
    rep.require("whole connections through the built-in filters", n, 10);
    rep.set("whole_connections_over_tcp", json!(n));
    rep.assume("whole connections: two host-scoped metadata filters and a host-scoped block list built with DynFilterAdapters::from_config, the default strategy, two discovered targets; 'the host name the player connected with' is the handshake's");
    rep.finish()
}
