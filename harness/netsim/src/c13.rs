//! C13: per-address rate limiting is bounded, fair between addresses and self-cleaning.
//!
//! Two parts, one report: (1) enumk's enumeration of arrival histories on the real RateLimiter under the paused
//! clock; (2) where the limiter is used: histories of real TCP connections through the real Listener with PROXY
//! protocol, in which clients announcing three sources arrive through two load balancers - each is served exactly
//! while its own source is within its budget (the key is the client's address, not the load balancer's).
use common::{Cli, Violation};
use serde_json::json;

pub fn run(cli: Cli) -> ! {
    let replaying = cli.replay.is_some();
    enumk::c13::run_with(cli, &|rep| {
        if replaying {
            return;
        }
        let viols = crate::c15::limiter_fairness_through_listener();
        rep.set("histories_through_the_real_listener", json!(8));
        for (key, text, replay) in viols {
            rep.violation(Violation { key, text, replay, weight: 60 });
        }
    })
}
