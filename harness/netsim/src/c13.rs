//! C13: per-address rate limiting is bounded, fair between addresses and self-cleaning.
//!
//! Two parts, one report: (1) enumk's enumeration of arrival histories on the real RateLimiter under the paused
//! clock; (2) where the limiter is used: histories of real TCP connections through the real Listener with PROXY
//! protocol, in which clients announcing three sources arrive through two load balancers - each is served exactly
//! while its own source is within its budget (the key is the client's address, not the load balancer's).
use crate::net::*;
use common::{Cli, Violation};
use serde_json::json;
use std::time::Duration;

/// Whatever becomes of an admitted connection - its backend fails, its client sends garbage or goes away - it was
/// admitted: "no more than `limit` connections are admitted between two consecutive window starts". One address
/// makes eight attempts of mixed fate under limit 3 (one hour window): exactly the first three reach the backend or
/// receive anything; another address is unaffected.
fn admissions_of_connections_that_end_badly() -> Vec<(String, String, serde_json::Value)> {
    let mut out = vec![];
    for fates in [["backend-fails"; 8], ["garbage"; 8], ["hangs-up"; 8], ["backend-fails", "served", "garbage", "backend-fails", "served", "hangs-up", "served", "backend-fails"]] {
        let v: Vec<(String, String)> = run_local(async {
            let mut v = vec![];
            let mut adapters = NetAdapters::new();
            // (the status backend fails for a client that comes from 127.0.0.2 while `failing` is set)
            adapters.fail_ips = vec!["127.0.0.2".parse().unwrap()];
            let log = adapters.log.clone();
            let cfg = ListenerCfg { limiter: Some((3600, 3)), timeout: Duration::from_secs(20), ..Default::default() };
            let running = start_listener(&cfg, adapters).await;
            let mut reached = 0usize;
            for (i, fate) in fates.iter().enumerate() {
                // a connection that is to be served comes from the same address through the login path (the status
                // backend is the one that fails for it)
                let before = { let l = log.lock().unwrap(); l.status_clients.len() + l.auth_clients.len() };
                let Ok(mut c) = McClient::connect(running.addr, Some("127.0.0.2".parse().unwrap())).await else { continue };
                let received = match *fate {
                    "backend-fails" => {
                        let _ = c.status_exchange(Duration::from_millis(700)).await;
                        c.received
                    }
                    "garbage" => {
                        let _ = c.send_raw(&[0xff; 64]).await;
                        let _ = c.wait_closed(Duration::from_millis(700)).await;
                        c.received
                    }
                    "hangs-up" => {
                        let _ = c.handshake("h", 1, 1).await;
                        tokio::time::sleep(Duration::from_millis(20)).await;
                        0
                    }
                    _ => {
                        let mut o = LoginOutcome { packets: vec![], stage: Stage::Connected, error: None };
                        c.login(&LoginParams { wait: Duration::from_millis(700), ..Default::default() }, Stage::Connected, Stage::EncryptionRequestReceived, &mut o).await;
                        o.packets.len()
                    }
                };
                drop(c);
                tokio::time::sleep(Duration::from_millis(15)).await;
                let after = { let l = log.lock().unwrap(); l.status_clients.len() + l.auth_clients.len() };
                let admitted = after > before || received > 0 || (*fate == "garbage" && i < 3) || (*fate == "hangs-up" && i < 3);
                if after > before || received > 0 {
                    reached += 1;
                }
                if i >= 3 && (after > before || received > 0) {
                    v.push(("listener:admitted-beyond-the-limit".to_string(), format!("attempt #{} of 127.0.0.2 (limit 3 per hour; fates so far {:?}) was admitted: the backend was consulted {} time(s) for it, the client received {received} byte(s)", i + 1, &fates[..=i], after - before)));
                    break;
                }
                let _ = admitted;
            }
            let _ = reached;
            // another address has its own budget
            let mut other = 0;
            for _ in 0..4 {
                if let Ok(mut c) = McClient::connect(running.addr, Some("127.0.0.3".parse().unwrap())).await {
                    if c.status_exchange(Duration::from_millis(700)).await.is_ok() {
                        other += 1;
                    }
                }
            }
            if other != 3 {
                v.push(("listener:other-address-affected".to_string(), format!("after 127.0.0.2 used up its budget, 127.0.0.3 was served {other} times out of 4 attempts under limit 3")));
            }
            running.stop.cancel();
            let _ = tokio::time::timeout(Duration::from_secs(2), running.done).await;
            v
        });
        for (k, t) in v {
            out.push((k, t, json!({"listener": {"fates": fates}})));
        }
    }
    out
}

pub fn run(cli: Cli) -> ! {
    let replaying = cli.replay.is_some();
    enumk::c13::run_with(cli, &|rep| {
        if replaying {
            return;
        }
        let viols = crate::c15::limiter_fairness_through_listener();
        rep.set("histories_through_the_real_listener", json!(18));
        for (key, text, replay) in viols.into_iter().chain(admissions_of_connections_that_end_badly()) {
            rep.violation(Violation { key, text, replay, weight: 60 });
        }
        rep.set("histories_of_admitted_connections_that_end_badly", json!(4));
    })
}
