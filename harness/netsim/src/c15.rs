//! C15: admission is decided on the effective client address, before any protocol work.
//!
//! Enumeration of arrival histories of real TCP connections against the real `Listener`; every
//! connection ends at a barrier (status reply or end of stream), so OS timing cannot change a verdict.
use crate::net::*;
use common::refs::codec::Pkt;
use common::refs::sha::hmac_sha256;
use common::{Cli, Report, Violation, par_for};
use passage_protocol::rate_limiter::RateLimiter;
use serde::{Deserialize, Serialize};
use serde_json::{Value, json};
use std::net::{IpAddr, SocketAddr};
use std::sync::Mutex;
use std::sync::atomic::{AtomicU64, Ordering};
use std::time::Duration;

const X: &str = "203.0.113.10:1111";
const Y: &str = "203.0.113.11:2222";
const Z: &str = "[2001:db8::5]:3333";

#[derive(Clone, Debug, Serialize, Deserialize, PartialEq)]
pub struct Kind {
    peer: String,
    /// none | v1:<addr> | v2:<addr> | v1-unknown | v2-local | malformed | truncated
    header: String,
}

#[derive(Clone, Debug, Serialize, Deserialize, PartialEq)]
pub struct Spec {
    /// off | v1v2 | v2only
    proxy: String,
    /// 0 = limiter off
    limit: usize,
    history: Vec<Kind>,
    /// the last connection performs a full login instead of a status exchange
    login_last: bool,
    /// run against passage::start(config) in a child process (configuration -> listener wiring included)
    #[serde(default)]
    via_start: bool,
    /// limiter window in seconds (default: one hour, so that no window rolls over inside a history)
    #[serde(default = "hour")]
    window_s: u64,
    /// connection timeout of the listener in seconds (default 20; 1 for histories with a client that stalls
    /// before its header is complete until the server gives up)
    #[serde(default = "twenty")]
    timeout_s: u64,
}

fn twenty() -> u64 {
    20
}

fn hour() -> u64 {
    3600
}

/// `v1@2500:addr` = the header is sent 2500 ms (real time) after the connection was accepted
fn late_ms(header: &str) -> Option<u64> {
    let (_, r) = header.split_once('@')?;
    r.split_once(':')?.0.parse().ok()
}

fn without_delay(kind: &Kind) -> Kind {
    match (kind.header.split_once('@'), late_ms(&kind.header)) {
        (Some((ver, rest)), Some(_)) => Kind { peer: kind.peer.clone(), header: format!("{ver}:{}", rest.split_once(':').unwrap().1) },
        _ => kind.clone(),
    }
}

fn k(peer: &str, header: &str) -> Kind {
    Kind { peer: peer.into(), header: header.into() }
}

fn kinds(proxy: &str) -> Vec<Kind> {
    let p1 = "127.0.0.1";
    let p2 = "127.0.0.2";
    if proxy == "off" {
        return vec![k(p1, "none"), k(p2, "none"), k("127.0.0.3", "none")];
    }
    vec![
        k(p1, &format!("v1:{X}")),
        k(p2, &format!("v1:{X}")),
        k(p1, &format!("v2:{X}")),
        k(p1, &format!("v1:{Y}")),
        k(p1, &format!("v2:{Z}")),
        k(p2, &format!("v1:{Z}")),
        k(p2, &format!("v2d:{Y}")),
        k(p1, "none"),
        k(p1, "malformed"),
        k(p1, "truncated"),
        k(p1, "v1-unknown"),
        k(p1, "v2-local"),
        k(p2, "v2-local"),
        // the announced source is the load balancer's own address
        k(p1, "v1:127.0.0.1:4444"),
    ]
}

/// kinds whose header arrives in two TCP segments with a pause in between (real time, so they are only
/// used in a handful of dedicated histories)
fn split_kinds() -> Vec<Kind> {
    vec![k("127.0.0.1", &format!("v1/3:{X}")), k("127.0.0.1", &format!("v2/5:{X}")), k("127.0.0.2", &format!("v2/13:{Z}")), k("127.0.0.1", &format!("v1/1:{Y}"))]
}

fn header_bytes(kind: &Kind, server: SocketAddr) -> Vec<u8> {
    let kind = &without_delay(kind);
    let dst = |src: SocketAddr| -> SocketAddr { if src.is_ipv4() { server } else { "[2001:db8::ffff]:25565".parse().unwrap() } };
    match kind.header.as_str() {
        "none" => vec![],
        "v1-unknown" => proxy_v1_unknown(),
        "v2-local" => proxy_v2_local(),
        "malformed" => b"PROXY TCP4 999.1.1.1 1.1.1.1 1 1\r\n".to_vec(),
        "truncated" => proxy_v1(X.parse().unwrap(), server)[..12].to_vec(),
        "stall-silent" => vec![],
        "stall-half-header" => proxy_v1(X.parse().unwrap(), server)[..20].to_vec(),
        h if h.starts_with("v1/") || h.starts_with("v2/") => {
            let (ver, rest) = h.split_at(2);
            let a: SocketAddr = rest.split_once(':').unwrap().1.parse().unwrap();
            if ver == "v1" { proxy_v1(a, dst(a)) } else { proxy_v2(a, dst(a)) }
        }
        h if h.starts_with("v1:") => {
            let a: SocketAddr = h[3..].parse().unwrap();
            proxy_v1(a, dst(a))
        }
        h if h.starts_with("v2:") => {
            let a: SocketAddr = h[3..].parse().unwrap();
            proxy_v2(a, dst(a))
        }
        // a version 2 header that names the datagram transport (0x12 / 0x22): legal, and it announces a source
        h if h.starts_with("v2d:") => {
            let a: SocketAddr = h[4..].parse().unwrap();
            let mut b = proxy_v2(a, dst(a));
            b[13] = (b[13] & 0xf0) | 0x02;
            b
        }
        other => common::machinery(&format!("header {other}")),
    }
}

#[derive(Debug, PartialEq)]
enum Expect {
    /// must be closed without a single protocol byte and without touching any budget
    ClosedUncounted,
    /// valid header with an address / no PROXY protocol: served iff the limiter admits `addr.ip()`
    Limited(SocketAddr),
    /// valid header without an address: either closed, or treated as coming from the peer
    PeerOrClosed,
    /// a header that announces an address in a form a router may decline to take from a TCP peer (version 2 with
    /// the datagram transport): closed unserved, or served as the announced source - never as anybody else
    AnnouncedOrClosed(SocketAddr),
}

fn expect(proxy: &str, kind: &Kind, peer_addr: SocketAddr) -> Expect {
    let kind = &without_delay(kind);
    if proxy == "off" {
        return Expect::Limited(peer_addr);
    }
    // "neither": PROXY protocol is on but no version is allowed, so no header can be valid
    let version_allowed = |v: &str| proxy == "v1v2" || (proxy == "v2only" && v == "v2") || (proxy == "v1only" && v == "v1");
    match kind.header.as_str() {
        "none" | "malformed" | "truncated" | "stall-silent" | "stall-half-header" => Expect::ClosedUncounted,
        "v1-unknown" => if version_allowed("v1") { Expect::PeerOrClosed } else { Expect::ClosedUncounted },
        "v2-local" => if version_allowed("v2") { Expect::PeerOrClosed } else { Expect::ClosedUncounted },
        h if h.starts_with("v2d:") => {
            if version_allowed("v2") { Expect::AnnouncedOrClosed(h[4..].parse().unwrap()) } else { Expect::ClosedUncounted }
        }
        h => {
            let (v, a) = h.split_at(2);
            let a = a.split_once(':').unwrap().1;
            if version_allowed(v) { Expect::Limited(a.parse().unwrap()) } else { Expect::ClosedUncounted }
        }
    }
}

struct ConnObs {
    served: bool,
    bytes_received: usize,
    local: SocketAddr,
    detail: String,
    login_cookie_addr: Option<String>,
    login_transferred: bool,
}

async fn run_connection(server: SocketAddr, kind: &Kind, login: bool) -> ConnObs {
    let mut c = match McClient::connect(server, Some(kind.peer.parse().unwrap())).await {
        Ok(c) => c,
        Err(e) => return ConnObs { served: false, bytes_received: 0, local: server, detail: format!("connect failed: {e}"), login_cookie_addr: None, login_transferred: false },
    };
    let local = c.local;
    let hdr = header_bytes(kind, server);
    if let Some(ms) = late_ms(&kind.header) {
        tokio::time::sleep(Duration::from_millis(ms)).await;
    }
    match kind.header.split_once('/').and_then(|(_, r)| r.split_once(':')).and_then(|(n, _)| n.parse::<usize>().ok()) {
        Some(n) => {
            // the header arrives in two segments
            let n = n.min(hdr.len());
            let _ = c.send_raw(&hdr[..n]).await;
            tokio::time::sleep(Duration::from_millis(60)).await;
            let _ = c.send_raw(&hdr[n..]).await;
        }
        None => {
            let _ = c.send_raw(&hdr).await;
        }
    }
    if kind.header.starts_with("stall-") {
        // nothing more comes from this client: the server gives up at its connection timeout (1 s in these histories)
        let r = c.wait_closed(Duration::from_secs(4)).await;
        return ConnObs { served: false, bytes_received: c.received, local, detail: format!("{r:?}"), login_cookie_addr: None, login_transferred: false };
    }
    if kind.header == "truncated" {
        use tokio::io::AsyncWriteExt;
        let _ = c.stream.shutdown().await;
        let r = c.wait_closed(Duration::from_secs(2)).await;
        return ConnObs { served: false, bytes_received: c.received, local, detail: format!("{r:?}"), login_cookie_addr: None, login_transferred: false };
    }
    if !login {
        match c.status_exchange(Duration::from_secs(2)).await {
            Ok(_) => ConnObs { served: true, bytes_received: c.received, local, detail: "status served".into(), login_cookie_addr: None, login_transferred: false },
            Err(e) => ConnObs { served: false, bytes_received: c.received, local, detail: format!("{e:?}"), login_cookie_addr: None, login_transferred: false },
        }
    } else {
        let mut out = LoginOutcome { packets: vec![], stage: Stage::Connected, error: None };
        c.login(&LoginParams::default(), Stage::Connected, Stage::Transferred, &mut out).await;
        let cookie = out.packets.iter().find_map(|p| if let Pkt::StoreCookie { key, payload } = p { if key == "passage:authentication" && payload.len() > 32 { Some(payload.clone()) } else { None } } else { None });
        let cookie_addr = cookie.and_then(|p| {
            if hmac_sha256(b"c15-secret", &p[32..])[..] != p[..32] {
                return Some("<bad tag>".to_string());
            }
            serde_json::from_slice::<Value>(&p[32..]).ok().and_then(|v| v["client_addr"].as_str().map(String::from))
        });
        ConnObs { served: !out.packets.is_empty(), bytes_received: c.received, local, detail: format!("{:?} {:?}", out.stage, out.error), login_cookie_addr: cookie_addr, login_transferred: out.stage == Stage::Transferred }
    }
}

fn run_history(spec: &Spec) -> Vec<(String, String)> {
    if spec.via_start {
        return run_history_via_start(spec);
    }
    run_local(async {
        let mut v: Vec<(String, String)> = vec![];
        let adapters = NetAdapters::new();
        let log = adapters.log.clone();
        let cfg = ListenerCfg {
            proxy: match spec.proxy.as_str() {
                "off" => None,
                "v1v2" => Some((true, true)),
                "neither" => Some((false, false)),
                "v1only" => Some((true, false)),
                _ => Some((false, true)),
            },
            limiter: (spec.limit > 0).then_some((spec.window_s, spec.limit)),
            timeout: Duration::from_secs(spec.timeout_s),
            auth_secret: Some(b"c15-secret".to_vec()),
            ..Default::default()
        };
        let running = start_listener(&cfg, adapters).await;
        // the reference: a shadow instance of the real limiter fed with the reference model's effective IPs
        let mut shadow: Option<RateLimiter<IpAddr>> = (spec.limit > 0).then(|| RateLimiter::new(Duration::from_secs(spec.window_s), spec.limit));
        for (i, kind) in spec.history.iter().enumerate() {
            let login = spec.login_last && i + 1 == spec.history.len();
            let status_before = log.lock().unwrap().status_clients.len();
            let auth_before = log.lock().unwrap().auth_clients.len();
            let obs = run_connection(running.addr, kind, login).await;
            let seen: Vec<SocketAddr> = if login { log.lock().unwrap().auth_clients[auth_before..].to_vec() } else { log.lock().unwrap().status_clients[status_before..].to_vec() };
            let mut bad = |key: String, t: String| v.push((key, format!("connection #{i} {kind:?}: {t}")));
            let expected = match expect(&spec.proxy, kind, obs.local) {
                Expect::AnnouncedOrClosed(a) if obs.served || obs.bytes_received > 0 => Expect::Limited(a),
                // closed without a byte: declined (or refused by the limiter, which costs nothing either)
                Expect::AnnouncedOrClosed(_) => continue,
                e => e,
            };
            match expected {
                Expect::ClosedUncounted => {
                    if obs.served || obs.bytes_received > 0 {
                        bad(format!("served-without-valid-header:{}", kind.header.split(':').next().unwrap()), format!("received {} bytes ({})", obs.bytes_received, obs.detail));
                    }
                    if !seen.is_empty() {
                        bad("backend-consulted-for-header-less-connection".into(), format!("{seen:?}"));
                    }
                    if obs.detail.contains("Timeout") {
                        bad(format!("connection-without-valid-header-left-open:{}", kind.header.split(':').next().unwrap()), "not closed within 2 s".into());
                    }
                }
                Expect::Limited(eff) => {
                    let admit = shadow.as_mut().map(|s| s.enqueue(eff.ip())).unwrap_or(true);
                    if admit && !obs.served {
                        bad("admitted-address-not-served".into(), format!("effective address {eff}: the limiter admits it but the connection was not served ({})", obs.detail));
                    }
                    if !admit && (obs.served || obs.bytes_received > 0) {
                        bad("refused-address-served".into(), format!("effective address {eff}: the limiter refuses it but the client received {} bytes ({})", obs.bytes_received, obs.detail));
                    }
                    if !admit && !seen.is_empty() {
                        bad("protocol-work-for-refused-connection".into(), format!("backend consulted for {seen:?}"));
                    }
                    if obs.served {
                        if seen.first() != Some(&eff) {
                            bad("backend-sees-other-address".into(), format!("effective address {eff}, backend services saw {seen:?}"));
                        }
                        if login {
                            if !obs.login_transferred {
                                bad("login-not-completed".into(), obs.detail.clone());
                            }
                            let want = eff.to_string();
                            if obs.login_cookie_addr.as_deref() != Some(want.as_str()) {
                                bad("cookie-bound-to-other-address".into(), format!("effective address {eff}, cookie records {:?}", obs.login_cookie_addr));
                            }
                        }
                    }
                }
                Expect::AnnouncedOrClosed(_) => unreachable!("resolved above"),
                Expect::PeerOrClosed => {
                    if obs.served {
                        // treated as a connection from the peer: must be charged to and served under the peer address
                        let admit = shadow.as_mut().map(|s| s.enqueue(obs.local.ip())).unwrap_or(true);
                        if !admit {
                            bad("address-less-header-bypasses-limiter".into(), format!("served although the peer {} is over its budget", obs.local.ip()));
                        }
                        if seen.first().map(|a| a.ip()) != Some(obs.local.ip()) {
                            bad("address-less-header-served-under-other-address".into(), format!("peer {}, backend saw {seen:?}", obs.local));
                        }
                    } else if obs.bytes_received > 0 {
                        bad("partial-reply".into(), format!("{} bytes then closed", obs.bytes_received));
                    } else if let Some(s) = shadow.as_mut() {
                        // closed without a byte: either dropped as header-less (no budget) or refused by the
                        // limiter (the attempt is known to it). Both are allowed; keep the shadow in step with
                        // the only reading under which a refusal is possible.
                        let _ = s.enqueue(obs.local.ip());
                    }
                }
            }
        }
        running.stop.cancel();
        let _ = tokio::time::timeout(Duration::from_secs(3), running.done).await;
        v
    })
}

/// the same oracle against the whole application (child process): only what a client can see is judged
fn run_history_via_start(spec: &Spec) -> Vec<(String, String)> {
    let mode = match spec.proxy.as_str() {
        "v1only" => "v1",
        "v2only" => "v2",
        "v1v2" => "v1v2",
        "neither" => "neither",
        _ => "off",
    };
    let app = spawn_app(10_000, 60, 20, mode, spec.limit);
    let addr = app.addr;
    let v = run_local(async {
        let mut v: Vec<(String, String)> = vec![];
        let mut shadow: Option<RateLimiter<IpAddr>> = (spec.limit > 0).then(|| RateLimiter::new(Duration::from_secs(3600), spec.limit));
        // (readiness is read off the child's own listening socket - `net::wait_until_listening` -: no probe
        // connection has been made, nobody's budget has been touched)
        for (i, kind) in spec.history.iter().enumerate() {
            let obs = run_connection(addr, kind, false).await;
            let mut bad = |key: String, t: String| v.push((format!("{key}:through-passage-start"), format!("connection #{i} {kind:?} (passage::start, proxy {mode}): {t}")));
            let expected = match expect(&spec.proxy, kind, obs.local) {
                Expect::AnnouncedOrClosed(a) if obs.served || obs.bytes_received > 0 => Expect::Limited(a),
                // closed without a byte: declined (or refused by the limiter, which costs nothing either)
                Expect::AnnouncedOrClosed(_) => continue,
                e => e,
            };
            match expected {
                Expect::ClosedUncounted => {
                    if obs.served || obs.bytes_received > 0 {
                        bad(format!("served-without-valid-header:{}", kind.header.split(':').next().unwrap()), format!("received {} bytes ({})", obs.bytes_received, obs.detail));
                    }
                }
                Expect::Limited(eff) => {
                    let admit = shadow.as_mut().map(|s| s.enqueue(eff.ip())).unwrap_or(true);
                    if admit && !obs.served {
                        bad("admitted-address-not-served".into(), format!("effective address {eff}: the limiter admits it but the connection was not served ({})", obs.detail));
                    }
                    if !admit && (obs.served || obs.bytes_received > 0) {
                        bad("refused-address-served".into(), format!("effective address {eff}: the limiter refuses it but the client received {} bytes", obs.bytes_received));
                    }
                }
                Expect::AnnouncedOrClosed(_) => unreachable!("resolved above"),
                Expect::PeerOrClosed => {
                    if obs.served {
                        let _ = shadow.as_mut().map(|s| s.enqueue(obs.local.ip()));
                    }
                }
            }
        }
        v
    });
    let mut v = v;
    if stop_app(app) != Some(0) {
        v.push(("ctrl-c-does-not-stop-cleanly:through-passage-start".into(), "the application did not exit cleanly after SIGINT".into()));
    }
    v
}

/// For C13 (fairness between addresses, where the limiter is used): with PROXY protocol and a limit of 2, clients
/// announcing three sources arrive through two load balancers in several orders; each is served exactly while its
/// own source is within its budget, whatever the others and the load balancers did. Returns (key, text, replay).
pub fn limiter_fairness_through_listener() -> Vec<(String, String, serde_json::Value)> {
    let (p1, p2) = ("127.0.0.1", "127.0.0.2");
    let x1 = k(p1, &format!("v1:{X}"));
    let x2 = k(p2, &format!("v2:{X}"));
    let y1 = k(p1, &format!("v1:{Y}"));
    let y2 = k(p2, &format!("v1:{Y}"));
    let z1 = k(p1, &format!("v2:{Z}"));
    let hs: Vec<Vec<Kind>> = vec![
        vec![x1.clone(), x1.clone(), x1.clone(), y1.clone(), y1.clone(), y1.clone(), z1.clone()],
        vec![x1.clone(), y1.clone(), x2.clone(), y2.clone(), x1.clone(), y1.clone(), z1.clone(), z1.clone(), z1.clone()],
        vec![x1.clone(), x2.clone(), x1.clone(), x2.clone(), y2.clone(), z1.clone(), y1.clone(), y2.clone()],
        vec![z1.clone(), z1.clone(), z1.clone(), z1.clone(), x1.clone(), y1.clone()],
        // headers that announce nobody (v1 UNKNOWN, v2 LOCAL): if such a connection is served at all, then on the
        // budget of the load balancer it came through - again and again, it uses that budget up like anybody else
        vec![k(p1, "v1-unknown"), k(p1, "v1-unknown"), k(p1, "v1-unknown"), k(p1, "v1-unknown"), k(p1, "v2-local"), x1.clone()],
        vec![k(p2, "v2-local"), k(p2, "v2-local"), k(p2, "v2-local"), k(p2, "v1-unknown"), k(p2, "v2-local"), k(p1, "v2-local"), y2.clone()],
        vec![k(p1, "v1:127.0.0.1:4444"), k(p1, "v1-unknown"), k(p1, "v2-local"), k(p1, "v1-unknown"), k(p1, "v1:127.0.0.1:4445")],
        // IPv6 addresses that a conversion between the two families would fold onto an IPv4 address (`::a.b.c.d`, the
        // deprecated IPv4-compatible form; `::1` / `0.0.0.1`): other addresses, other budgets
        vec![x1.clone(), x1.clone(), x1.clone(), k(p2, "v2:[::203.0.113.10]:1111"), k(p2, "v2:[::203.0.113.10]:1111"), k(p1, "v1:[::203.0.113.10]:1111"), x2.clone()],
        vec![k(p1, "v2:[::1]:5000"), k(p1, "v2:[::1]:5000"), k(p1, "v2:[::1]:5000"), k(p2, "v1:0.0.0.1:5000"), k(p1, "v1:0.0.0.1:5000"), k(p1, "v1:0.0.0.1:5000")],
    ];
    let mut out = vec![];
    for limit in [1usize, 2] {
        for h in &hs {
            let spec = Spec { proxy: "v1v2".into(), limit, history: h.clone(), login_last: false, via_start: false, window_s: 3600, timeout_s: 20 };
            for (key, t) in run_history(&spec) {
                out.push((format!("listener:{key}"), format!("{t}; history {}", serde_json::to_string(&spec).unwrap()), json!({"listener": spec})));
            }
        }
    }
    out
}


/// Admission while the listener is stopping: connections that were accepted before shutdown was requested but send
/// their PROXY header only afterwards are admitted or refused on exactly the same budget as before - the request to
/// stop neither refills nor empties anybody's budget. (limit 2, one hour window; X has used its budget up.)
pub fn admission_while_stopping() -> Vec<(String, String, serde_json::Value)> {
    let mut out = vec![];
    for (label, announced, served_want) in [
        ("exhausted source, fresh source", vec![X, Y], vec![false, true]),
        ("fresh source three times", vec!["203.0.113.12:3333"; 3], vec![true, true, false]),
        ("fresh, exhausted, fresh", vec![Y, X, Y], vec![true, false, true]),
    ] {
        let r: Vec<(String, String)> = run_local(async {
            let mut v = vec![];
            let cfg = ListenerCfg { proxy: Some((true, true)), limiter: Some((3600, 2)), timeout: Duration::from_secs(20), ..Default::default() };
            let running = start_listener(&cfg, NetAdapters::new()).await;
            // X uses its budget up (and is refused the third time - or the history says nothing)
            let mut used = vec![];
            for _ in 0..3 {
                used.push(run_connection(running.addr, &k("127.0.0.1", &format!("v1:{X}")), false).await.served);
            }
            if used != [true, true, false] {
                common::machinery(&format!("C15 stopping histories: the budget of {X} was not used up as expected: {used:?}"));
            }
            let mut pending = vec![];
            for _ in &announced {
                match McClient::connect(running.addr, Some("127.0.0.2".parse().unwrap())).await {
                    Ok(c) => pending.push(c),
                    Err(e) => common::machinery(&format!("C15 stopping histories: connect failed: {e}")),
                }
            }
            tokio::time::sleep(Duration::from_millis(100)).await;
            running.stop.cancel();
            tokio::time::sleep(Duration::from_millis(300)).await;
            for (i, (mut c, src)) in pending.into_iter().zip(&announced).enumerate() {
                let src: SocketAddr = src.parse().unwrap();
                let _ = c.send_raw(&proxy_v1(src, running.addr)).await;
                let r = c.status_exchange(Duration::from_secs(2)).await;
                let served = r.is_ok();
                if served != served_want[i] || (!served && c.received > 0) {
                    v.push((
                        if served { "stopping:refused-address-served".to_string() } else { "stopping:admitted-address-not-served".to_string() },
                        format!("{label}: connection #{i}, accepted before shutdown was requested, announced {src} afterwards: {} ({} bytes received, {r:?}); on the budget of that address it must be {}", if served { "served" } else { "not served" }, c.received, if served_want[i] { "served" } else { "closed without a byte" }),
                    ));
                }
            }
            let _ = tokio::time::timeout(Duration::from_secs(3), running.done).await;
            v
        });
        for (key, t) in r {
            out.push((key, t, json!({"stopping": label})));
        }
    }
    out
}

fn histories(proxy: &str, depth: usize) -> Vec<Vec<Kind>> {
    let ks = kinds(proxy);
    let mut out: Vec<Vec<Kind>> = vec![];
    let mut frontier: Vec<Vec<Kind>> = vec![vec![]];
    for _ in 0..depth {
        let mut next = vec![];
        for h in &frontier {
            for kd in &ks {
                let mut n = h.clone();
                n.push(kd.clone());
                next.push(n);
            }
        }
        out.extend(next.iter().cloned());
        frontier = next;
    }
    out
}

pub fn run(cli: Cli) -> ! {
    let rep = Report::new("C15", cli.tier, "model_checking");
    if let Some(case) = cli.replay.clone().filter(|c| c.get("stopping").is_some()) {
        for (key, t, _) in admission_while_stopping() {
            println!("{key}: {t}");
            rep.violation(Violation { key, text: t, replay: case.clone(), weight: 0 });
        }
        rep.set("states", json!(1));
        rep.set("transitions", json!(1));
        rep.set("traces_validated_against_impl", json!(1));
        rep.finish();
    }
    if let Some(case) = cli.replay.clone() {
        let spec: Spec = serde_json::from_value(case["spec"].clone()).unwrap_or_else(|e| common::machinery(&format!("bad replay: {e}")));
        println!("spec: {}", serde_json::to_string_pretty(&spec).unwrap());
        for (key, t) in run_history(&spec) {
            println!("{key}: {t}");
            rep.violation(Violation { key, text: t, replay: case.clone(), weight: 0 });
        }
        rep.set("states", json!(1));
        rep.set("transitions", json!(spec.history.len().max(1)));
        rep.set("traces_validated_against_impl", json!(1));
        rep.finish();
    }
    let thorough = cli.tier.thorough();
    let mut specs: Vec<Spec> = vec![];
    for proxy in ["v1v2", "v2only", "off"] {
        let depth = match (proxy, thorough) {
            ("off", _) => 4,
            ("v1v2", true) => 4,
            ("v1v2", false) => 3,
            (_, true) => 3,
            (_, false) => 2,
        };
        for limit in [1usize, 2, 0] {
            for h in histories(proxy, depth) {
                if limit == 0 && h.len() > 2 {
                    continue; // without a limiter histories add nothing beyond pairs
                }
                specs.push(Spec { proxy: proxy.into(), limit, history: h, login_last: false, via_start: false, window_s: 3600, timeout_s: 20 });
            }
        }
        // one history per configuration and limiter setting ends in a full login
        for limit in [0usize, 2] {
            let ks = kinds(proxy);
            for first in [ks[0].clone(), ks[ks.len() - 1].clone()] {
                specs.push(Spec { proxy: proxy.into(), limit, history: vec![first, ks[0].clone()], login_last: true, via_start: false, window_s: 3600, timeout_s: 20 });
                if proxy != "off" {
                    specs.push(Spec { proxy: proxy.into(), limit, history: vec![ks[4].clone()], login_last: true, via_start: false, window_s: 3600, timeout_s: 20 });
                }
            }
        }
    }
    // PROXY protocol on with no version allowed: whatever arrives is closed unserved and uncounted
    for limit in [0usize, 1] {
        let ks = kinds("v1v2");
        for a in &ks {
            specs.push(Spec { proxy: "neither".into(), limit, history: vec![a.clone()], login_last: false, via_start: false, window_s: 3600, timeout_s: 20 });
        }
        specs.push(Spec { proxy: "neither".into(), limit, history: ks.clone(), login_last: false, via_start: false, window_s: 3600, timeout_s: 20 });
    }
    // headers that arrive in two segments with a pause (every split kind alone, after and before a
    // connection announcing the same source, under limit 1 and 2)
    for limit in [1usize, 2, 0] {
        for sk in split_kinds() {
            let whole = k("127.0.0.2", &sk.header.replacen(&sk.header[2..sk.header.find(':').unwrap()], "", 1));
            specs.push(Spec { proxy: "v1v2".into(), limit, history: vec![sk.clone()], login_last: false, via_start: false, window_s: 3600, timeout_s: 20 });
            specs.push(Spec { proxy: "v1v2".into(), limit, history: vec![whole.clone(), sk.clone()], login_last: false, via_start: false, window_s: 3600, timeout_s: 20 });
            specs.push(Spec { proxy: "v1v2".into(), limit, history: vec![sk.clone(), whole.clone(), sk.clone()], login_last: false, via_start: false, window_s: 3600, timeout_s: 20 });
        }
    }
    // The budget is charged when the connection is admitted, not when it was accepted: with a one second
    // window, a client that sends its header 2.5 s after connecting and one that announces the same source
    // right afterwards (refused), and the other way round (the early visit is more than two windows old when
    // the late header arrives: admitted).
    {
        let late = |peer: &str, ver: &str, a: &str| k(peer, &format!("{ver}@2500:{a}"));
        for limit in [1usize, 2] {
            for ver in ["v1", "v2"] {
                let prompt = k("127.0.0.2", &format!("{ver}:{X}"));
                let mut h1 = vec![late("127.0.0.1", ver, X)];
                let mut h2 = vec![];
                for _ in 0..limit {
                    h1.push(prompt.clone());
                    h2.push(prompt.clone());
                }
                h2.push(late("127.0.0.1", ver, X));
                h2.push(prompt.clone());
                specs.push(Spec { proxy: "v1v2".into(), limit, history: h1, login_last: false, via_start: false, window_s: 1, timeout_s: 20 });
                specs.push(Spec { proxy: "v1v2".into(), limit, history: h2, login_last: false, via_start: false, window_s: 1, timeout_s: 20 });
            }
        }
    }
    // A client that never completes its header until the server gives up (connection timeout 1 s) costs nobody
    // any budget - in particular not the load balancer's own address, which a later header may announce.
    for limit in [1usize, 2] {
        for stall in ["stall-silent", "stall-half-header"] {
            let own = k("127.0.0.1", "v1:127.0.0.1:4444");
            let mut h = vec![k("127.0.0.1", stall)];
            for _ in 0..=limit {
                h.push(own.clone());
            }
            specs.push(Spec { proxy: "v1v2".into(), limit, history: h, login_last: false, via_start: false, window_s: 3600, timeout_s: 1 });
            specs.push(Spec { proxy: "v1v2".into(), limit, history: vec![k("127.0.0.1", stall), k("127.0.0.1", stall), own.clone(), k("127.0.0.1", "v2-local"), own.clone()], login_last: false, via_start: false, window_s: 3600, timeout_s: 1 });
        }
    }
    // configuration -> listener wiring: the same kinds against passage::start for the one-version configurations
    for proxy in ["v1only", "v2only", "v1v2", "neither", "off"] {
        let ks = kinds(if proxy == "off" { "off" } else { "v1v2" });
        for limit in [0usize, 1] {
            // one history that walks through every kind once, and its reverse
            specs.push(Spec { proxy: proxy.into(), limit, history: ks.clone(), login_last: false, via_start: true, window_s: 3600, timeout_s: 20 });
            specs.push(Spec { proxy: proxy.into(), limit, history: ks.iter().rev().cloned().collect(), login_last: false, via_start: true, window_s: 3600, timeout_s: 20 });
        }
    }
    let rot = common::seed() as usize % specs.len();
    specs.rotate_left(rot);
    let conns = AtomicU64::new(0);
    let distinct: Mutex<std::collections::HashSet<String>> = Mutex::new(Default::default());
    par_for(specs.len(), |i| {
        let s = &specs[i];
        let t0 = std::time::Instant::now();
        let viols = run_history(s);
        if std::env::var("C15_SLOW").is_ok() && t0.elapsed().as_millis() > 200 {
            eprintln!("slow {} ms: {}", t0.elapsed().as_millis(), serde_json::to_string(s).unwrap());
        }
        conns.fetch_add(s.history.len() as u64, Ordering::Relaxed);
        distinct.lock().unwrap().insert(format!("{}|{}|{:?}", s.proxy, s.limit, s.history.iter().map(|k| k.header.split(':').next().unwrap().to_string()).collect::<Vec<_>>()));
        for (key, t) in viols {
            rep.violation(Violation { key, text: format!("{t}; history {}", serde_json::to_string(s).unwrap()), replay: json!({"spec": s}), weight: s.history.len() as u64 * 1000 + i as u64 % 1000 });
        }
    });
    let stopping = admission_while_stopping();
    rep.set("histories_with_headers_sent_after_shutdown_was_requested", json!(3));
    for (key, t, replay) in stopping {
        rep.violation(Violation { key, text: t, replay, weight: 50 });
    }
    let d = distinct.lock().unwrap().len() as u64;
    rep.require("histories", specs.len() as u64, 100);
    rep.set("states", json!(conns.load(Ordering::Relaxed)));
    rep.set("transitions", json!(conns.load(Ordering::Relaxed)));
    rep.set("traces_validated_against_impl", json!(specs.len()));
    rep.set("evaluations", json!(specs.len()));
    rep.set("distinct_nontrivial", json!(d));
    rep.set("histories", json!(specs.len()));
    rep.set("connections", json!(conns.load(Ordering::Relaxed)));
    rep.set("exhaustive", json!(true));
    rep.set("rule", json!("all arrival histories up to depth 3/4 over 13 connection kinds (two load-balancer peers; a source equal to the load balancer's own address; PROXY v1/v2 headers announcing two IPv4 and one IPv6 source; absent, malformed, truncated, disabled-version and address-less headers) for PROXY {v1+v2, v2 only, off} x limiter {limit 1, limit 2, off} with a one hour window; each connection is a real TCP connection that ends at a barrier (status reply or end of stream); plus histories ending in a full login, histories whose header arrives in two segments with a pause, the configuration in which PROXY protocol is on but no version is allowed, and 8 histories with a one second window in which a header arrives 2.5 s after its connection was accepted (the budget is charged at admission time), and 8 histories (connection timeout 1 s) that begin with clients whose header never completes. distinct_nontrivial = distinct (configuration, sequence of header classes)."));
    rep.sample(json!({"spec": specs[0]}));
    rep.sample(json!({"spec": Spec { proxy: "v1v2".into(), limit: 1, history: vec![k("127.0.0.1", &format!("v1:{X}")), k("127.0.0.2", &format!("v1:{X}")), k("127.0.0.1", "none")], login_last: false, via_start: false, window_s: 3600, timeout_s: 20 }, "expect": "served, refused (same announced source through another load balancer), closed uncounted"}));
    rep.assume("the verdict 'served exactly when the limiter admits' uses a shadow instance of the real RateLimiter fed with the reference model's effective addresses (the limiter's own bounds are C13's subject)");
    rep.assume("headers that are valid but announce no address (v1 UNKNOWN, v2 LOCAL) may be closed or treated as the peer; OS scheduling of loopback sockets is not controlled, every verdict is taken at a barrier with a 2 s deadline");
    rep.finish()
}
