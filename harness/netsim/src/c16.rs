//! C16: one stalled or hostile client never delays another.
//!
//! Every schedule = (configuration, stall point of the hostile client(s)); the hostile sockets are
//! held open while a well-behaved client with another effective address performs a status
//! exchange (and, in the thorough tier, a full login). The bound is the same for all schedules.
use crate::net::*;
use common::refs::codec;
use common::{Cli, Report, Violation, par_for};
use serde::{Deserialize, Serialize};
use serde_json::json;
use std::net::SocketAddr;
use std::sync::atomic::{AtomicU64, Ordering};
use std::time::{Duration, Instant};

const BOUND: Duration = Duration::from_secs(2);

#[derive(Clone, Debug, Serialize, Deserialize, PartialEq)]
pub struct Spec {
    proxy: bool,
    limiter: bool,
    /// where the hostile client stops
    stall: String,
    hostile: usize,
    /// the well-behaved client performs a full login
    login: bool,
    /// instead of hostile clients that are held open: so many short-lived connections one after the other, each
    /// ending on one of the listener's early exits (`stall` names the kind), before the well-behaved client comes
    #[serde(default)]
    churn: usize,
}

fn stalls(proxy: bool) -> Vec<&'static str> {
    let mut v = vec!["connected-silent", "mid-handshake-frame", "after-handshake", "after-login-start", "after-encryption-request", "in-configuration-never-echoing", "garbage-slowly"];
    if proxy {
        v.insert(1, "inside-proxy-header-1-byte");
        v.insert(2, "inside-proxy-header-half");
        v.insert(3, "proxy-header-complete-nothing-more");
        v.insert(4, "short-non-proxy-bytes");
    }
    v
}

/// Drives a hostile client to its stall point and returns the open socket(s) to be held.
async fn hostile(server: SocketAddr, proxy: bool, stall: &str, n: usize) -> Option<Option<McClient>> {
    let src: SocketAddr = format!("198.51.{}.{}:4000", 100 + n / 200, 20 + n % 200).parse().unwrap();
    let mut c = match McClient::connect(server, Some("127.0.0.2".parse().unwrap())).await {
        Ok(c) => c,
        // (a listener may refuse a connection - the limiter's verdict - by resetting it, and on loopback the reset
        // can overtake the end of connect(): such a hostile client was turned away, which is the listener's right)
        Err(e) if e.kind() == std::io::ErrorKind::ConnectionReset => return Some(None),
        Err(_) => return None,
    };
    // "mapped:<stall>": the load balancer reports its IPv4 clients in IPv4-mapped form (TCP6 ::ffff:a.b.c.d)
    let (hdr, stall) = match stall.strip_prefix("mapped:") {
        Some(rest) => (format!("PROXY TCP6 ::ffff:{} ::1 {} {}\r\n", src.ip(), src.port(), server.port()).into_bytes(), rest),
        None => (proxy_v1(src, server), stall),
    };
    match stall {
        "connected-silent" => return Some(Some(c)),
        "inside-proxy-header-1-byte" => {
            let _ = c.send_raw(&hdr[..1]).await;
            return Some(Some(c));
        }
        "inside-proxy-header-half" => {
            let _ = c.send_raw(&hdr[..hdr.len() / 2]).await;
            return Some(Some(c));
        }
        "short-non-proxy-bytes" => {
            // fewer bytes than the shortest PROXY header: the parser cannot decide yet
            let _ = c.send_raw(&[0x06, 0x00, 0x81, 0x06, 0x01]).await;
            return Some(Some(c));
        }
        _ => {}
    }
    if proxy {
        let _ = c.send_raw(&hdr).await;
    }
    if stall == "proxy-header-complete-nothing-more" {
        return Some(Some(c));
    }
    let p = LoginParams { wait: Duration::from_millis(1500), ..Default::default() };
    let mut out = LoginOutcome { packets: vec![], stage: Stage::Connected, error: None };
    match stall {
        "mid-handshake-frame" => {
            let f = codec::sb_handshake(769, "stalled.example", 25565, 2);
            let _ = c.send(&f[..f.len() / 2]).await;
        }
        "after-handshake" => c.login(&p, Stage::Connected, Stage::HandshakeSent, &mut out).await,
        "after-login-start" => c.login(&p, Stage::Connected, Stage::LoginStartSent, &mut out).await,
        "after-encryption-request" => c.login(&p, Stage::Connected, Stage::EncryptionRequestReceived, &mut out).await,
        "in-configuration-never-echoing" => c.login(&p, Stage::Connected, Stage::InConfiguration, &mut out).await,
        "garbage-slowly" => {
            let _ = c.send(&[0x7f]).await;
            tokio::time::sleep(Duration::from_millis(20)).await;
            let _ = c.send(&[0x7f, 0x01]).await;
        }
        other => common::machinery(&format!("stall {other}")),
    }
    Some(Some(c))
}

fn socket_linger_zero(s: &std::net::TcpStream) -> std::io::Result<()> {
    use std::os::fd::AsRawFd;
    let l = libc::linger { l_onoff: 1, l_linger: 0 };
    let r = unsafe { libc::setsockopt(s.as_raw_fd(), libc::SOL_SOCKET, libc::SO_LINGER, &l as *const _ as *const libc::c_void, std::mem::size_of::<libc::linger>() as libc::socklen_t) };
    if r == 0 { Ok(()) } else { Err(std::io::Error::last_os_error()) }
}

/// A long series of short-lived connections, one after the other, none of which is held open; then the
/// well-behaved client. Whatever each of them cost the listener must have been given back.
fn run_churn(spec: &Spec) -> (Duration, bool, String, bool) {
    run_local(async {
        let adapters = NetAdapters::new();
        let cfg = ListenerCfg { proxy: spec.proxy.then_some((true, true)), limiter: spec.limiter.then_some((3600, 2)), timeout: Duration::from_secs(20), auth_secret: None, ..Default::default() };
        let running = start_listener(&cfg, adapters).await;
        let mut ok = true;
        // "...-next-to-a-silent-one": one client connected first and has stayed silent ever since
        let silent = if spec.stall.ends_with("-next-to-a-silent-one") { McClient::connect(running.addr, Some("127.0.0.4".parse().unwrap())).await.ok() } else { None };
        let kind = spec.stall.trim_end_matches("-next-to-a-silent-one").to_string();
        for i in 0..spec.churn {
            if spec.stall == "churn-reset-in-backlog" {
                // connect, abort (RST) and go on without ever yielding to the listener in between: the connection is
                // already reset when the accept loop picks it up
                if let Ok(s) = std::net::TcpStream::connect(running.addr) {
                    let _ = socket_linger_zero(&s);
                    drop(s);
                }
                if i % 8 == 7 {
                    tokio::time::sleep(Duration::from_millis(2)).await;
                }
                continue;
            }
            let conn = McClient::connect(running.addr, Some("127.0.0.2".parse().unwrap())).await;
            if matches!(&conn, Err(e) if e.kind() == std::io::ErrorKind::ConnectionReset) && !running.done.is_finished() {
                // (turned away with a reset that overtook the end of connect(): one more short-lived connection)
                continue;
            }
            let Ok(mut c) = conn else {
                if running.done.is_finished() {
                    // not a harness problem: the listener itself has given up
                    break;
                }
                ok = false;
                break;
            };
            match kind.as_str() {
                // no PROXY header where one is required: closed unserved
                "churn-no-proxy-header" => {
                    let _ = c.send_raw(b"GET / HTTP/1.1\r\nHost: example\r\n\r\n").await;
                    if matches!(c.wait_closed(Duration::from_secs(2)).await, Err(ReadErr::Timeout)) {
                        // the listener no longer even turns such a connection away: no point in sending more of them
                        break;
                    }
                }
                // the same source again and again: refused by the limiter after the first two
                "churn-rate-limited" => {
                    if spec.proxy {
                        let _ = c.send_raw(&proxy_v1("198.51.100.200:4000".parse().unwrap(), running.addr)).await;
                    }
                    if matches!(c.status_exchange(Duration::from_millis(300)).await, Err(ReadErr::Timeout)) {
                        break;
                    }
                }
                // connects and hangs up at once
                "churn-connect-close" => {}
                // announces a source nobody has seen before and hangs up (the limiter has met 17 000 addresses when
                // the well-behaved client, one more new address, arrives)
                "churn-many-sources" => {
                    let src: SocketAddr = format!("10.{}.{}.{}:4000", 1 + i / 65_536, (i / 256) % 256, i % 256).parse().unwrap();
                    let _ = c.send_raw(&proxy_v2(src, running.addr)).await;
                    if i % 64 == 63 {
                        // let the listener catch up now and then
                        let _ = c.status_exchange(Duration::from_millis(500)).await;
                    }
                }
                // a complete, well-behaved status exchange from changing sources
                _ => {
                    if spec.proxy {
                        let src: SocketAddr = format!("198.51.{}.{}:4000", 100 + i / 200, 20 + i % 200).parse().unwrap();
                        let _ = c.send_raw(&proxy_v1(src, running.addr)).await;
                    }
                    if matches!(c.status_exchange(Duration::from_millis(500)).await, Err(ReadErr::Timeout)) {
                        break;
                    }
                }
            }
            drop(c);
        }
        let t0 = Instant::now();
        let good = async {
            let peer = if spec.proxy { "127.0.0.2" } else { "127.0.0.3" };
            let mut c = McClient::connect(running.addr, Some(peer.parse().unwrap())).await.map_err(|e| e.to_string())?;
            if spec.proxy {
                c.send_raw(&proxy_v2("203.0.113.77:7777".parse().unwrap(), running.addr)).await.map_err(|e| e.to_string())?;
            }
            c.status_exchange(BOUND).await.map(|_| ()).map_err(|e| format!("{e:?}"))
        };
        let r = tokio::time::timeout(BOUND, good).await;
        let elapsed = t0.elapsed();
        let (served, mut detail) = match r {
            Ok(Ok(())) => (true, "served".to_string()),
            Ok(Err(e)) => (false, e),
            Err(_) => (false, "no reply within the bound".into()),
        };
        if !served && running.done.is_finished() {
            detail.push_str(" (listen() has returned: the listener stopped accepting although nobody asked it to)");
        }
        drop(silent);
        running.stop.cancel();
        let _ = tokio::time::timeout(Duration::from_millis(500), running.done).await;
        (elapsed, served, detail, ok)
    })
}


/// A status client that dawdles - it reads its Status Response and sends its ping only 2.5 s later, which is more
/// than two limiter windows of one second - next to clients of other addresses that come and go meanwhile. Nobody
/// is delayed, then or afterwards. Returns violations.
fn dawdling_status_client() -> Vec<(String, String)> {
    run_local(async {
        let mut v = vec![];
        for proxy in [false, true] {
            let cfg = ListenerCfg { proxy: proxy.then_some((true, true)), limiter: Some((1, 100)), timeout: Duration::from_secs(20), ..Default::default() };
            let running = start_listener(&cfg, NetAdapters::new()).await;
            let ping = |peer: &'static str, src: &'static str| {
                let addr = running.addr;
                async move {
                    let mut c = McClient::connect(addr, Some(peer.parse().unwrap())).await.map_err(|e| e.to_string())?;
                    if proxy {
                        c.send_raw(&proxy_v2(src.parse().unwrap(), addr)).await.map_err(|e| e.to_string())?;
                    }
                    tokio::time::timeout(BOUND, c.status_exchange(BOUND)).await.map_err(|_| "no reply within the bound".to_string())?.map(|_| ()).map_err(|e| format!("{e:?}"))
                }
            };
            let Ok(mut slow) = McClient::connect(running.addr, Some("127.0.0.2".parse().unwrap())).await else { continue };
            if proxy {
                let _ = slow.send_raw(&proxy_v2("198.51.100.61:6100".parse().unwrap(), running.addr)).await;
            }
            let _ = slow.handshake("status.example", 25565, 1).await;
            let _ = slow.send(&codec::sb_status_request()).await;
            let _ = slow.read_packet(Duration::from_secs(2)).await;
            let mut faults = vec![];
            for k in 0..3 {
                tokio::time::sleep(Duration::from_millis(850)).await;
                if let Err(e) = ping("127.0.0.3", "198.51.100.62:6200").await {
                    faults.push(format!("while the slow client waits (t = {} ms): {e}", 850 * (k + 1)));
                }
            }
            let _ = slow.send(&codec::sb_ping(9)).await;
            let _ = slow.read_packet(Duration::from_secs(2)).await;
            drop(slow);
            for k in 0..3 {
                if let Err(e) = ping("127.0.0.3", "198.51.100.62:6200").await {
                    faults.push(format!("after the slow client finished (attempt {k}): {e}"));
                }
            }
            if !faults.is_empty() {
                v.push(("stalled=status-client-that-dawdles-past-two-limiter-windows".to_string(), format!("a well-behaved client was not served within {BOUND:?} next to a status client that took 2.5 s between its two packets (limiter window 1 s, PROXY protocol {proxy}): {faults:?}")));
            }
            running.stop.cancel();
            let _ = tokio::time::timeout(Duration::from_millis(500), running.done).await;
        }
        v
    })
}

/// An address that used its budget up comes back at every moment of the limiter's cycle - inside the window, between
/// one and two windows later (the window rolls over and the newcomer is turned away in one step), after two windows
/// (the bucket may have been cleaned away). Whatever the limiter makes of that address, the next client, from
/// another address, is served within the bound. Window 1 s, limit 2.
fn exhausted_address_returns() -> Vec<(String, String)> {
    run_local(async {
        let mut tasks = vec![];
        for proxy in [false, true] {
            for pause_ms in [300u64, 1_050, 1_400, 1_950, 2_100, 3_300] {
              tasks.push(tokio::task::spawn_local(async move {
                let mut v: Vec<(String, String)> = vec![];
                let cfg = ListenerCfg { proxy: proxy.then_some((true, true)), limiter: Some((1, 2)), timeout: Duration::from_secs(20), ..Default::default() };
                let running = start_listener(&cfg, NetAdapters::new()).await;
                let addr = running.addr;
                let visit = |peer: &'static str, src: &'static str| async move {
                    let mut c = McClient::connect(addr, Some(peer.parse().unwrap())).await.map_err(|e| e.to_string())?;
                    if proxy {
                        c.send_raw(&proxy_v2(src.parse().unwrap(), addr)).await.map_err(|e| e.to_string())?;
                    }
                    tokio::time::timeout(BOUND, c.status_exchange(BOUND)).await.map_err(|_| "no reply within the bound".to_string())?.map(|_| ()).map_err(|e| format!("{e:?}"))
                };
                for _ in 0..3 {
                    let _ = visit("127.0.0.2", "198.51.100.71:7100").await;
                }
                tokio::time::sleep(Duration::from_millis(pause_ms)).await;
                let _ = visit("127.0.0.2", "198.51.100.71:7100").await;
                let mut faults = vec![];
                for (peer, src) in [("127.0.0.3", "198.51.100.72:7200"), ("127.0.0.4", "198.51.100.73:7300")] {
                    if let Err(e) = visit(peer, src).await {
                        faults.push(format!("{peer} / {src}: {e}"));
                    }
                }
                if !faults.is_empty() {
                    v.push(("stalled=exhausted-address-returns".to_string(), format!("after an address that had used its budget up (limit 2 per second) came back {pause_ms} ms later, clients from other addresses were not served within {BOUND:?} (PROXY protocol {proxy}): {faults:?}{}", if running.done.is_finished() { " - listen() has returned" } else { "" })));
                }
                running.stop.cancel();
                let _ = tokio::time::timeout(Duration::from_millis(500), running.done).await;
                v
              }));
            }
        }
        let mut v = vec![];
        for t in tasks {
            if let Ok(x) = t.await {
                v.extend(x);
            }
        }
        v
    })
}

/// (elapsed, served, detail)
fn run_schedule(spec: &Spec) -> (Duration, bool, String, bool) {
    if spec.churn > 0 {
        return run_churn(spec);
    }
    run_local(async {
        let mut adapters = NetAdapters::new();
        // a hostile client that reaches the configuration phase waits for routing forever: the backend never
        // answers for *its* address (the well-behaved client has another effective address)
        adapters.blocked_ips = if spec.proxy { (0..spec.hostile).map(|n| format!("198.51.{}.{}", 100 + n / 200, 20 + n % 200).parse().unwrap()).collect() } else { vec!["127.0.0.2".parse().unwrap()] };
        let cfg = ListenerCfg { proxy: spec.proxy.then_some((true, true)), limiter: spec.limiter.then_some((3600, 2)), timeout: Duration::from_secs(20), auth_secret: None, ..Default::default() };
        let running = start_listener(&cfg, adapters).await;
        let mut held = vec![];
        let mut hostile_ok = true;
        for n in 0..spec.hostile {
            match hostile(running.addr, spec.proxy, &spec.stall, n).await {
                Some(Some(c)) => held.push(c),
                Some(None) => {}
                None => hostile_ok = false,
            }
        }
        if !hostile_ok && running.done.is_finished() {
            // not a harness problem: listen() has returned although nobody asked it to - nobody is served any more
            return (Duration::ZERO, false, "listen() returned on its own while the hostile clients were connecting: the listener no longer accepts anybody".into(), true);
        }
        // give the server the chance to pick the hostile connections up first
        tokio::time::sleep(Duration::from_millis(30)).await;
        // the well-behaved client: another peer and another announced source, so that a limiter refusal
        // can never be the reason it is not served
        let t0 = Instant::now();
        let good = async {
            // with PROXY protocol the well-behaved client arrives through the same load balancer (peer) as the
            // hostile ones and differs in its announced source; without it, it is another peer
            let peer = if spec.proxy { "127.0.0.2" } else { "127.0.0.3" };
            let mut c = McClient::connect(running.addr, Some(peer.parse().unwrap())).await.map_err(|e| e.to_string())?;
            if spec.proxy && spec.stall.starts_with("mapped:") {
                c.send_raw(format!("PROXY TCP6 ::ffff:203.0.113.77 ::1 7777 {}\r\n", running.addr.port()).as_bytes()).await.map_err(|e| e.to_string())?;
            } else if spec.proxy {
                c.send_raw(&proxy_v2("203.0.113.77:7777".parse().unwrap(), running.addr)).await.map_err(|e| e.to_string())?;
            }
            if spec.login {
                let mut out = LoginOutcome { packets: vec![], stage: Stage::Connected, error: None };
                c.login(&LoginParams { wait: BOUND, ..Default::default() }, Stage::Connected, Stage::Transferred, &mut out).await;
                if out.stage == Stage::Transferred { Ok(()) } else { Err(format!("login stopped at {:?}: {:?}", out.stage, out.error)) }
            } else {
                c.status_exchange(BOUND).await.map(|_| ()).map_err(|e| format!("{e:?}"))
            }
        };
        let r = tokio::time::timeout(BOUND, good).await;
        let elapsed = t0.elapsed();
        let (served, detail) = match r {
            Ok(Ok(())) => (true, "served".to_string()),
            Ok(Err(e)) => (false, e),
            Err(_) => (false, "no reply within the bound".into()),
        };
        drop(held);
        running.stop.cancel();
        let _ = tokio::time::timeout(Duration::from_millis(500), running.done).await;
        (elapsed, served, detail, hostile_ok)
    })
}

pub fn run(cli: Cli) -> ! {
    let rep = Report::new("C16", cli.tier, "model_checking");
    if let Some(case) = cli.replay.clone() {
        let spec: Spec = serde_json::from_value(case["spec"].clone()).unwrap_or_else(|e| common::machinery(&format!("bad replay: {e}")));
        let (el, served, detail, _) = run_schedule(&spec);
        println!("schedule {spec:?}: well-behaved client {} after {:?} ({detail})", if served { "served" } else { "NOT served" }, el);
        if !served {
            rep.violation(Violation { key: format!("stalled={}", spec.stall), text: detail, replay: case.clone(), weight: 0 });
        }
        rep.set("states", json!(1));
        rep.set("transitions", json!(1));
        rep.set("traces_validated_against_impl", json!(1));
        rep.finish();
    }
    let thorough = cli.tier.thorough();
    let mut specs = vec![];
    for proxy in [false, true] {
        for limiter in [false, true] {
            for stall in stalls(proxy) {
                for hostile in if thorough { vec![1usize, 2, 9, 40] } else { vec![1usize, 2, 9] } {
                    specs.push(Spec { proxy, limiter, stall: stall.into(), hostile, login: false, churn: 0 });
                    if thorough {
                        specs.push(Spec { proxy, limiter, stall: stall.into(), hostile, login: true, churn: 0 });
                    }
                }
            }
        }
    }
    if !thorough {
        for proxy in [false, true] {
            specs.push(Spec { proxy, limiter: true, stall: "connected-silent".into(), hostile: 1, login: true, churn: 0 });
        }
    }
    // a load balancer that reports IPv4 clients in IPv4-mapped form: each of them is still a client of its own
    for hostile in [2usize, 9] {
        for stall in ["mapped:after-handshake", "mapped:proxy-header-complete-nothing-more"] {
            specs.push(Spec { proxy: true, limiter: true, stall: stall.into(), hostile, login: false, churn: 0 });
        }
    }
    // more stalled logins than the machine has cores (whatever a login holds while it waits for its client - a
    // worker, a permit, a lock - there are more waiting clients than that), then a well-behaved login
    let many = 2 * std::thread::available_parallelism().map(|n| n.get()).unwrap_or(16) + 3;
    for stall in ["after-login-start", "after-encryption-request", "in-configuration-never-echoing"] {
        for proxy in if thorough { vec![false, true] } else { vec![false] } {
            specs.push(Spec { proxy, limiter: false, stall: stall.into(), hostile: many, login: true, churn: 0 });
        }
    }
    // a crowd: hundreds (thorough: thousands) of connections held open at a cheap stall point; both ends of
    // every connection are file descriptors of this process, several schedules run side by side
    let fd_limit = raise_fd_limit();
    let crowd_cap = (fd_limit.saturating_sub(400) / 2) as usize;
    if crowd_cap < 300 {
        rep.assume(&format!("the limit on open files ({fd_limit}) is too low for the crowd schedules (600 connections, both ends in this process); they were skipped"));
    }
    let mut crowds: Vec<Spec> = vec![];
    for proxy in [false, true] {
        if crowd_cap < 300 {
            break;
        }
        let mut crowd_stalls = vec!["connected-silent", "after-handshake", "mid-handshake-frame"];
        if proxy {
            crowd_stalls.push("inside-proxy-header-half");
        }
        for stall in crowd_stalls {
            for hostile in if thorough { vec![300usize, 1100.min(crowd_cap), 3000.min(crowd_cap)] } else { vec![600usize.min(crowd_cap)] } {
                crowds.push(Spec { proxy, limiter: false, stall: stall.into(), hostile, login: false, churn: 0 });
            }
        }
    }
    // churn: 1500 (thorough: 5000) short-lived connections one after the other that end on an early exit
    for (proxy, limiter, kind) in [(true, false, "churn-no-proxy-header"), (false, true, "churn-rate-limited"), (true, true, "churn-rate-limited"), (false, false, "churn-connect-close"), (true, false, "churn-connect-close"), (false, false, "churn-status"), (true, false, "churn-status"), (false, false, "churn-reset-in-backlog"), (true, true, "churn-reset-in-backlog"), (false, false, "churn-connect-close-next-to-a-silent-one"), (false, true, "churn-status-next-to-a-silent-one")] {
        specs.push(Spec { proxy, limiter, stall: kind.into(), hostile: 0, login: false, churn: if thorough { 5000 } else { 1500 } });
    }
    specs.push(Spec { proxy: true, limiter: true, stall: "churn-many-sources".into(), hostile: 0, login: false, churn: if thorough { 70_000 } else { 17_000 } });
    let max_ms = AtomicU64::new(0);
    let served_n = AtomicU64::new(0);
    let one = |s: &Spec| {
        let (el, served, detail, hostile_ok) = run_schedule(s);
        if !hostile_ok {
            common::machinery("a hostile client could not connect");
        }
        if served {
            served_n.fetch_add(1, Ordering::Relaxed);
            max_ms.fetch_max(el.as_millis() as u64, Ordering::Relaxed);
        } else {
            let phase = if s.churn > 0 { "after-churn" } else if s.proxy && matches!(s.stall.as_str(), "connected-silent" | "inside-proxy-header-1-byte" | "inside-proxy-header-half" | "short-non-proxy-bytes") { "before-proxy-header-complete" } else { "after-admission" };
            rep.violation(Violation {
                key: format!("stalled={}:{phase}", s.stall),
                text: if s.churn > 0 { format!("a well-behaved client was not served within {BOUND:?} after {} short-lived connections of kind '{}' had come and gone (proxy protocol {}, limiter {}): {detail}", s.churn, s.stall, s.proxy, s.limiter) } else { format!("a well-behaved client was not served within {BOUND:?} while {} hostile client(s) stalled at '{}' (proxy protocol {}, limiter {}): {detail}", s.hostile, s.stall, s.proxy, s.limiter) },
                replay: json!({"spec": s}),
                weight: (s.hostile * 10 + s.limiter as usize) as u64,
            });
        }
    };
    let returning = std::thread::spawn(exhausted_address_returns);
    par_for(specs.len(), |i| one(&specs[i]));
    for (k, t) in returning.join().unwrap_or_default() {
        rep.violation(Violation { key: k, text: t, replay: json!({"exhausted_address_returns": true}), weight: 71 });
    }
    for (k, t) in dawdling_status_client() {
        rep.violation(Violation { key: k, text: t, replay: json!({"dawdling": true}), weight: 70 });
    }
    // the crowds one after the other (each holds more than a thousand file descriptors)
    for s in &crowds {
        one(s);
    }
    specs.extend(crowds);
    rep.require("schedules in which the well-behaved client was served", served_n.load(Ordering::Relaxed), 10);
    rep.set("states", json!(specs.len()));
    rep.set("transitions", json!(specs.len()));
    rep.set("traces_validated_against_impl", json!(specs.len()));
    rep.set("evaluations", json!(specs.len()));
    rep.set("distinct_nontrivial", json!(specs.len()));
    rep.set("slowest_served_ms", json!(max_ms.load(Ordering::Relaxed)));
    rep.set("bound_ms", json!(BOUND.as_millis() as u64));
    rep.set("exhaustive", json!(true));
    rep.set("rule", json!("every stall point (silent after connect, 1 byte / half of the PROXY header, fewer bytes than any header, header complete, mid-frame, after handshake, after login start, after the encryption request, in configuration never echoing, slow garbage) x PROXY protocol on/off x limiter on/off x 1, 2, 9 (thorough: 40) hostile clients; crowds of 600 (thorough: 300, 1100, 3000) connections held open at four cheap stall points; 1500 (thorough: 5000) short-lived connections one after the other that end on each early exit (no PROXY header, refused by the limiter, hung up at once) or are served, and 17 000 (70 000) connections that each announce a source never seen before, before the well-behaved client comes; the well-behaved client has another effective address; each schedule is distinct"));
    rep.sample(json!({"spec": specs[0]}));
    rep.sample(json!({"spec": specs[specs.len() - 1]}));
    rep.assume("real time on loopback: 'never' is a 2 s deadline where the correct behaviour takes a few milliseconds; OS scheduling of the sockets is not controlled");
    rep.finish()
}
