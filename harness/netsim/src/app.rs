//! The application as an operator runs it: `passage::start` in a child process, configured by a YAML file and a
//! secret file that `Config::read()` reads - filters, strategy, fixed discovery, localization, limits, limiter,
//! PROXY protocol. Whole connections over loopback TCP, judged per property against what the configuration says.
#![allow(dead_code)]
use crate::net::*;
use crate::world::{order_fault, wire_faults, Rec};
use common::refs::codec::{self, Phase, Pkt};
use common::refs::sha::hmac_sha256;
use common::{Report, Violation};
use serde_json::{json, Value};
use std::net::SocketAddr;
use std::sync::Mutex;
use std::time::{Duration, Instant, SystemTime, UNIX_EPOCH};

/// (three lines, separators, trailing blanks and a final line break: only the whole of it is the key)
pub const APP_SECRET: &str = "app secret: first line\nsecond,line;with separators  \n\n";
const MAX_LEN: usize = 700;
const FIXED_NAME: &str = "Fixed_Profile";
const FIXED_UUID: &str = "00000000-0000-0000-0000-000000abcdef";

fn yaml(kind: &str, port: u16) -> String {
    let mut y = format!("address: \"{}:{port}\"\ntimeout: 40\n", if kind == "dualstack" { "[::]" } else { "127.0.0.1" });
    if kind != "defaults" {
        y.push_str(&format!("max_packet_length: {MAX_LEN}\n"));
    }
    if kind == "proxy" {
        y.push_str("proxy_protocol:\n  allow_v1: true\n  allow_v2: true\n");
    }
    if kind != "offline" {
        y.push_str("rate_limiter:\n  duration: 60\n  limit: 100000\n");
    }
    y.push_str("adapters:\n");
    y.push_str("  status:\n    fixed:\n      name: \"AppStatus\"\n      description: \"\\\"an app\\\"\"\n");
    y.push_str("  discovery:\n    fixed:\n      targets:\n      - identifier: \"pub-1\"\n        address: \"10.1.2.3:25566\"\n        meta:\n          type: \"public\"\n      - identifier: \"staff-1\"\n        address: \"10.9.9.9:25577\"\n        meta:\n          type: \"staff\"\n      - identifier: \"pub-2\"\n        address: \"[fd00::12]:25588\"\n        meta:\n          type: \"public\"\n          full: \"yes\"\n");
    y.push_str("  filter:\n");
    y.push_str("  - hostname: \"^play\\\\.\"\n    meta:\n      rules:\n      - key: \"type\"\n        op: \"equals\"\n        value: \"public\"\n");
    y.push_str("  - hostname: \"^staff\\\\.\"\n    meta:\n      rules:\n      - key: \"type\"\n        op: \"equals\"\n        value: \"staff\"\n");
    y.push_str("  - hostname: \"^locked\\\\.\"\n    player_allow: {}\n");
    y.push_str("  - hostname: \"^noop\\\\.\"\n    meta:\n      rules: []\n");
    y.push_str("  - hostname: \"^nofull\\\\.\"\n    meta:\n      rules:\n      - key: \"full\"\n        op: \"not_exists\"\n      - key: \"type\"\n        op: \"in\"\n        value: [\"public\"]\n");
    y.push_str("  - hostname: \"^banned\\\\.\"\n    player_block:\n      usernames: [\"Fixed_Profile\"]\n");
    y.push_str("  strategy:\n    any: null\n");
    if kind == "offline" {
        y.push_str("  authentication:\n    disabled: null\n");
    } else if let Some(sid) = kind.strip_prefix("mojang:") {
        y.push_str(&format!("  authentication:\n    mojang:\n      server_id: {}\n", serde_json::to_string(sid).unwrap()));
    } else {
        y.push_str(&format!("  authentication:\n    fixed:\n      profile:\n        id: \"{FIXED_UUID}\"\n        name: \"{FIXED_NAME}\"\n        properties:\n        - name: \"textures\"\n          value: \"dGV4dHVyZXM=\"\n          signature: \"c2ln\"\n"));
    }
    y.push_str("  localization:\n    fixed:\n      default_locale: \"en\"\n      messages:\n        en:\n          disconnect_no_target: \"{\\\"text\\\":\\\"no target (en)\\\"}\"\n          disconnect_timeout: \"{\\\"text\\\":\\\"timeout (en)\\\"}\"\n        de:\n          disconnect_no_target: \"{\\\"text\\\":\\\"kein Ziel (de)\\\"}\"\n          disconnect_timeout: \"{\\\"text\\\":\\\"Zeit um (de)\\\"}\"\n        de_AT:\n          disconnect_no_target: \"{\\\"text\\\":\\\"ka Ziel (de_AT)\\\"}\"\n");
    y
}

/// kind: full (everything configured, secret in the secret file) | proxy (full + PROXY protocol) | dualstack (full,
/// bound to [::]: the IPv4 clients of the harness are seen under their IPv4-mapped addresses) | offline
/// (authentication disabled, no secret, no limiter) | defaults (full, but limits left at their defaults)
pub fn spawn(kind: &str) -> App {
    spawn_env(kind, &[])
}

pub fn spawn_env(kind: &str, env: &[(&str, String)]) -> App {
    // (see `spawn_app_with`: a port on which something else answers is given up and another one is tried)
    for _attempt in 0..3 {
        if let Some(app) = spawn_env_once(kind, env) {
            return app;
        }
    }
    spawn_env_once(kind, env).unwrap_or_else(|| common::machinery(&format!("the application (configuration '{kind}') could not be started on four ports")))
}

fn spawn_env_once(kind: &str, env: &[(&str, String)]) -> Option<App> {
    let port = free_port();
    let dir = format!("{}/target/app-{}-{port}", common::VERIF_ROOT, std::process::id());
    std::fs::create_dir_all(&dir).expect("config dir");
    std::fs::write(format!("{dir}/config.yaml"), yaml(kind, port)).expect("write config");
    if kind != "offline" {
        std::fs::write(format!("{dir}/auth_secret"), APP_SECRET).expect("write secret");
    }
    let exe = common::self_exe();
    let mut cmd = std::process::Command::new(exe);
    cmd.arg("C14-child-read").env("CONFIG_FILE", format!("{dir}/config.yaml")).env("AUTH_SECRET_FILE", format!("{dir}/auth_secret")).env_remove("ENV_PREFIX");
    for (k, _) in std::env::vars().filter(|(k, _)| k.starts_with("PASSAGE_")) {
        cmd.env_remove(k);
    }
    for (k, v) in env {
        cmd.env(k, v);
    }
    let mut child = cmd.stdout(std::process::Stdio::null()).stderr(std::process::Stdio::piped()).spawn().expect("spawn child");
    let addr: SocketAddr = format!("127.0.0.1:{port}").parse().unwrap();
    if wait_until_listening(&mut child, port) {
        let _ = std::fs::remove_dir_all(&dir);
        return Some(App { child, addr });
    }
    if let Ok(Some(st)) = child.try_wait() {
        let mut err = String::new();
        if let Some(mut e) = child.stderr.take() {
            let _ = std::io::Read::read_to_string(&mut e, &mut err);
        }
        let _ = std::fs::remove_dir_all(&dir);
        if err.contains("Address already in use") {
            // somebody else had the port: another one is tried
            return None;
        }
        common::machinery(&format!("the application (configuration '{kind}') exited with {st} before listening: {}", err.lines().last().unwrap_or("")));
    }
    let _ = child.kill();
    let _ = child.wait();
    let _ = std::fs::remove_dir_all(&dir);
    return None;
    #[allow(unreachable_code)]
    common::machinery("passage::start (configuration read from files) did not start listening within 8 s")
}

type Viol = (String, String, Value);

fn cookie(key: &[u8], age: i64, ip: &str, user: &str) -> Vec<u8> {
    let now = SystemTime::now().duration_since(UNIX_EPOCH).unwrap().as_secs() as i64;
    let body = serde_json::to_vec(&json!({
        "timestamp": (now - age).max(0), "client_addr": if ip.contains(':') { format!("[{ip}]:1") } else { format!("{ip}:1") }, "user_name": user,
        "user_id": "09879557-e479-45a9-b434-a56377674627", "target": "t", "profile_properties": [], "extra": {},
    }))
    .unwrap();
    let mut out = hmac_sha256(key, &body).to_vec();
    out.extend_from_slice(&body);
    out
}

const SRC: &str = "203.0.113.44";

async fn connect(addr: SocketAddr, kind: &str) -> std::io::Result<McClient> {
    let mut c = McClient::connect(addr, None).await?;
    if kind == "proxy" {
        c.send_raw(&proxy_v1(format!("{SRC}:5555").parse().unwrap(), addr)).await?;
    }
    Ok(c)
}

fn client_ip(kind: &str) -> &'static str {
    match kind {
        "proxy" => SRC,
        // an IPv4 client of a dual-stack socket is seen under its IPv4-mapped address
        "dualstack" => "::ffff:127.0.0.1",
        _ => "127.0.0.1",
    }
}

/// a whole login; returns the record (all packets up to the end of the connection)
async fn login(addr: SocketAddr, kind: &str, p: &LoginParams) -> Rec {
    let mut out = LoginOutcome { packets: vec![], stage: Stage::Connected, error: None };
    let Ok(mut c) = connect(addr, kind).await else {
        return Rec { packets: vec![], stage: Stage::Connected, error: Some(ReadErr::Reset("connect".into())), ended: "refused".into(), connected: false };
    };
    c.login(p, Stage::Connected, Stage::Transferred, &mut out).await;
    let mut packets = out.packets.clone();
    let mut ended = "open".to_string();
    loop {
        match c.read_packet(Duration::from_millis(400)).await {
            Ok(pk) => packets.push(pk),
            Err(ReadErr::Eof) | Err(ReadErr::Reset(_)) => {
                ended = "eof".into();
                break;
            }
            Err(ReadErr::Timeout) => break,
            Err(ReadErr::Garbled(g)) => {
                ended = format!("garbled: {g}");
                break;
            }
        }
    }
    Rec { packets, stage: out.stage, error: out.error, ended, connected: true }
}

fn kinds(r: &Rec) -> Vec<&'static str> {
    r.packets.iter().map(|p| p.kind()).filter(|k| *k != "KeepAlive").collect()
}

fn success_name(r: &Rec) -> Option<String> {
    r.packets.iter().find_map(|p| if let Pkt::LoginSuccess { name, .. } = p { Some(name.clone()) } else { None })
}

fn flag(r: &Rec) -> Option<bool> {
    r.packets.iter().find_map(|p| if let Pkt::EncryptionRequest { should_authenticate, .. } = p { Some(*should_authenticate) } else { None })
}

fn params(host: &str) -> LoginParams {
    LoginParams { host: host.into(), name: "Claimed_App".into(), uuid: 0x1234_5678_9abc_4def_8123_4567_89ab_cdef, wait: Duration::from_secs(3), ..Default::default() }
}

/// keys that are not the configured secret (pieces, spellings, what a list-valued option left empty would yield)
fn wrong_keys() -> Vec<(&'static str, Vec<u8>)> {
    vec![
        ("the empty key", vec![]),
        ("the first line of the secret", b"app secret: first line".to_vec()),
        ("the secret without its trailing line breaks", APP_SECRET.trim_end().as_bytes().to_vec()),
        ("the secret up to its first comma", b"app secret: first line\nsecond".to_vec()),
        ("a single line break", b"\n".to_vec()),
        ("zero bytes as long as the secret", vec![0u8; APP_SECRET.len()]),
        ("another secret", b"another secret".to_vec()),
    ]
}

// ------------------------------------------------------------------------------------------------
// cases
// ------------------------------------------------------------------------------------------------

/// C01 / C02: cookies presented to the application (Transfer intent)
async fn cookie_cases(addr: SocketAddr, kind: &str, prop: &str, out: &Mutex<Vec<Viol>>) -> u64 {
    let ip = client_ip(kind);
    let mut n = 0;
    let mut cases: Vec<(String, Vec<u8>, bool)> = vec![("the configured secret".into(), cookie(APP_SECRET.as_bytes(), 5, ip, "Cookie_Holder"), true)];
    for (what, key) in wrong_keys() {
        cases.push((what.to_string(), cookie(&key, 5, ip, "Admin"), false));
    }
    cases.push(("the configured secret, for another address".into(), cookie(APP_SECRET.as_bytes(), 5, "192.0.2.200", "Cookie_Holder"), false));
    for (what, payload, genuine) in cases {
        n += 1;
        let mut p = params("play.example.org");
        p.intent = 3;
        p.auth_cookie = Some(payload);
        let r = login(addr, kind, &p).await;
        let (f, name) = (flag(&r), success_name(&r));
        let replay = json!({"app": {"kind": kind, "case": "cookie", "signed_with": what}});
        if prop == "C02" {
            if f != Some(!genuine) {
                out.lock().unwrap().push((if genuine { "app:genuine-cookie-not-honoured".into() } else { "app:authentication-skipped-for-a-cookie-not-signed-with-the-secret".into() }, format!("configuration '{kind}': a cookie signed with {what}: should_authenticate = {f:?} ({:?}, {:?})", kinds(&r), r.error), replay));
            }
        } else {
            let want = if genuine { "Cookie_Holder" } else { FIXED_NAME };
            if name.as_deref() != Some(want) {
                out.lock().unwrap().push(("app:admitted-under-an-identity-nobody-vouched-for".into(), format!("configuration '{kind}': a client presenting a cookie signed with {what} was admitted as {name:?}; the identity vouched for is {want} ({:?}, {:?})", kinds(&r), r.error), replay));
            }
        }
    }
    n
}

/// C03: the routing table the configuration describes
async fn routing_cases(addr: SocketAddr, kind: &str, out: &Mutex<Vec<Viol>>) -> u64 {
    let mut n = 0;
    // (host, locale, expected: Ok(target address) | Err(message text))
    let cases: Vec<(&str, &str, Result<&str, &str>)> = vec![
        ("play.example.org", "en_us", Ok("10.1.2.3:25566")),
        ("staff.example.org", "en_us", Ok("10.9.9.9:25577")),
        ("noop.example.org", "en_us", Ok("10.1.2.3:25566")),
        ("other.example.org", "en_us", Ok("10.1.2.3:25566")),
        ("nofull.example.org", "en_us", Ok("10.1.2.3:25566")),
        ("locked.example.org", "en_us", Err("no target (en)")),
        ("locked.example.org", "de_DE", Err("kein Ziel (de)")),
        ("locked.example.org", "de_AT", Err("ka Ziel (de_AT)")),
        ("locked.example.org", "fr_FR", Err("no target (en)")),
        ("banned.example.org", "de", Err("kein Ziel (de)")),
        ("xlocked.example.org", "en_us", Ok("10.1.2.3:25566")),
        ("locked.play.example.org", "en_us", Err("no target (en)")),
    ];
    for (host, locale, want) in cases {
        n += 1;
        let mut p = params(host);
        p.locale = locale.into();
        let r = login(addr, kind, &p).await;
        let last = r.packets.last().cloned();
        let ok = match (&want, &last) {
            (Ok(a), Some(Pkt::Transfer { host, port })) => {
                let a: SocketAddr = a.parse().unwrap();
                host.parse::<std::net::IpAddr>().ok() == Some(a.ip()) && *port == a.port() as i32
            }
            (Err(text), Some(Pkt::ConfDisconnect { reason })) => reason.to_string().contains(text) && !kinds(&r).contains(&"Transfer"),
            _ => false,
        };
        if !ok {
            out.lock().unwrap().push((
                if want.is_ok() { "app:transfer-is-not-the-configured-choice".into() } else { "app:player-without-a-target-not-refused-in-their-language".into() },
                format!("configuration '{kind}': a player joining through {host} (locale {locale}) ended with {last:?} ({:?}, {:?}); the configuration says {want:?}", kinds(&r), r.error),
                json!({"app": {"kind": kind, "case": "routing", "host": host, "locale": locale}}),
            ));
        }
    }
    n
}

/// C04: declared frame lengths around the configured maximum, in the handshake, login and configuration states
async fn length_cases(addr: SocketAddr, kind: &str, out: &Mutex<Vec<Viol>>) -> u64 {
    let mut n = 0;
    let max = if kind == "defaults" { 10_000 } else { MAX_LEN };
    for state in ["handshake", "login", "configuration"] {
        for (len, refused) in [(max + 1, true), (max + 57, true), (5 * max, true), (2_097_151, true), (max, false), (max - 1, false)] {
            n += 1;
            let Ok(mut c) = connect(addr, kind).await else { continue };
            let mut o = LoginOutcome { packets: vec![], stage: Stage::Connected, error: None };
            let p = params("play.example.org");
            match state {
                "login" => c.login(&p, Stage::Connected, Stage::LoginStartSent, &mut o).await,
                "configuration" => c.login(&p, Stage::Connected, Stage::LoginSuccessReceived, &mut o).await,
                _ => {}
            }
            if o.error.is_some() {
                out.lock().unwrap().push(("app:honest-client-not-served".into(), format!("configuration '{kind}': could not reach the {state} state: {:?}", o.error), json!({"app": {"kind": kind, "case": "length", "state": state}})));
                continue;
            }
            // only the length prefix: a server that waits for the body has not refused the frame
            let _ = c.send(&codec::varint(len as i32)).await;
            let t0 = Instant::now();
            let closed = c.wait_closed(Duration::from_millis(1200)).await.is_ok();
            if closed != refused {
                out.lock().unwrap().push((
                    if refused { "app:frame-beyond-the-configured-maximum-not-refused".into() } else { "app:frame-within-the-configured-maximum-refused".into() },
                    format!("configuration '{kind}' (max_packet_length {max}), {state} state: after a length prefix announcing {len} bytes the connection was {} {:?} later", if closed { "closed" } else { "still open" }, t0.elapsed()),
                    json!({"app": {"kind": kind, "case": "length", "state": state, "len": len}}),
                ));
            }
        }
    }
    n
}

/// C05 / C06 / C09: whole logins (lock-step and pipelined) and status exchanges, judged on the wire
async fn exchange_cases(addr: SocketAddr, kind: &str, prop: &str, out: &Mutex<Vec<Viol>>) -> u64 {
    let mut n = 0;
    let secret = kind != "offline";
    for pipelined in [false, true] {
        for intent in [2, 3] {
            for proto in [769, 766, 772] {
                n += 1;
                let mut p = params("play.example.org");
                p.pipelined = pipelined;
                p.intent = intent;
                p.proto = proto;
                let r = login(addr, kind, &p).await;
                let replay = json!({"app": {"kind": kind, "case": "login", "pipelined": pipelined, "intent": intent, "proto": proto}});
                let what = format!("configuration '{kind}': a {} login (intent {intent}, protocol {proto})", if pipelined { "pipelined" } else { "lock-step" });
                let mut want = vec!["LoginCookieRequest"];
                if intent == 3 && secret {
                    want.push("LoginCookieRequest");
                }
                want.extend(["EncryptionRequest", "LoginSuccess"]);
                if secret {
                    want.push("StoreCookie");
                }
                want.extend(["StoreCookie", "Transfer"]);
                match prop {
                    "C05" => {
                        for f in wire_faults(&r) {
                            out.lock().unwrap().push(("app:stream-not-decryptable-as-frames".into(), format!("{what}: {f}"), replay.clone()));
                        }
                        if common::one_cookie_request(&kinds(&r)) != common::one_cookie_request(&want) {
                            out.lock().unwrap().push(("app:encrypted-exchange-broken".into(), format!("{what} was answered with {:?} ({:?}, {}); expected {want:?}", kinds(&r), r.error, r.ended), replay.clone()));
                        }
                    }
                    "C06" => {
                        if let Some(f) = order_fault(&r) {
                            out.lock().unwrap().push(("app:packet-out-of-protocol-order".into(), format!("{what}: {f}"), replay.clone()));
                        } else if common::one_cookie_request(&kinds(&r)) != common::one_cookie_request(&want) {
                            out.lock().unwrap().push(("app:login-not-answered-in-protocol-order".into(), format!("{what} was answered with {:?} ({:?}, {}); the order is {want:?}", kinds(&r), r.error, r.ended), replay.clone()));
                        }
                    }
                    _ => {
                        for f in wire_faults(&r) {
                            out.lock().unwrap().push(("app:frame-is-not-a-protocol-packet".into(), format!("{what}: {f}"), replay.clone()));
                        }
                    }
                }
            }
        }
    }
    // status exchanges whose handshake frame has every length a host name of 0..=255 bytes gives it
    if prop == "C09" || prop == "C06" {
        for host_len in 0..=255usize {
            if MAX_LEN < host_len + 10 {
                continue;
            }
            n += 1;
            let Ok(mut c) = connect(addr, kind).await else { continue };
            c.phase = Phase::Status;
            let host: String = "h".repeat(host_len);
            let _ = c.send(&codec::sb_handshake(769, &host, 25565, 1)).await;
            let _ = c.send(&codec::sb_status_request()).await;
            let a = c.read_packet(Duration::from_secs(2)).await;
            let _ = c.send(&codec::sb_ping(0xa5a5_0000 + host_len as u64)).await;
            let b = c.read_packet(Duration::from_secs(2)).await;
            let extra = c.read_packet(Duration::from_millis(if host_len % 32 == 0 { 300 } else { 1 })).await;
            let ok = matches!((&a, &b), (Ok(Pkt::StatusResponse { body }), Ok(Pkt::Pong { payload })) if body.contains("AppStatus") && *payload == 0xa5a5_0000 + host_len as u64) && !matches!(extra, Ok(_));
            if !ok {
                out.lock().unwrap().push((
                    if prop == "C09" { "app:status-exchange-not-decoded".into() } else { "app:status-not-answered-with-one-response-and-one-pong".into() },
                    format!("configuration '{kind}': a status exchange whose handshake names a host of {host_len} bytes (frame length {}) got {a:?}, {b:?}, then {extra:?}", codec::get_varint(&codec::sb_handshake(769, &host, 25565, 1)).map(|x| x.0).unwrap_or(0)),
                    json!({"app": {"kind": kind, "case": "status", "host_len": host_len}}),
                ));
            }
        }
    }
    n
}

/// C07: a logged-in client that withholds Client Information is kept alive (first Keep Alive within 16 s), and is
/// routed as soon as it sends it
async fn keep_alive_case(addr: SocketAddr, kind: &str, out: &Mutex<Vec<Viol>>) -> u64 {
    let replay = json!({"app": {"kind": kind, "case": "keep-alive"}});
    let Ok(mut c) = connect(addr, kind).await else {
        out.lock().unwrap().push(("app:honest-client-not-served".into(), format!("configuration '{kind}': connect failed"), replay));
        return 1;
    };
    let p = params("play.example.org");
    let mut o = LoginOutcome { packets: vec![], stage: Stage::Connected, error: None };
    c.login(&p, Stage::Connected, Stage::LoginSuccessReceived, &mut o).await;
    let t0 = Instant::now();
    if o.error.is_some() {
        out.lock().unwrap().push(("app:honest-client-not-served".into(), format!("configuration '{kind}': login failed: {:?}", o.error), replay));
        return 1;
    }
    let _ = c.send(&codec::sb_login_ack()).await;
    let first = c.read_packet(Duration::from_millis(17_500)).await;
    let at = t0.elapsed();
    match first {
        Ok(Pkt::KeepAlive { id }) if at <= Duration::from_millis(17_000) => {
            let _ = c.send(&codec::sb_keep_alive(id)).await;
            tokio::time::sleep(Duration::from_millis(700)).await;
            let _ = c.send(&codec::sb_client_information("en_us")).await;
            let mut got = vec![];
            loop {
                match c.read_packet(Duration::from_secs(2)).await {
                    Ok(pk) => got.push(pk),
                    Err(_) => break,
                }
            }
            let ok = matches!(got.last(), Some(Pkt::Transfer { host, port }) if host == "10.1.2.3" && *port == 25566) && !got.iter().any(|p| matches!(p, Pkt::ConfDisconnect { .. }));
            if !ok {
                out.lock().unwrap().push(("app:waiting-player-not-routed".into(), format!("configuration '{kind}': a player that echoed its Keep Alive after {at:?} and then sent Client Information got {:?}", got.iter().map(|p| p.kind()).collect::<Vec<_>>()), replay));
            }
        }
        other => {
            out.lock().unwrap().push(("app:waiting-player-not-kept-alive".into(), format!("configuration '{kind}': a logged-in player that had not yet sent Client Information got {other:?} {at:?} after Login Success; a Keep Alive is due within 16 s"), replay));
        }
    }
    1
}

/// C10: the cookie the application issues, presented again; and ages around the (default) expiry
async fn issue_cases(addr: SocketAddr, kind: &str, out: &Mutex<Vec<Viol>>) -> u64 {
    let mut n = 1;
    let ip = client_ip(kind);
    let r = login(addr, kind, &params("staff.example.org")).await;
    let replay = json!({"app": {"kind": kind, "case": "issue"}});
    let issued = r.packets.iter().find_map(|p| match p {
        Pkt::StoreCookie { key, payload } if key == "passage:authentication" => Some(payload.clone()),
        _ => None,
    });
    match &issued {
        None => out.lock().unwrap().push(("app:no-cookie-issued".into(), format!("configuration '{kind}' (secret configured): a freshly authenticated, routed player got {:?} ({:?})", kinds(&r), r.error), replay.clone())),
        Some(payload) => {
            let c = crate::world::open_auth_cookie(payload, APP_SECRET.as_bytes());
            let b = &c["body"];
            let addr_ok = b["client_addr"].as_str().and_then(|a| a.parse::<SocketAddr>().ok()).is_some_and(|a| a.ip().to_string() == ip);
            let props_ok = b["profile_properties"] == json!([{"name": "textures", "value": "dGV4dHVyZXM=", "signature": "c2ln"}]);
            if c["tag_ok"] != json!(true) || b["user_name"] != json!(FIXED_NAME) || b["user_id"] != json!(FIXED_UUID) || b["target"] != json!("staff-1") || !addr_ok || !props_ok {
                out.lock().unwrap().push(("app:issued-cookie-wrong".into(), format!("configuration '{kind}': the cookie issued to {FIXED_NAME} from {ip}, routed to staff-1, is {c}"), replay.clone()));
            }
            n += 1;
            let mut p = params("play.example.org");
            p.intent = 3;
            p.auth_cookie = Some(payload.clone());
            let r2 = login(addr, kind, &p).await;
            if flag(&r2) != Some(false) || success_name(&r2).as_deref() != Some(FIXED_NAME) || !kinds(&r2).contains(&"Transfer") {
                out.lock().unwrap().push(("app:issued-cookie-not-accepted".into(), format!("configuration '{kind}': the issued cookie presented again from the same address: should_authenticate {:?}, admitted as {:?}, {:?}", flag(&r2), success_name(&r2), kinds(&r2)), replay.clone()));
            }
        }
    }
    if kind == "defaults" {
        // the expiry was left at its default (6 h)
        for (age, accepted) in [(0i64, true), (4 * 3600, true), (21_600 - 90, true), (21_600 + 90, false), (10_000 + 30, true), (9_000, true), (100_000, false)] {
            n += 1;
            let mut p = params("play.example.org");
            p.intent = 3;
            p.auth_cookie = Some(cookie(APP_SECRET.as_bytes(), age, ip, "Cookie_Holder"));
            let r = login(addr, kind, &p).await;
            if flag(&r) != Some(!accepted) {
                out.lock().unwrap().push((
                    if accepted { "app:cookie-within-the-expiry-not-accepted".into() } else { "app:cookie-beyond-the-expiry-accepted".into() },
                    format!("configuration '{kind}' (auth_cookie_expiry left at 21600 s): a cookie aged {age} s: should_authenticate = {:?} ({:?})", flag(&r), kinds(&r)),
                    json!({"app": {"kind": kind, "case": "age", "age": age}}),
                ));
            }
        }
    }
    n
}

pub fn host(rep: &Report, prop: &str, _thorough: bool) {
    let kinds: Vec<&str> = match prop {
        "C01" | "C02" => vec!["full", "proxy", "dualstack"],
        "C03" => vec!["full"],
        "C04" => vec!["full", "defaults"],
        "C05" | "C06" | "C09" => vec!["full", "offline", "proxy"],
        "C07" => vec!["full", "proxy"],
        "C10" => vec!["full", "defaults", "proxy", "dualstack"],
        _ => return,
    };
    let out: Mutex<Vec<Viol>> = Mutex::new(vec![]);
    let cases = std::sync::atomic::AtomicU64::new(0);
    common::par_for(kinds.len(), |i| {
        let kind = kinds[i];
        let app = spawn(kind);
        let addr = app.addr;
        let n = run_local(async {
            match prop {
                "C01" | "C02" => cookie_cases(addr, kind, prop, &out).await,
                "C03" => routing_cases(addr, kind, &out).await,
                "C04" => length_cases(addr, kind, &out).await,
                "C05" | "C06" | "C09" => exchange_cases(addr, kind, prop, &out).await,
                "C07" => keep_alive_case(addr, kind, &out).await,
                _ => issue_cases(addr, kind, &out).await,
            }
        });
        cases.fetch_add(n, std::sync::atomic::Ordering::Relaxed);
        let code = stop_app(app);
        if code != Some(0) {
            out.lock().unwrap().push(("app:exit".into(), format!("configuration '{kind}': the application exited with {code:?} after SIGINT"), json!({"app": {"kind": kind, "case": "exit"}})));
        }
    });
    for (k, t, replay) in out.into_inner().unwrap() {
        if k == "app:exit" && !matches!(prop, "C04") {
            // how the process ends is C17's subject; here it would only be noise
            continue;
        }
        rep.violation(Violation { key: k, text: t, replay, weight: 7_000_000 });
    }
    let n = cases.load(std::sync::atomic::Ordering::Relaxed);
    rep.require("whole connections to the application started by passage::start", n, 1);
    rep.set("app_configurations", json!(kinds));
    rep.set("app_connections", json!(n));
    rep.assume("application part: passage::start in a child process, its configuration read by Config::read() from a YAML file and a secret file written for the run; the expected behaviour is read off that configuration by hand (routing table, messages, limits), not computed by the code under test");
}

/// C11 / C12: the application with the Mojang adapter (its has-joined requests go to a loopback mock through the
/// add-only origin override), one fresh process per configured server id. The first two logins of every process
/// overlap (both clients have sent everything up to the session Cookie Response before either reads); further
/// logins follow one by one. Every connection must cause exactly one request, for its claimed name, carrying the
/// hash of the *configured* server id, its own shared secret and the public key it was itself sent.
pub fn mojang_host(rep: &Report, prop: &str) {
    for v in ["http_proxy", "HTTP_PROXY", "https_proxy", "HTTPS_PROXY", "all_proxy", "ALL_PROXY"] {
        unsafe { std::env::remove_var(v) };
    }
    let ids: Vec<&str> = vec!["", "lobby", "exactly-twenty-chars", "twenty-one-characters", "a server id of forty-three characters, long", "0042", "s\u{fc}d-1", "\u{30ed}\u{30d3}\u{30fc}", "\u{43b}\u{43e}\u{431}\u{431}\u{438}-\u{441}\u{435}\u{440}\u{432}\u{435}\u{440}-01"];
    let names: Vec<&str> = if prop == "C12" { vec!["Plain_Name", "a&serverId=1", "x?y#z", "%26%3D%23", "n m+o", "../../x", "ü&ß=1"] } else { vec!["Plain_Name", "Second_Name"] };
    let out: Mutex<Vec<Viol>> = Mutex::new(vec![]);
    let conns = std::sync::atomic::AtomicU64::new(0);
    common::par_for(ids.len(), |i| {
        let sid = ids[i];
        run_local(async {
            let log = std::sync::Arc::new(Mutex::new(vec![]));
            let mock = crate::c12::mock_server(log.clone()).await;
            let kind = format!("mojang:{sid}");
            let app = tokio::task::spawn_blocking({
                let kind = kind.clone();
                move || spawn_env(&kind, &[("PASSAGE_VERIF_SESSION_URL", format!("http://{mock}"))])
            })
            .await
            .expect("spawn");
            let addr = app.addr;
            // (claimed name, secret, public key received, admitted as)
            let mut done: Vec<(String, [u8; 16], Vec<u8>, Option<String>, String)> = vec![];
            // the first two logins of the process, overlapping
            let mut early = vec![];
            for (k, name) in ["Early_One", "Early_Two"].iter().enumerate() {
                let mut secret = *b"early-secret-00x";
                secret[15] = b'0' + k as u8;
                let p = LoginParams { name: name.to_string(), secret, wait: Duration::from_secs(4), ..Default::default() };
                if let Ok(mut c) = McClient::connect(addr, None).await {
                    c.phase = Phase::Login;
                    let burst = [codec::sb_handshake(769, &p.host, p.port, 2), codec::sb_login_start(&p.name, p.uuid), codec::sb_login_cookie_response("passage:session", None)].concat();
                    let _ = c.send_raw(&burst).await;
                    early.push((c, p));
                }
            }
            for (mut c, p) in early {
                let mut o = LoginOutcome { packets: vec![], stage: Stage::Connected, error: None };
                for _ in 0..2 {
                    match c.read_packet(p.wait).await {
                        Ok(pk) => o.packets.push(pk),
                        Err(e) => o.error = Some(e),
                    }
                }
                if o.error.is_none() && matches!(o.packets.last(), Some(Pkt::EncryptionRequest { .. })) {
                    o.stage = Stage::EncryptionRequestReceived;
                    c.login(&p, Stage::EncryptionRequestReceived, Stage::LoginSuccessReceived, &mut o).await;
                }
                let key = o.packets.iter().find_map(|p| if let Pkt::EncryptionRequest { public_key, .. } = p { Some(public_key.clone()) } else { None }).unwrap_or_default();
                let granted = o.packets.iter().find_map(|p| if let Pkt::LoginSuccess { name, .. } = p { Some(name.clone()) } else { None });
                done.push((p.name.clone(), p.secret, key, granted, format!("one of the first two, overlapping logins of the process ({:?} {:?})", o.stage, o.error)));
            }
            // forty clients whose Encryption Response does not decrypt (they are refused; whatever the router does about
            // such clients, the logins that follow are ordinary ones)
            for _ in 0..40 {
                if let Ok(mut c) = McClient::connect(addr, None).await {
                    let p = LoginParams { name: "Garbage".into(), wait: Duration::from_secs(2), ..Default::default() };
                    let mut o = LoginOutcome { packets: vec![], stage: Stage::Connected, error: None };
                    c.login(&p, Stage::Connected, Stage::EncryptionRequestReceived, &mut o).await;
                    let _ = c.send(&codec::sb_encryption_response(&[0x5a; 128], &[0xa5; 128])).await;
                    let _ = c.wait_closed(Duration::from_millis(500)).await;
                }
            }
            for (k, name) in names.iter().enumerate() {
                let mut secret = *b"later-secret-00x";
                secret[15] = b'a' + k as u8;
                let p = LoginParams { name: name.to_string(), secret, wait: Duration::from_secs(4), ..Default::default() };
                let mut o = LoginOutcome { packets: vec![], stage: Stage::Connected, error: None };
                if let Ok(mut c) = McClient::connect(addr, None).await {
                    c.login(&p, Stage::Connected, Stage::LoginSuccessReceived, &mut o).await;
                }
                let key = o.packets.iter().find_map(|p| if let Pkt::EncryptionRequest { public_key, .. } = p { Some(public_key.clone()) } else { None }).unwrap_or_default();
                let granted = o.packets.iter().find_map(|p| if let Pkt::LoginSuccess { name, .. } = p { Some(name.clone()) } else { None });
                done.push((p.name.clone(), p.secret, key, granted, format!("a later login ({:?} {:?})", o.stage, o.error)));
            }
            conns.fetch_add(done.len() as u64, std::sync::atomic::Ordering::Relaxed);
            let mut seen: Vec<String> = log.lock().unwrap().clone();
            for (name, secret, key, granted, what) in &done {
                let hash = enumk::c11::reference(sid, secret, key);
                let replay = json!({"app": {"kind": kind, "case": "has-joined", "name": name}});
                match seen.iter().position(|line| crate::c12::judge_request(line, name, &hash).is_none()) {
                    Some(i) => {
                        seen.remove(i);
                    }
                    None => out.lock().unwrap().push((
                        "app:no-has-joined-request-with-this-connections-hash".into(),
                        format!("server id {sid:?} configured in the YAML file: the connection claiming {name:?} ({what}) caused no has-joined request for that name carrying serverId={hash} (admitted as {granted:?}); requests not matched by any connection: {seen:?}"),
                        replay.clone(),
                    )),
                }
                if granted.as_deref() != Some("FromSessionServer") {
                    out.lock().unwrap().push(("app:vouched-player-not-admitted".into(), format!("server id {sid:?}: the connection claiming {name:?} ({what}) was admitted as {granted:?}; the session server vouches for FromSessionServer"), replay));
                }
            }
            if !seen.is_empty() {
                out.lock().unwrap().push(("app:has-joined-request-of-no-connection".into(), format!("server id {sid:?}: requests that belong to no connection: {seen:?}"), json!({"app": {"kind": kind, "case": "has-joined"}})));
            }
            let _ = tokio::task::spawn_blocking(move || stop_app(app)).await;
        });
    });
    for (k, t, replay) in out.into_inner().unwrap() {
        rep.violation(Violation { key: k, text: t, replay, weight: 7_100_000 });
    }
    let n = conns.load(std::sync::atomic::Ordering::Relaxed);
    rep.require("logins through the application with the Mojang adapter", n, 10);
    rep.set("app_mojang_server_ids", json!(ids));
    rep.set("app_mojang_connections", json!(n));
    rep.assume("application part: one fresh process per configured server id (passage::start, configuration read by Config::read() from YAML), session requests to a loopback mock through the add-only origin override of passage-adapters-http");
}
