//! C02: authentication is skipped only for a valid, unexpired, same-IP signed cookie.
//!
//! Two parts, one report: (1) vsim's sweep over the real `Connection` (every cookie variant against the
//! reference acceptance predicate); (2) histories of two connections through the real Listener: a player logs in
//! from one address and is handed a cookie, then a Transfer-intent connection presents that cookie from another
//! address - the address the cookie is bound to and the address it is compared with are the ones the listener
//! hands to the connection (TCP peer, or the source announced in the PROXY header).
use crate::net::*;
use common::refs::codec::Pkt;
use common::{Cli, Report, Violation};
use serde_json::json;
use std::net::{IpAddr, SocketAddr};
use std::sync::atomic::{AtomicU64, Ordering};
use std::time::Duration;

const SECRET: &[u8] = b"c02-listener-secret";

/// (first source, second source): the cookie issued to the first is presented from the second
fn pairs() -> Vec<(&'static str, &'static str)> {
    vec![
        ("[2001:db8:1:2::aaaa]:40001", "[2001:db8:1:2::bbbb]:40002"),
        ("[2001:db8:1:2::aaaa]:40001", "[2001:db8:1:2::aaaa]:40002"),
        ("[2001:db8:1:2::aaaa]:40001", "[2001:db8:1:3::aaaa]:40001"),
        ("[2001:db8:1:2:3:4:5:6]:40001", "[2001:db8:1:2:3:4:5:7]:40001"),
        ("203.0.113.10:40001", "203.0.113.11:40001"),
        ("203.0.113.10:40001", "203.0.113.10:40999"),
        ("203.0.113.10:40001", "203.0.112.10:40001"),
        ("10.1.2.3:40001", "[::ffff:10.1.2.3]:40001"),
        ("10.1.2.3:40001", "[::10.1.2.3]:40001"),
        ("[fe80::1]:40001", "[fe80::2]:40001"),
        ("[::1]:40001", "127.0.0.1:40001"),
    ]
}

fn listener_histories(rep: &Report) -> u64 {
    let n = AtomicU64::new(0);
    run_local(async {
        for proxy in ["v1", "v2"] {
            let cfg = ListenerCfg { proxy: Some((true, true)), timeout: Duration::from_secs(20), auth_secret: Some(SECRET.to_vec()), ..Default::default() };
            let adapters = NetAdapters::new();
            let log = adapters.log.clone();
            let running = start_listener(&cfg, adapters).await;
            for (first, second) in pairs() {
                n.fetch_add(1, Ordering::Relaxed);
                let (a, b): (SocketAddr, SocketAddr) = (first.parse().unwrap(), second.parse().unwrap());
                let hdr = |src: SocketAddr| {
                    let dst: SocketAddr = if src.is_ipv4() { running.addr } else { "[2001:db8::ffff]:25565".parse().unwrap() };
                    if proxy == "v1" { proxy_v1(src, dst) } else { proxy_v2(src, dst) }
                };
                let replay = json!({"listener": {"proxy": proxy, "first": first, "second": second}});
                // ---- first connection: a fresh login, routed, handed its cookie
                let Ok(mut c1) = McClient::connect(running.addr, Some("127.0.0.2".parse().unwrap())).await else { continue };
                let _ = c1.send_raw(&hdr(a)).await;
                let p1 = LoginParams { intent: 2, name: "First_Name".into(), wait: Duration::from_secs(2), ..Default::default() };
                let mut o1 = LoginOutcome { packets: vec![], stage: Stage::Connected, error: None };
                c1.login(&p1, Stage::Connected, Stage::Transferred, &mut o1).await;
                let cookie = o1.packets.iter().find_map(|p| if let Pkt::StoreCookie { key, payload } = p { (key == "passage:authentication").then(|| payload.clone()) } else { None });
                let Some(cookie) = cookie else {
                    // (that a cookie is issued at all is C10's subject)
                    common::machinery(&format!("C02 listener part: the first connection from {first} was not handed a cookie: {:?} {:?}", o1.stage, o1.error));
                };
                // ---- second connection: Transfer intent, presents the cookie from the second address
                let before = log.lock().unwrap().auth_clients.len();
                let Ok(mut c2) = McClient::connect(running.addr, Some("127.0.0.2".parse().unwrap())).await else { continue };
                let _ = c2.send_raw(&hdr(b)).await;
                let p2 = LoginParams { intent: 3, name: "Second_Name".into(), auth_cookie: Some(cookie), wait: Duration::from_secs(2), ..Default::default() };
                let mut o2 = LoginOutcome { packets: vec![], stage: Stage::Connected, error: None };
                c2.login(&p2, Stage::Connected, Stage::LoginSuccessReceived, &mut o2).await;
                let flag = o2.packets.iter().find_map(|p| if let Pkt::EncryptionRequest { should_authenticate, .. } = p { Some(*should_authenticate) } else { None });
                let asked = log.lock().unwrap().auth_clients.len() - before;
                let under = o2.packets.iter().find_map(|p| if let Pkt::LoginSuccess { name, .. } = p { Some(name.clone()) } else { None });
                let same = a.ip() == b.ip();
                let mapped = |x: IpAddr, y: IpAddr| matches!((x, y), (IpAddr::V4(v4), IpAddr::V6(v6)) if v6.to_ipv4_mapped() == Some(v4));
                let skipped = flag == Some(false) || (under.is_some() && asked == 0);
                if !same && !mapped(a.ip(), b.ip()) && !mapped(b.ip(), a.ip()) && skipped {
                    rep.violation(Violation {
                        key: format!("listener:authentication-skipped-for-another-address:{}", if a.is_ipv4() { "ipv4" } else { "ipv6" }),
                        text: format!("PROXY {proxy}: the cookie handed to a player at {first} was presented from {second}: flag {flag:?}, authentication calls {asked}, Login Success under {under:?}"),
                        replay,
                        weight: 4,
                    });
                } else if under.as_deref() == Some("First_Name") && flag != Some(false) {
                    rep.violation(Violation { key: "listener:cookie-identity-without-skipping".into(), text: format!("{first} -> {second}: told to authenticate but admitted under the cookie's identity"), replay, weight: 4 });
                } else if under.is_none() {
                    rep.violation(Violation { key: "listener:second-connection-not-admitted".into(), text: format!("{first} -> {second}: {:?} {:?}", o2.stage, o2.error), replay, weight: 4 });
                }
            }
            running.stop.cancel();
            let _ = tokio::time::timeout(Duration::from_secs(2), running.done).await;
        }
    });
    n.load(Ordering::Relaxed)
}

pub fn run(cli: Cli) -> ! {
    if let Some(case) = &cli.replay {
        if case.get("listener").is_none() {
            vsim::c02::run(cli);
        }
    }
    let rep = Report::new("C02", cli.tier, "model_checking");
    if cli.replay.is_none() {
        vsim::c02::core(&rep, cli.tier.thorough());
    } else {
        rep.set("states", json!(1));
        rep.set("transitions", json!(1));
        rep.set("traces_validated_against_impl", json!(1));
    }
    let n = listener_histories(&rep);
    rep.require("two-connection histories through the real Listener", n, 20);
    rep.set("histories_through_the_real_listener", json!(n));
    rep.assume("listener part: the client addresses are the sources announced in PROXY v1 / v2 headers over loopback TCP; an IPv4 address and its IPv4-mapped form are not judged");
    // the assembled router: stage-wise schedules of two clients and of the shutdown signal against the real Listener,
    // and the application started by passage::start from a configuration read by Config::read()
    crate::world::host(&rep, "C02", cli.tier.thorough());
    crate::app::host(&rep, "C02", cli.tier.thorough());
    rep.finish()
}
