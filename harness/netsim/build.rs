// Generates a gRPC *server* (and client) from the repository's own .proto files, so that the mock
// peer of the gRPC adapters speaks exactly the wire contract the adapters were built against.
fn main() -> Result<(), Box<dyn std::error::Error>> {
    let root = "/repo/passage-adapters/grpc/proto";
    for f in ["adapter", "discovery", "status", "strategy"] {
        println!("cargo:rerun-if-changed={root}/adapter/{f}.proto");
    }
    tonic_prost_build::configure()
        .protoc_arg("--experimental_allow_proto3_optional")
        .build_server(true)
        .build_client(false)
        .compile_protos(
            &[
                &format!("{root}/adapter/adapter.proto"),
                &format!("{root}/adapter/discovery.proto"),
                &format!("{root}/adapter/status.proto"),
                &format!("{root}/adapter/strategy.proto"),
            ],
            &[&root.to_string()],
        )?;
    Ok(())
}
