//! C11: the session server hash equals Minecraft's signed SHA-1 hex digest.
use common::refs::sha::{minecraft_hex, sha1};
use common::{Cli, Report, Violation, hex, par_for};
use passage_adapters::authentication::minecraft_hash;
use serde_json::json;
use std::sync::atomic::{AtomicU64, Ordering};

pub fn reference(server_id: &str, secret: &[u8], key: &[u8]) -> String {
    let mut all = server_id.as_bytes().to_vec();
    all.extend_from_slice(secret);
    all.extend_from_slice(key);
    minecraft_hex(&sha1(&all))
}

fn check(rep: &Report, server_id: &str, secret: &[u8], key: &[u8], classes: &[AtomicU64; 7]) {
    let expected = reference(server_id, secret, key);
    let got = std::panic::catch_unwind(|| minecraft_hash(server_id, secret, key));
    // classify the digest
    let neg = expected.starts_with('-');
    let digits = expected.trim_start_matches('-').len();
    classes[neg as usize].fetch_add(1, Ordering::Relaxed);
    let lead = 40 - digits;
    classes[2 + lead.min(4)].fetch_add(1, Ordering::Relaxed);
    let ok = matches!(&got, Ok(g) if *g == expected);
    if !ok {
        let class = format!("{}-lead{}", if neg { "negative" } else { "positive" }, lead.min(4));
        rep.violation(Violation {
            key: format!("hash-mismatch:{class}"),
            text: format!(
                "server_id={server_id:?} secret={} key_len={} expected {expected} got {got:?}",
                hex(secret),
                key.len()
            ),
            replay: json!({"server_id": server_id, "secret_hex": hex(secret), "key_hex": hex(key)}),
            weight: (secret.len() + key.len()) as u64,
        });
    }
}

/// Feeds inputs and the implementation's answers to a Python one-liner that recomputes the hash with
/// hashlib and int.from_bytes(signed=True); returns how many inputs were compared (0 if python3 is absent).
fn python_cross_check(rep: &Report, sids: &[&str], keys: &[Vec<u8>], seed: u64) -> u64 {
    use std::io::Write;
    let script = r#"
import sys, json, hashlib
bad = 0
n = 0
out = []
for line in sys.stdin:
    j = json.loads(line)
    d = hashlib.sha1(j["sid"].encode() + bytes.fromhex(j["secret"]) + bytes.fromhex(j["key"])).digest()
    v = int.from_bytes(d, "big", signed=True)
    want = ("-" if v < 0 else "") + format(abs(v), "x")
    n += 1
    if want != j["got"]:
        bad += 1
        # reported after the whole input has been read: printing here could fill the pipe while the harness
        # is still writing inputs, and both sides would wait for each other
        if bad <= 20:
            out.append("MISMATCH " + json.dumps({"sid": j["sid"], "secret": j["secret"], "key": j["key"], "python": want, "passage": j["got"]}))
for l in out:
    print(l)
print("DONE", n, bad)
"#;
    let Ok(mut child) = std::process::Command::new("python3").args(["-c", script]).stdin(std::process::Stdio::piped()).stdout(std::process::Stdio::piped()).stderr(std::process::Stdio::null()).spawn() else {
        rep.assume("python3 not available: the hashlib cross-check was skipped");
        return 0;
    };
    {
        let stdin = child.stdin.as_mut().expect("stdin");
        for i in 0..2000u64 {
            let ctr = (i.wrapping_mul(0x9E3779B97F4A7C15) ^ seed) as u128;
            let secret = ctr.to_be_bytes();
            let sid = sids[(i % sids.len() as u64) as usize];
            let key = &keys[(i % keys.len() as u64) as usize];
            let got = std::panic::catch_unwind(|| minecraft_hash(sid, &secret, key)).unwrap_or_else(|_| "<panic>".into());
            let _ = writeln!(stdin, "{}", json!({"sid": sid, "secret": hex(&secret), "key": hex(key), "got": got}));
        }
    }
    let Ok(out) = child.wait_with_output() else { return 0 };
    let text = String::from_utf8_lossy(&out.stdout).to_string();
    let mut n = 0;
    for l in text.lines() {
        if let Some(m) = l.strip_prefix("MISMATCH ") {
            rep.violation(Violation { key: "hash-mismatch:python-hashlib".into(), text: m.to_string(), replay: serde_json::from_str(m).unwrap_or(json!({})), weight: 0 });
        } else if let Some(d) = l.strip_prefix("DONE ") {
            n = d.split(' ').next().and_then(|x| x.parse().ok()).unwrap_or(0);
        }
    }
    if n == 0 {
        rep.assume("the python3 hashlib cross-check produced no result and was skipped");
    }
    n
}

/// SHA-1 of a 16-byte message (one block), as five big-endian words: the search loop of `find_shapes`.
fn sha1_16(m: [u32; 4]) -> [u32; 5] {
    let mut w = [0u32; 80];
    w[..4].copy_from_slice(&m);
    w[4] = 0x8000_0000;
    w[15] = 128;
    for i in 16..80 {
        w[i] = (w[i - 3] ^ w[i - 8] ^ w[i - 14] ^ w[i - 16]).rotate_left(1);
    }
    let h: [u32; 5] = [0x67452301, 0xEFCDAB89, 0x98BADCFE, 0x10325476, 0xC3D2E1F0];
    let (mut a, mut b, mut c, mut d, mut e) = (h[0], h[1], h[2], h[3], h[4]);
    for (i, wi) in w.iter().enumerate() {
        let (f, k) = match i {
            0..=19 => ((b & c) | ((!b) & d), 0x5A827999u32),
            20..=39 => (b ^ c ^ d, 0x6ED9EBA1),
            40..=59 => ((b & c) | (b & d) | (c & d), 0x8F1BBCDC),
            _ => (b ^ c ^ d, 0xCA62C1D6),
        };
        let t = a.rotate_left(5).wrapping_add(f).wrapping_add(e).wrapping_add(k).wrapping_add(*wi);
        e = d;
        d = c;
        c = b.rotate_left(30);
        b = a;
        a = t;
    }
    [h[0].wrapping_add(a), h[1].wrapping_add(b), h[2].wrapping_add(c), h[3].wrapping_add(d), h[4].wrapping_add(e)]
}

/// The rare digest shapes (each has probability about 2^-32 or 2^-20 per input) in which a hand-made
/// signed-hex conversion typically goes wrong: a whole 32-bit word of the digest zero or all ones (an
/// implementation that splits the 160 bits into machine words must pad inner words and must not pad the
/// leading one; a two's-complement negation must carry across an all-zero word), and 5 to 7 leading zero
/// or F nibbles.
pub fn shape_classes(d: &[u32; 5]) -> Vec<String> {
    let mut out = vec![];
    for (k, w) in d.iter().enumerate() {
        if *w == 0 {
            out.push(format!("word{k}-zero"));
        }
        if *w == u32::MAX {
            out.push(format!("word{k}-ones"));
        }
    }
    let neg = d[0] >> 31 == 1;
    if neg && d[4] == 0 {
        out.push("negative-low-word-zero".into());
    }
    if neg && d[4] & 0x00FF_FFFF == 0 {
        out.push("negative-low-3-bytes-zero".into());
    }
    if d[0] == 0x8000_0000 {
        out.push("word0-min".into());
    }
    if d[0] == 0x7FFF_FFFF {
        out.push("word0-max".into());
    }
    let lz = d[0].leading_zeros() / 4;
    let lo = d[0].leading_ones() / 4;
    if (5..8).contains(&lz) {
        out.push(format!("lead-zero-nibbles-{lz}"));
    }
    if (5..8).contains(&lo) {
        out.push(format!("lead-f-nibbles-{lo}"));
    }
    out
}

/// `enumk C11-find-shapes <log2 n>`: searches the 16-byte big-endian counters 0..2^n (server id and key
/// empty) with the harness's own SHA-1 for inputs whose digest has one of the rare shapes and prints up
/// to 3 witnesses per class as JSON lines. The committed table `c11_shapes.jsonl` was produced this way;
/// the check never trusts it: it recomputes every witness's digest and shape with the reference first.
pub fn find_shapes(log2n: u32) {
    use std::collections::BTreeMap;
    let n: u64 = 1 << log2n;
    let chunks = 4096usize;
    let found: std::sync::Mutex<BTreeMap<String, Vec<u64>>> = Default::default();
    par_for(chunks, |c| {
        let lo = n / chunks as u64 * c as u64;
        let hi = lo + n / chunks as u64;
        for i in lo..hi {
            let d = sha1_16([0, 0, (i >> 32) as u32, i as u32]);
            // cheap pre-filter: some word is 0 / all ones, or >= 5 leading equal nibbles, or 3 low zero bytes
            let rare = d.iter().any(|w| *w == 0 || *w == u32::MAX) || d[0] >> 12 == 0 || d[0] >> 12 == 0xFFFFF || d[4] & 0x00FF_FFFF == 0 || d[0] == 0x8000_0000 || d[0] == 0x7FFF_FFFF;
            if rare {
                let cls = shape_classes(&d);
                if !cls.is_empty() {
                    let mut f = found.lock().unwrap();
                    for cl in cls {
                        let v = f.entry(cl).or_default();
                        if v.len() < 3 {
                            v.push(i);
                        }
                    }
                }
            }
        }
    });
    for (cl, v) in found.lock().unwrap().iter() {
        for i in v {
            let secret = (*i as u128).to_be_bytes();
            println!("{}", json!({"class": cl, "secret_hex": hex(&secret), "digest_hex": hex(&sha1(&secret))}));
        }
    }
}

const SHAPES: &str = include_str!("c11_shapes.jsonl");

/// Compares the implementation with the reference on the committed witnesses of rare digest shapes.
fn shape_witnesses(rep: &Report, classes: &[AtomicU64; 7]) -> std::collections::BTreeMap<String, u64> {
    let mut per_class = std::collections::BTreeMap::new();
    for line in SHAPES.lines().filter(|l| !l.trim().is_empty()) {
        let j: serde_json::Value = serde_json::from_str(line).unwrap_or_else(|_| common::machinery("c11_shapes.jsonl: malformed line"));
        let secret = common::unhex(j["secret_hex"].as_str().unwrap_or(""));
        let class = j["class"].as_str().unwrap_or("").to_string();
        let d = sha1(&secret);
        let words: [u32; 5] = std::array::from_fn(|k| u32::from_be_bytes([d[4 * k], d[4 * k + 1], d[4 * k + 2], d[4 * k + 3]]));
        if !shape_classes(&words).contains(&class) {
            common::machinery(&format!("c11_shapes.jsonl: witness {} does not have shape {class} under the reference SHA-1", hex(&secret)));
        }
        *per_class.entry(class).or_insert(0u64) += 1;
        check(rep, "", &secret, &[], classes);
    }
    per_class
}

pub fn run(cli: Cli) -> ! {
    let classes: [AtomicU64; 7] = Default::default();
    if let Some(case) = cli.replay {
        let rep = Report::new("C11", cli.tier, "exploration");
        let sid = case["server_id"].as_str().unwrap_or("").to_string();
        let secret = common::unhex(case["secret_hex"].as_str().unwrap_or(""));
        let key = common::unhex(case["key_hex"].as_str().unwrap_or(""));
        println!("expected (independent reference) = {}", reference(&sid, &secret, &key));
        println!("observed (minecraft_hash)        = {:?}", std::panic::catch_unwind(|| minecraft_hash(&sid, &secret, &key)));
        check(&rep, &sid, &secret, &key, &classes);
        rep.finish();
    }
    let rep = Report::new("C11", cli.tier, "exploration");
    core(&rep, cli.tier.thorough());
    rep.finish()
}

/// The enumeration of the hash function itself (everything but the whole-connection histories, which
/// need sockets and live in netsim's C11).
pub fn core(rep: &Report, thorough: bool) {

    let classes: [AtomicU64; 7] = Default::default();
    let seed = common::seed();
    let evals = AtomicU64::new(0);

    // 1. published vectors (server id only, as on wiki.vg)
    for (name, want) in [
        ("Notch", "4ed1f46bbe04bc756bcb17c0c7ce3e4632f06a48"),
        ("jeb_", "-7c9d5b0044c130109a5d7b5fb5c317c02b4e28c1"),
        ("simon", "88e16a1019277b15d58faf0541e11910eb756f6"),
    ] {
        // the reference itself must reproduce the published vector, else the machinery is wrong
        if reference(name, b"", b"") != want {
            common::machinery("reference SHA-1/hex does not reproduce the published vectors");
        }
        // split the name over the three parts in every way
        for i in 0..=name.len() {
            for j in i..=name.len() {
                check(rep, &name[..i], name[i..j].as_bytes(), name[j..].as_bytes(), &classes);
                evals.fetch_add(1, Ordering::Relaxed);
            }
        }
    }

    // 2. counter secrets x server ids x keys
    let der: Vec<u8> = (0..162u32).map(|i| (i * 7 + 3) as u8).collect();
    let keys: Vec<Vec<u8>> = vec![vec![], vec![0x30], der];
    let long300 = "s".repeat(300);
    // the last twelve: leading / trailing / only white space, letter case, NUL, and two spellings of one
    // accented letter - the server id is hashed byte for byte
    let sids: [&str; 21] = [
        "", "a", "justchunks", "exactly-twenty-chars", "twenty-one-characters", "mc.some-rather-long-host-name.example.org", "sérvér-😀", &long300,
        "exactly-twenty-charsX", "lobby", "lobby\n", "lobby\r\n", " lobby", "\tlobby", "lobby ", " ", "lobby\u{a0}", "Lobby", "lob\0by", "lobbe\u{301}", "lobb\u{e9}",
    ];
    let n: u64 = if thorough { 1 << 20 } else { 1 << 14 };
    let chunks = 256usize;
    par_for(chunks, |c| {
        let lo = n * c as u64 / chunks as u64;
        let hi = n * (c as u64 + 1) / chunks as u64;
        for i in lo..hi {
            let ctr = (i ^ (seed.wrapping_mul(0x9E3779B97F4A7C15) & (n - 1))) as u128;
            let secret = ctr.to_be_bytes();
            for sid in sids {
                for key in &keys {
                    check(rep, sid, &secret, key, &classes);
                }
            }
        }
        evals.fetch_add((hi - lo) * (sids.len() * keys.len()) as u64, Ordering::Relaxed);
    });

    // 3. every byte string of length <= 2 as secret
    let mut shorts: Vec<Vec<u8>> = vec![vec![]];
    for a in 0..=255u8 {
        shorts.push(vec![a]);
    }
    for a in 0..=255u8 {
        for b in 0..=255u8 {
            shorts.push(vec![a, b]);
        }
    }
    par_for(shorts.len(), |i| {
        check(rep, "", &shorts[i], &[], &classes);
        check(rep, "srv", &shorts[i], &[0x30, 0x81], &classes);
        evals.fetch_add(2, Ordering::Relaxed);
    });

    // 3b. committed witnesses of rare digest shapes (found with the reference, re-validated here)
    let shapes = shape_witnesses(rep, &classes);
    evals.fetch_add(shapes.values().sum::<u64>(), Ordering::Relaxed);
    rep.require("rare digest shapes with a witness", shapes.len() as u64, 14);
    rep.set("rare_digest_shape_witnesses", json!(shapes));

    // 4. a third, unrelated reference: Python's hashlib and big-integer arithmetic on 2 000 of the inputs
    let py_checked = python_cross_check(rep, &sids, &keys, seed);
    rep.set("python_hashlib_cross_checked", json!(py_checked));

    let cl: Vec<u64> = classes.iter().map(|a| a.load(Ordering::Relaxed)).collect();
    let names = ["positive", "negative", "lead0", "lead1", "lead2", "lead3", "lead>=4"];
    for (i, nme) in names.iter().enumerate() {
        // the >=4 class has probability 2^-16 per digest: require it only when enough were drawn
        let min = if i == 6 && evals.load(Ordering::Relaxed) < 1_000_000 { 0 } else { 1 };
        rep.require(&format!("digest class {nme}"), cl[i], min);
    }
    rep.set("evaluations", json!(evals.load(Ordering::Relaxed)));
    rep.set("distinct_nontrivial", json!(cl[1] + cl[3] + cl[4] + cl[5] + cl[6]));
    rep.set(
        "rule",
        json!("published vectors split over (server id, secret, key) in every way; 16-byte big-endian counter secrets x 21 server ids (empty, short, 20/21/41 characters, non-ASCII, 300 characters, two sharing a 20-character prefix, leading / trailing / only white space, letter case, NUL, composed and decomposed accent) x 3 key encodings; every secret of length <= 2; committed witnesses (found by a 2^35 search with the reference SHA-1, re-validated on every run) of digests with a whole 32-bit word zero or all ones at each of the five positions, 5-7 leading zero or F nibbles, and negative digests whose low word or low three bytes are zero. Non-trivial = digest negative or with at least one leading zero nibble (the cases where unsigned/zero-padded printing differs)."),
    );
    rep.set("digest_classes", json!(names.iter().zip(cl.iter()).map(|(a, b)| (a.to_string(), *b)).collect::<std::collections::BTreeMap<_, _>>()));
    rep.set("exhaustive", json!(true));
    rep.sample(json!({"server_id": "justchunks", "secret_hex": hex(&1u128.to_be_bytes()), "key_len": 162,
        "hash": reference("justchunks", &1u128.to_be_bytes(), &keys[2])}));
    rep.sample(json!({"server_id": "", "secret_hex": "", "key_hex": "", "hash": reference("", &[], &[])}));
    rep.sample(json!({"published": "jeb_", "hash": reference("jeb_", &[], &[])}));
    rep.assume("the edge digest 0x80 00..00 is not reachable through the public function (probability 2^-160) and is not covered");
    rep.assume("the reference SHA-1 is validated against the FIPS 'abc' vector and the three published Minecraft vectors at start-up");
}
